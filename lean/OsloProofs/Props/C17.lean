/-
C17 — version helpers preserve ordering and PEP 440 semantics (oslo_utils/versionutils.py).

Property theorems only; helper lemmas are `lemma_…` (here when they mention the specification
vocabulary below, otherwise in `OsloProofs/Lemmas/C17.lean`).  Every theorem quantifies over all
component lists / all strings / every instance `P : Pep V` of the abstract `packaging.version`
interface.  Theorems about the operator table and the clause grammar are stated over the tables in
`Generated/C17.lean`, which are re-read from the code on every run.
-/
import OsloProofs.Lemmas.C17
namespace Oslo.Version

/-! ### specification vocabulary -/

/-- the dotted version of a component list: `'.'.join(map(str, l))` -/
def render (l : List Nat) : List Char := join '.' (l.map natRepr)

/-- "components lie in 0..999 (first non-zero)" -/
def Canonical (l : List Nat) : Prop := l ≠ [] ∧ l.head? ≠ some 0 ∧ ∀ c ∈ l, c < 1000

instance (l : List Nat) : Decidable (Canonical l) := by unfold Canonical; exact inferInstance

/-- `convert_version_to_str` applied to what `convert_version_to_int` returned -/
def strOfInt : Except Err IntOut → Option (List Char)
  | .ok (.int v) => toStrInt v
  | _ => none


/-- Python's `<` on tuples of ints -/
def tupleLt : List Int → List Int → Bool
  | [], [] => false
  | [], _ :: _ => true
  | _ :: _, [] => false
  | a :: as, b :: bs => if a < b then true else if b < a then false else tupleLt as bs

def InRange (l : List Int) : Prop := ∀ c ∈ l, 0 ≤ c ∧ c ≤ 999


instance (l : List Int) : Decidable (InRange l) := by unfold InRange; exact inferInstance

/-- base-1000 digits of a positive integer, most significant first -/
def parts1000 (n : Nat) : List Nat :=
  if n = 0 then [] else parts1000 (n / 1000) ++ [n % 1000]
termination_by n
decreasing_by omega

/-- the shape `\s*[^\s]+\s*` -/
def RestShape (r ver : List Char) : Prop :=
  ∃ mid post, r = mid ++ ver ++ post ∧ (∀ c ∈ mid, isReSpace c = true) ∧ ver ≠ [] ∧
    (∀ c ∈ ver, isReSpace c = false) ∧ (∀ c ∈ post, isReSpace c = true)

theorem lemma_matchRest_of_shape (r ver : List Char) (h : RestShape r ver) : matchRest r = some ver := by
  obtain ⟨mid, post, rfl, hmid, hne, hver, hpost⟩ := h
  obtain ⟨v, vs, rfl⟩ : ∃ v vs, ver = v :: vs := by
    cases ver with
    | nil => exact absurd rfl hne
    | cons v vs => exact ⟨v, vs, rfl⟩
  have h1 := lemma_takeWhile_run isReSpace mid ((v :: vs) ++ post) hmid
    (by intro c hc; simp at hc; subst hc; exact hver _ (by simp))
  have h2 := lemma_takeWhile_run (fun c => !isReSpace c) (v :: vs) post
    (by intro c hc; simp [hver c hc])
    (by intro c hc; cases post with
        | nil => simp at hc
        | cons x t => simp at hc; subst hc; simpa using hpost _ (List.mem_cons_self ..))
  unfold matchRest
  simp only [List.append_assoc] at h1 ⊢
  rw [h1.2, h2.1, h2.2]
  have : post.all isReSpace = true := by simpa using hpost
  simp [this]

theorem lemma_shape_of_matchRest (r ver : List Char) (h : matchRest r = some ver) : RestShape r ver := by
  unfold matchRest at h
  simp only at h
  split at h
  · rename_i hc
    simp only [Option.some.injEq] at h
    subst h
    simp only [Bool.and_eq_true, Bool.not_eq_true', List.all_eq_true] at hc
    refine ⟨r.takeWhile isReSpace, (r.dropWhile isReSpace).dropWhile (fun c => !isReSpace c), ?_, ?_, ?_, ?_, ?_⟩
    · rw [List.append_assoc, List.takeWhile_append_dropWhile, List.takeWhile_append_dropWhile]
    · intro c hc'; exact lemma_mem_takeWhile _ _ _ hc'
    · intro e; simp [e] at hc
    · intro c hc'; have := lemma_mem_takeWhile _ _ _ hc'; simpa using this
    · exact hc.2
  · cases h


/-- a piece the pattern `^\s*(<=|>=|<|>|!=|==)\s*([^\s]+)\s*$` can match, written as a grammar -/
def WellFormedPiece (p : List Char) : Prop :=
  ∃ pre op r ver, p = pre ++ op ++ r ∧ (∀ c ∈ pre, isReSpace c = true) ∧ op ∈ opAlternatives ∧ RestShape r ver

/-- what each operator text denotes -/
def opDenotes (cond : List Char) : Option Cmp :=
  if cond = ['<'] then some .lt else if cond = ['<', '='] then some .le
  else if cond = ['=', '='] then some .eq else if cond = ['>'] then some .gt
  else if cond = ['>', '='] then some .ge else if cond = ['!', '='] then some .ne else none

/-- one comparison `version <cond> w` -/
def holdsB {V} (P : Pep V) (cond : List Char) (v w : V) : Bool :=
  match opDenotes cond with
  | some op => P.cmp op v w
  | none => false

/-- `pred` is the piece-by-piece parse of `pieces`: one (operator, version) per piece, in order -/
def PiecesParsed {V} (P : Pep V) : List (List Char) → List (List Char × V) → Prop
  | [], [] => True
  | p :: ps, cw :: rest => (∃ ver, matchPiece p = some (cw.1, ver) ∧ P.parse ver = some cw.2) ∧ PiecesParsed P ps rest
  | _, _ => False

/-- the six operators of `P` all derive from one total preorder `le` (packaging: comparison of `_key`) -/
structure Lawful {V} (P : Pep V) (le : V → V → Prop) : Prop where
  total : ∀ a b, le a b ∨ le b a
  trans : ∀ a b c, le a b → le b c → le a c
  le_iff : ∀ a b, P.le a b = true ↔ le a b
  lt_iff : ∀ a b, P.lt a b = true ↔ le a b ∧ ¬ le b a
  eq_iff : ∀ a b, P.eq a b = true ↔ le a b ∧ le b a
  gt_iff : ∀ a b, P.gt a b = true ↔ le b a ∧ ¬ le a b
  ge_iff : ∀ a b, P.ge a b = true ↔ le b a
  ne_iff : ∀ a b, P.ne a b = true ↔ ¬ (le a b ∧ le b a)

/-- a comparison read in the preorder -/
def OrderSem {V} (le : V → V → Prop) : Cmp → V → V → Prop
  | .lt, a, b => le a b ∧ ¬ le b a
  | .le, a, b => le a b
  | .eq, a, b => le a b ∧ le b a
  | .gt, a, b => le b a ∧ ¬ le a b
  | .ge, a, b => le b a
  | .ne, a, b => ¬ (le a b ∧ le b a)

/-! ### helper lemmas that mention the vocabulary -/

theorem lemma_fold_lt (xs ys : List Int) (p q : Int) (hl : xs.length = ys.length)
    (hx : InRange xs) (hy : InRange ys) (hpq : p < q) :
    xs.foldl (fun a y => a * 1000 + y) p < ys.foldl (fun a y => a * 1000 + y) q := by
  induction xs generalizing ys p q with
  | nil => cases ys with
    | nil => simpa using hpq
    | cons _ _ => simp at hl
  | cons x t ih =>
    cases ys with
    | nil => simp at hl
    | cons y u =>
      simp only [List.foldl_cons]
      have h1 := hx x (by simp); have h2 := hy y (by simp)
      apply ih u _ _ (by simpa using hl) (fun c hc => hx c (by simp [hc])) (fun c hc => hy c (by simp [hc]))
      omega

theorem lemma_fold_order (xs ys : List Int) (p : Int) (hl : xs.length = ys.length)
    (hx : InRange xs) (hy : InRange ys) :
    (xs.foldl (fun a y => a * 1000 + y) p < ys.foldl (fun a y => a * 1000 + y) p ↔ tupleLt xs ys = true) ∧
    (xs.foldl (fun a y => a * 1000 + y) p = ys.foldl (fun a y => a * 1000 + y) p ↔ xs = ys) := by
  induction xs generalizing ys p with
  | nil => cases ys with
    | nil => simp [tupleLt]
    | cons _ _ => simp at hl
  | cons x t ih =>
    cases ys with
    | nil => simp at hl
    | cons y u =>
      have h1 := hx x (by simp); have h2 := hy y (by simp)
      have hl' : t.length = u.length := by simpa using hl
      have hx' : InRange t := fun c hc => hx c (by simp [hc])
      have hy' : InRange u := fun c hc => hy c (by simp [hc])
      simp only [List.foldl_cons, tupleLt]
      rcases Int.lt_trichotomy x y with hxy | hxy | hxy
      · have := lemma_fold_lt t u (p * 1000 + x) (p * 1000 + y) hl' hx' hy' (by omega)
        simp only [hxy, if_true, List.cons.injEq]
        constructor
        · simp [this]
        · constructor
          · intro e; omega
          · intro e; omega
      · subst hxy
        have := ih u (p * 1000 + x) hl' hx' hy'
        simp only [Int.lt_irrefl, if_false, List.cons.injEq, true_and]
        exact this
      · have := lemma_fold_lt u t (p * 1000 + y) (p * 1000 + x) hl'.symm hy' hx' (by omega)
        have hnot : ¬ x < y := by omega
        simp only [hnot, hxy, if_true, if_false, List.cons.injEq]
        constructor
        · constructor
          · intro e; omega
          · intro e; cases e
        · constructor
          · intro e; omega
          · intro e; omega


theorem lemma_reduce_fold (a : List Int) (x : Int) (h : reduce1000 a = some x) :
    x = a.foldl (fun p y => p * 1000 + y) 0 := by
  cases a with
  | nil => simp [reduce1000] at h
  | cons p t => simp only [reduce1000, Option.some.injEq] at h; simp [← h]

theorem lemma_stripSuffix_render (l : List Nat) : stripSuffix (render l) = render l := by
  have hch := lemma_render_chars l
  have hnl : (render l).getLast? ≠ some '\n' := by
    intro e
    rcases hch _ (List.mem_of_getLast? e) with h | h
    · simp [lemma_not_digit.2.1] at h
    · cases h
  have hcore := lemma_stripCore_digits_dots (render l) hch
  unfold stripSuffix
  rw [if_neg hnl, hcore]

/-- `convert_version_to_tuple` of a canonical dotted version is its component list -/
theorem version_tuple_canonical (l : List Nat) (hne : l ≠ []) (h : ∀ c ∈ l, c < 1000) :
    toTuple (render l) = .ok (l.map Int.ofNat) := by
  unfold toTuple
  rw [lemma_stripSuffix_render, render, lemma_split_render l hne, lemma_parseParts_canonical l h]

theorem lemma_toInt_render (l : List Nat) (hne : l ≠ []) (h : ∀ c ∈ l, c < 1000) :
    toInt (.str (render l)) = .ok (.int (valueNat l : Nat)) ∧
    toInt (.tuple (l.map Int.ofNat)) = .ok (.int (valueNat l : Nat)) := by
  simp only [toInt, version_tuple_canonical l hne h, tupleToInt, lemma_reduce_cast l hne, and_self]

/-! ### round trip -/

/-- **Round trip** — for every dotted version whose components lie in 0..999 (first non-zero),
    given as a string or as a tuple, `convert_version_to_str(convert_version_to_int(v))` is the
    dotted string again. -/
theorem version_str_int_roundtrip (l : List Nat) (h : Canonical l) :
    strOfInt (toInt (.str (render l))) = some (render l) ∧
    strOfInt (toInt (.tuple (l.map Int.ofNat))) = some (render l) := by
  obtain ⟨hne, hh, hall⟩ := h
  obtain ⟨h1, h2⟩ := lemma_toInt_render l hne hall
  have hneg : ¬ ((valueNat l : Nat) : Int) < 0 := by omega
  rw [h1, h2]
  simp only [strOfInt, toStrInt, hneg, if_false, Int.toNat_natCast, toStr,
    lemma_strLoop_value l hne hh hall, render, and_self]

theorem lemma_strLoop_parts (n : Nat) (acc : List (List Char)) :
    strLoop n acc = (parts1000 n).map natRepr ++ acc := by
  induction n using Nat.strongRecOn generalizing acc with
  | _ n ih =>
    rw [strLoop, parts1000]
    split
    · simp
    · have h3 : n - n / 1000 * 1000 = n % 1000 := by omega
      rw [ih (n / 1000) (by omega), h3]; simp

theorem lemma_parts_facts (n : Nat) :
    (∀ c ∈ parts1000 n, c < 1000) ∧ valueNat (parts1000 n) = n ∧ (0 < n → parts1000 n ≠ []) := by
  induction n using Nat.strongRecOn with
  | _ n ih =>
    rw [parts1000]
    split
    · rename_i h; subst h; simp [valueNat]
    · obtain ⟨i1, i2, _⟩ := ih (n / 1000) (by omega)
      refine ⟨?_, ?_, by simp⟩
      · intro c hc
        simp only [List.mem_append, List.mem_singleton] at hc
        rcases hc with hc | hc
        · exact i1 c hc
        · omega
      · simp only [valueNat, List.foldl_append, List.foldl_cons, List.foldl_nil] at i2 ⊢
        rw [i2]; omega

/-- **Round trip, converse** — every positive integer is recovered from its dotted string. -/
theorem version_int_str_roundtrip (n : Nat) (hn : 0 < n) :
    toInt (.str (toStr n)) = .ok (.int n) := by
  obtain ⟨h1, h2, h3⟩ := lemma_parts_facts n
  have : toStr n = render (parts1000 n) := by simp [toStr, render, lemma_strLoop_parts]
  rw [this, (lemma_toInt_render _ (h3 hn) h1).1, h2]

/-! ### order -/

/-- **Order** — for tuples of equal length with components in 0..999 the integers compare
    exactly as the tuples: `<` ⇔ lexicographic `<`, `=` ⇔ `=`. -/
theorem version_int_order (a b : List Int) (x y : Int) (hl : a.length = b.length)
    (ha : InRange a) (hb : InRange b)
    (hx : toInt (.tuple a) = .ok (.int x)) (hy : toInt (.tuple b) = .ok (.int y)) :
    (x < y ↔ tupleLt a b = true) ∧ (x = y ↔ a = b) := by
  have hx' : reduce1000 a = some x := by
    simp only [toInt, tupleToInt] at hx; split at hx <;> simp_all
  have hy' : reduce1000 b = some y := by
    simp only [toInt, tupleToInt] at hy; split at hy <;> simp_all
  rw [lemma_reduce_fold a x hx', lemma_reduce_fold b y hy']
  exact lemma_fold_order a b 0 hl ha hb

/-- the same through the dotted strings -/
theorem version_int_order_str (a b : List Nat) (hl : a.length = b.length) (hne : a ≠ [])
    (ha : ∀ c ∈ a, c < 1000) (hb : ∀ c ∈ b, c < 1000) :
    ∃ x y, toInt (.str (render a)) = .ok (.int x) ∧ toInt (.str (render b)) = .ok (.int y) ∧
      (x < y ↔ tupleLt (a.map Int.ofNat) (b.map Int.ofNat) = true) ∧ (x = y ↔ a = b) := by
  have hneb : b ≠ [] := by
    intro e; subst e; cases a with
    | nil => exact hne rfl
    | cons _ _ => simp at hl
  have h1 := lemma_toInt_render a hne ha
  have h2 := lemma_toInt_render b hneb hb
  have hr : ∀ l : List Nat, (∀ c ∈ l, c < 1000) → InRange (l.map Int.ofNat) := by
    intro l hl c hc
    simp only [List.mem_map] at hc
    obtain ⟨n, hn, rfl⟩ := hc
    have := hl n hn
    simp only [Int.ofNat_eq_natCast]; omega
  have := version_int_order (a.map Int.ofNat) (b.map Int.ofNat) _ _ (by simpa using hl) (hr a ha) (hr b hb) h1.2 h2.2
  refine ⟨_, _, h1.1, h2.1, this.1, ?_⟩
  rw [this.2]
  constructor
  · intro e
    have : ∀ (a b : List Nat), a.map Int.ofNat = b.map Int.ofNat → a = b := by
      intro a
      induction a with
      | nil => intro b h; cases b <;> simp_all
      | cons x t ih =>
        intro b h
        cases b with
        | nil => simp at h
        | cons y u =>
          simp only [List.map_cons, List.cons.injEq, Int.ofNat_eq_natCast, Int.natCast_inj] at h
          rw [h.1, ih u (by simpa using h.2)]
    exact this a b e
  · intro e; rw [e]

/-- the bound 999 is sharp: with a component 1000 two different tuples collide -/
theorem version_int_order_sharp :
    toInt (.tuple [1, 1000]) = toInt (.tuple [2, 0]) ∧ tupleLt [1, 1000] [2, 0] = true := by decide

/-! ### suffix -/

theorem lemma_last_of_append (s d : List Char) (hd : d ≠ []) : ∃ d' e, d = d' ++ [e] ∧ (s ++ d).getLast? = some e := by
  cases h : d.reverse with
  | nil => simp at h; exact absurd h hd
  | cons e t =>
    have : d = t.reverse ++ [e] := by
      have := congrArg List.reverse h; simpa using this
    exact ⟨t.reverse, e, this, by rw [this, ← List.append_assoc]; simp⟩

/-- **Suffix ignored** — after a digit, a marker `a|alpha|b|beta|rc` followed by digits (and
    possibly one final newline) is removed by the substitution, whatever precedes; so the
    tuple is that of the text without the suffix. -/
theorem version_suffix_ignored (s m d : List Char) (c : Char) (hs : s.getLast? = some c)
    (hc : isDigit c = true) (hm : m ∈ markers) (hd : d ≠ []) (hdd : ∀ x ∈ d, isDigit x = true) :
    stripSuffix (s ++ m ++ d) = s ∧ stripSuffix (s ++ m ++ d ++ ['\n']) = s ++ ['\n'] ∧
    toTuple (s ++ m ++ d) =
      (match parseParts (splitOn '.' s) with | some l => .ok l | none => .error .valueError) := by
  have hcore := lemma_stripCore_suffix s m d c hs hc hm hd hdd
  obtain ⟨d', e, hde, hlast⟩ := lemma_last_of_append (s ++ m) d hd
  have he : isDigit e = true := hdd e (by simp [hde])
  have hne : (s ++ m ++ d).getLast? ≠ some '\n' := by
    rw [hlast]; intro h; simp only [Option.some.injEq] at h; subst h
    simp [lemma_not_digit.2.1] at he
  have h1 : stripSuffix (s ++ m ++ d) = s := by
    unfold stripSuffix; rw [if_neg hne, hcore]
  refine ⟨h1, ?_, ?_⟩
  · unfold stripSuffix
    have : (s ++ m ++ d ++ ['\n']).getLast? = some '\n' := by simp
    rw [if_pos this, List.dropLast_concat, hcore]
  · simp only [toTuple, h1]; rfl

theorem lemma_join_last (Q : Char → Prop) (sep : Char) (parts : List (List Char)) (hne : parts ≠ [])
    (h : ∀ p ∈ parts, ∃ c, p.getLast? = some c ∧ Q c) : ∃ c, (join sep parts).getLast? = some c ∧ Q c := by
  induction parts with
  | nil => exact absurd rfl hne
  | cons p t ih =>
    cases t with
    | nil => simpa [join] using h p (by simp)
    | cons q rest =>
      obtain ⟨c, hc, hq⟩ := ih (by simp) (fun x hx => h x (by simp [hx]))
      obtain ⟨ys, hys⟩ := List.getLast?_eq_some_iff.mp hc
      refine ⟨c, ?_, hq⟩
      rw [show join sep (p :: q :: rest) = (p ++ sep :: ys) ++ [c] by simp [join, hys]]
      exact List.getLast?_eq_some_iff.mpr ⟨_, rfl⟩

/-- a rendering ends in a digit -/
theorem lemma_render_last (l : List Nat) (hne : l ≠ []) : ∃ c, (render l).getLast? = some c ∧ isDigit c = true := by
  apply lemma_join_last (fun c => isDigit c = true) '.' (l.map natRepr) (by simpa using hne)
  intro p hp
  simp only [List.mem_map] at hp
  obtain ⟨n, _, rfl⟩ := hp
  obtain ⟨d', e, hde, hl⟩ := lemma_last_of_append [] (natRepr n) (lemma_natRepr_ne_nil n)
  simp only [List.nil_append] at hl
  exact ⟨e, hl, lemma_natRepr_isDigit n e (List.mem_of_getLast? hl)⟩

/-- **Suffix ignored**, on canonical versions: `1.2.3rc1` converts like `1.2.3`. -/
theorem version_suffix_ignored_canonical (l : List Nat) (m d : List Char) (hne : l ≠ [])
    (hall : ∀ c ∈ l, c < 1000) (hm : m ∈ markers) (hd : d ≠ []) (hdd : ∀ x ∈ d, isDigit x = true) :
    toTuple (render l ++ m ++ d) = .ok (l.map Int.ofNat) ∧
    toInt (.str (render l ++ m ++ d)) = toInt (.str (render l)) := by
  obtain ⟨c, hlast, hc⟩ := lemma_render_last l hne
  have h := version_suffix_ignored (render l) m d c hlast hc hm hd hdd
  have ht : toTuple (render l ++ m ++ d) = .ok (l.map Int.ofNat) := by
    rw [h.2.2, render, lemma_split_render l hne, lemma_parseParts_canonical l hall]
  refine ⟨ht, ?_⟩
  simp only [toInt, ht, version_tuple_canonical l hne hall]

/-! ### non-numeric components -/

/-- **Non-numeric component** — if, after the suffix substitution, some dot-separated component
    contains a character that is not a decimal digit, not `int()` whitespace, not a sign and not
    an underscore (or the component is empty), both converters raise ValueError. -/
theorem version_nonnumeric_valueerror (s p : List Char) (hp : p ∈ splitOn '.' (stripSuffix s))
    (hbad : p = [] ∨ ∃ c ∈ p, isDigit c = false ∧ isIntSpace c = false ∧ c ≠ '+' ∧ c ≠ '-' ∧ c ≠ '_') :
    toTuple s = .error .valueError ∧ toInt (.str s) = .error .valueError := by
  have hnone : pyInt p = none := by
    rcases hbad with rfl | ⟨c, hc, h1, h2, h3, h4, h5⟩
    · exact lemma_pyInt_empty
    · exact lemma_pyInt_nonnumeric p c hc h1 h2 h3 h4 h5
  have : toTuple s = .error .valueError := by
    unfold toTuple; rw [lemma_parseParts_none _ p hp hnone]
  exact ⟨this, by simp [toInt, this]⟩

/-- `convert_version_to_tuple` succeeds exactly when `int()` accepts every component; its only
    failure is ValueError, and so is `convert_version_to_int`'s on a string. -/
theorem version_str_errors (s : List Char) :
    ((∃ l, toTuple s = .ok l) ↔ ∀ p ∈ splitOn '.' (stripSuffix s), pyInt p ≠ none) ∧
    (∀ e, toTuple s = .error e → e = .valueError) ∧
    (∀ e, toInt (.str s) = .error e → e = .valueError) := by
  refine ⟨⟨?_, ?_⟩, ?_, ?_⟩
  · rintro ⟨l, hl⟩
    unfold toTuple at hl
    split at hl
    · rename_i l' h'; exact lemma_parseParts_some _ l' h'
    · cases hl
  · intro h
    unfold toTuple
    cases hp : parseParts (splitOn '.' (stripSuffix s)) with
    | some l => exact ⟨l, rfl⟩
    | none =>
      exfalso
      have : ∀ ps : List (List Char), (∀ p ∈ ps, pyInt p ≠ none) → parseParts ps ≠ none := by
        intro ps
        induction ps with
        | nil => intro _; simp [parseParts]
        | cons q t ih =>
          intro hq
          simp only [parseParts]
          cases hv : pyInt q with
          | none => exact absurd hv (hq q (by simp))
          | some v =>
            have := ih (fun p hp => hq p (by simp [hp]))
            cases ht : parseParts t with
            | none => exact absurd ht this
            | some vs => simp
      exact this _ h hp
  · intro e he
    unfold toTuple at he
    split at he
    · cases he
    · simp only [Except.error.injEq] at he; exact he.symm
  · intro e he
    simp only [toInt] at he
    split at he
    · simp only [Except.error.injEq] at he; exact he.symm
    · rename_i l hl
      -- the tuple of a string is never empty, so `reduce` cannot fail
      unfold toTuple at hl
      split at hl
      · rename_i l' h'
        simp only [Except.ok.injEq] at hl; subst hl
        have hne := lemma_splitOn_ne_nil '.' (stripSuffix s)
        cases hsp : splitOn '.' (stripSuffix s) with
        | nil => exact absurd hsp hne
        | cons q t =>
          rw [hsp] at h'
          simp only [parseParts] at h'
          cases hv : pyInt q with
          | none => simp [hv] at h'
          | some v =>
            simp only [hv, Option.map_eq_some_iff] at h'
            obtain ⟨vs, _, rfl⟩ := h'
            simp [tupleToInt, reduce1000] at he
      · cases hl

theorem lemma_mem_splitOn (sep c : Char) (s : List Char) (hc : c ∈ s) (hne : c ≠ sep) :
    ∃ part ∈ splitOn sep s, c ∈ part := by
  induction s with
  | nil => cases hc
  | cons x t ih =>
    unfold splitOn
    by_cases hx : x = sep
    · simp only [hx, if_true]
      rcases List.mem_cons.mp hc with rfl | h
      · exact absurd hx hne
      · obtain ⟨part, hp, hcp⟩ := ih h
        exact ⟨part, by simp [hp], hcp⟩
    · simp only [hx, if_false]
      cases hsp : splitOn sep t with
      | nil => exact absurd hsp (lemma_splitOn_ne_nil sep t)
      | cons p ps =>
        rcases List.mem_cons.mp hc with rfl | h
        · exact ⟨c :: p, by simp, by simp⟩
        · obtain ⟨part, hp, hcp⟩ := ih h
          rw [hsp] at hp
          rcases List.mem_cons.mp hp with rfl | hp'
          · exact ⟨x :: part, by simp, by simp [hcp]⟩
          · exact ⟨part, by simp [hp'], hcp⟩

theorem lemma_marker_last (m : List Char) (hm : m ∈ markers) :
    ∃ m' c, m = m' ++ [c] ∧ (c = 'a' ∨ c = 'b' ∨ c = 'c') := by
  simp only [markers, List.mem_cons, List.mem_nil_iff, or_false] at hm
  rcases hm with rfl | rfl | rfl | rfl | rfl
  · exact ⟨[], 'a', rfl, by simp⟩
  · exact ⟨['a', 'l', 'p', 'h'], 'a', rfl, by simp⟩
  · exact ⟨[], 'b', rfl, by simp⟩
  · exact ⟨['b', 'e', 't'], 'a', rfl, by simp⟩
  · exact ⟨['r'], 'c', rfl, by simp⟩

theorem lemma_letters_nonnumeric : ∀ c, (c = 'a' ∨ c = 'b' ∨ c = 'c') →
    isDigit c = false ∧ isIntSpace c = false ∧ c ≠ '+' ∧ c ≠ '-' ∧ c ≠ '_' ∧ c ≠ '.' ∧ c ≠ '\n' := by
  intro c h; rcases h with rfl | rfl | rfl <;> decide

/-- **Bare marker** — a marker `a|alpha|b|beta|rc` with no number after it is not a suffix: a
    version text that ends in one (whatever precedes) is left alone by the substitution and both
    converters raise ValueError. -/
theorem version_bare_marker_valueerror (p m : List Char) (hm : m ∈ markers) :
    stripSuffix (p ++ m) = p ++ m ∧
    toTuple (p ++ m) = .error .valueError ∧ toInt (.str (p ++ m)) = .error .valueError := by
  obtain ⟨m', c, rfl, hc⟩ := lemma_marker_last m hm
  obtain ⟨h1, h2, h3, h4, h5, h6, h7⟩ := lemma_letters_nonnumeric c hc
  have hlast : (p ++ (m' ++ [c])).getLast? = some c := by
    rw [← List.append_assoc]; exact List.getLast?_eq_some_iff.mpr ⟨_, rfl⟩
  have hs : stripSuffix (p ++ (m' ++ [c])) = p ++ (m' ++ [c]) := by
    unfold stripSuffix
    have hnl : (p ++ (m' ++ [c])).getLast? ≠ some '\n' := by
      rw [hlast]; intro e; exact h7 (Option.some.inj e)
    rw [if_neg hnl]
    have : stripCore (p ++ (m' ++ [c])) = none := by
      unfold stripCore
      have hr : (p ++ (m' ++ [c])).reverse = c :: (m'.reverse ++ p.reverse) := by simp
      simp [hr, h1]
    rw [this]
  refine ⟨hs, ?_⟩
  obtain ⟨part, hpart, hcp⟩ := lemma_mem_splitOn '.' c (p ++ (m' ++ [c])) (by simp) h6
  exact version_nonnumeric_valueerror _ part (by rw [hs]; exact hpart) (Or.inr ⟨c, hcp, h1, h2, h3, h4, h5⟩)

example : toTuple ['1', '.', '3', 'r', 'c'] = .error .valueError ∧
    toTuple ['1', '0', '.', '0', '.', '3', 'b', 'e', 't', 'a'] = .error .valueError ∧
    toTuple ['1', '.', '3', 'r', 'c', '0'] = .ok [1, 3] := by decide


/-! ### is_compatible -/

/-- **Compatibility** — with both strings valid, `is_compatible` is `current >= requested`
    and, if `same_major`, equal major numbers; with an invalid string it raises InvalidVersion
    (a ValueError). -/
theorem compatible_iff {V} (P : Pep V) (req cur : List Char) (sm : Bool) :
    (∀ r c, P.parse req = some r → P.parse cur = some c →
      isCompatible P req cur sm = .ok (P.ge c r && (!sm || P.major r == P.major c))) ∧
    (P.parse req = none ∨ P.parse cur = none → isCompatible P req cur sm = .error .invalidVersion) := by
  constructor
  · intro r c hr hc
    cases sm <;> by_cases hmaj : P.major r = P.major c <;>
      simp [isCompatible, Pep.version, hr, hc, hmaj]
  · intro h
    cases hr : P.parse req <;> cases hc : P.parse cur <;>
      simp_all [isCompatible, Pep.version]

/-- the same read in the total preorder the operators derive from -/
theorem compatible_iff_order {V} (P : Pep V) (le : V → V → Prop) (hP : Lawful P le)
    (req cur : List Char) (sm : Bool) (r c : V) (hr : P.parse req = some r) (hc : P.parse cur = some c) :
    ∃ b, isCompatible P req cur sm = .ok b ∧
      (b = true ↔ le r c ∧ (sm = true → P.major r = P.major c)) := by
  refine ⟨_, (compatible_iff P req cur sm).1 r c hr hc, ?_⟩
  have := hP.ge_iff c r
  cases sm <;> simp [this]

/-! ### VersionPredicate -/

/-- **Operator table** (over the table generated from `_COMP_MAP`): every operator text the
    pattern can capture is present and maps to the operator it denotes. -/
theorem comp_map_faithful : ∀ op ∈ opAlternatives, lookupCmp op = opDenotes op ∧ (opDenotes op).isSome = true := by
  decide

/-- **Clause grammar** (over the probes generated from the running code through the public API):
    on every probed clause text the constructor succeeds exactly when the model's matcher reads the
    text as an operator followed by the bound `1.5`. -/
theorem predicate_probes_are_modelled :
    ∀ pa ∈ Gen.clauseProbes,
      pa.2 = (match matchPiece pa.1 with
              | some (_, ver) => decide (ver = ['1', '.', '5'])
              | none => false) := by
  decide +kernel

/-- **Predicate grammar** — the matcher accepts exactly the pieces of the grammar
    `ws* op ws* nonws+ ws*`, and what it returns is an operator of the alternation and a
    non-empty whitespace-free version text that decompose the piece. -/
theorem predicate_piece_grammar (p : List Char) :
    ((matchPiece p).isSome = true ↔ WellFormedPiece p) ∧
    (∀ op ver, matchPiece p = some (op, ver) →
      op ∈ opAlternatives ∧ ∃ r, p = p.takeWhile isReSpace ++ op ++ r ∧ RestShape r ver) := by
  have hsound : ∀ op ver, matchPiece p = some (op, ver) →
      op ∈ opAlternatives ∧ ∃ r, p = p.takeWhile isReSpace ++ op ++ r ∧ RestShape r ver := by
    intro op ver h
    obtain ⟨h1, r, h2, h3⟩ := lemma_firstAlt_sound _ _ _ _ h
    refine ⟨h1, r, ?_, lemma_shape_of_matchRest r ver h3⟩
    rw [List.append_assoc, ← h2, List.takeWhile_append_dropWhile]
  refine ⟨⟨?_, ?_⟩, hsound⟩
  · intro h
    obtain ⟨⟨op, ver⟩, hov⟩ := Option.isSome_iff_exists.mp h
    obtain ⟨h1, r, h2, h3⟩ := hsound op ver hov
    exact ⟨_, op, r, ver, h2, fun c hc => lemma_mem_takeWhile _ _ _ hc, h1, h3⟩
  · rintro ⟨pre, op, r, ver, rfl, hpre, hop, hshape⟩
    obtain ⟨c, t, rfl, hc⟩ := lemma_op_head op hop
    unfold matchPiece
    have : (pre ++ c :: t ++ r).dropWhile isReSpace = c :: t ++ r := by
      rw [List.append_assoc]; exact lemma_dropWhile_pre pre (t ++ r) c hpre hc
    rw [this]
    exact lemma_firstAlt_complete _ _ _ _ hop (lemma_matchRest_of_shape r ver hshape)

/-- **Predicate grammar, exactness** — a well-formed piece is read as the operator and version it
    was written with (the only ambiguity of the alternation, `<`/`>` directly followed by `=`,
    excluded). -/
theorem predicate_piece_exact (pre op r ver : List Char) (hpre : ∀ c ∈ pre, isReSpace c = true)
    (hop : op ∈ opAlternatives) (hshape : RestShape r ver) (hamb : r.head? ≠ some '=') :
    matchPiece (pre ++ op ++ r) = some (op, ver) := by
  have hm := lemma_matchRest_of_shape r ver hshape
  obtain ⟨c, t, hct, hc⟩ := lemma_op_head op hop
  have : (pre ++ op ++ r).dropWhile isReSpace = op ++ r := by
    rw [hct, List.append_assoc]; exact lemma_dropWhile_pre pre (t ++ r) c hpre hc
  unfold matchPiece
  rw [this]
  simp only [opAlternatives, List.mem_cons, List.mem_nil_iff, or_false] at hop
  rcases hop with rfl | rfl | rfl | rfl | rfl | rfl
  all_goals
    cases r with
    | nil => simp [matchRest] at hm
    | cons x r' =>
      have hx : ¬ '=' = x := by intro e; subst e; simp at hamb
      simp [firstAlt, opAlternatives, stripPrefix, hm, hx]

theorem lemma_parsePieces_iff {V} (P : Pep V) (ps : List (List Char)) (pred : List (List Char × V)) :
    parsePieces P ps = .ok pred ↔ PiecesParsed P ps pred := by
  induction ps generalizing pred with
  | nil => cases pred <;> simp [parsePieces, PiecesParsed]
  | cons p t ih =>
    cases pred with
    | nil =>
      simp only [parsePieces, PiecesParsed, iff_false]
      intro h
      split at h
      · cases h
      · split at h <;> cases h
    | cons cw rest =>
      obtain ⟨c, w⟩ := cw
      simp only [parsePieces, PiecesParsed, parsePiece, Pep.version]
      constructor
      · intro h
        cases hm : matchPiece p with
        | none => simp [hm] at h
        | some cv =>
          obtain ⟨c', ver⟩ := cv
          cases hv : P.parse ver with
          | none => simp [hm, hv] at h
          | some w' =>
            simp only [hm, hv] at h
            cases ht : parsePieces P t with
            | error e => simp [ht] at h
            | ok xs =>
              simp only [ht, Except.ok.injEq, List.cons.injEq, Prod.mk.injEq] at h
              obtain ⟨⟨rfl, rfl⟩, rfl⟩ := h
              exact ⟨⟨ver, rfl, hv⟩, (ih xs).mp ht⟩
      · rintro ⟨⟨ver, hm, hv⟩, hrest⟩
        simp [hm, hv, (ih rest).mpr hrest]

/-- **Predicate parse** — `VersionPredicate(s)` succeeds exactly when every comma-separated piece
    matches the pattern and carries a valid version; `self.pred` then holds one
    (operator, version) per piece, in order. -/
theorem predicate_parse_iff {V} (P : Pep V) (s : List Char) (pred : List (List Char × V)) :
    mkPredicate P s = .ok pred ↔ PiecesParsed P (splitOn ',' s) pred :=
  lemma_parsePieces_iff P _ pred

theorem lemma_parsed_conds {V} (P : Pep V) (ps : List (List Char)) (pred : List (List Char × V))
    (h : PiecesParsed P ps pred) : ∀ cw ∈ pred, cw.1 ∈ opAlternatives := by
  induction ps generalizing pred with
  | nil => cases pred <;> simp_all [PiecesParsed]
  | cons p t ih =>
    cases pred with
    | nil => simp [PiecesParsed] at h
    | cons cw rest =>
      obtain ⟨⟨ver, hm, _⟩, hrest⟩ := h
      intro x hx
      rcases List.mem_cons.mp hx with rfl | hx
      · exact (lemma_firstAlt_sound _ _ _ _ hm).1
      · exact ih rest hrest x hx

theorem lemma_satLoop {V} (P : Pep V) (v : V) (pred : List (List Char × V))
    (h : ∀ cw ∈ pred, cw.1 ∈ opAlternatives) :
    satLoop P v pred = .ok (pred.all (fun cw => holdsB P cw.1 v cw.2)) := by
  induction pred with
  | nil => rfl
  | cons cw rest ih =>
    obtain ⟨c, w⟩ := cw
    have hc := comp_map_faithful c (h (c, w) (by simp))
    obtain ⟨op, hop⟩ := Option.isSome_iff_exists.mp hc.2
    have ih' := ih (fun x hx => h x (by simp [hx]))
    simp only [satLoop, hc.1, hop, List.all_cons, holdsB, ih']
    cases P.cmp op v w <;> simp

/-- **Predicate** — for a predicate that parsed and a valid candidate, `satisfied_by` is the
    conjunction of all the comparisons `candidate <op> version`, each operator text meaning
    what it says. -/
theorem predicate_iff {V} (P : Pep V) (s vs : List Char) (pred : List (List Char × V)) (v : V)
    (hp : mkPredicate P s = .ok pred) (hv : P.parse vs = some v) :
    satisfiedBy P pred vs = .ok (pred.all (fun cw => holdsB P cw.1 v cw.2)) := by
  have h := lemma_parsed_conds P _ pred ((predicate_parse_iff P s pred).mp hp)
  simp [satisfiedBy, Pep.version, hv, lemma_satLoop P v pred h]

/-- the same read in the total preorder: true iff every comparison holds in the order -/
theorem predicate_iff_order {V} (P : Pep V) (le : V → V → Prop) (hP : Lawful P le)
    (s vs : List Char) (pred : List (List Char × V)) (v : V)
    (hp : mkPredicate P s = .ok pred) (hv : P.parse vs = some v) :
    ∃ b, satisfiedBy P pred vs = .ok b ∧
      (b = true ↔ ∀ cw ∈ pred, ∃ op, opDenotes cw.1 = some op ∧ OrderSem le op v cw.2) := by
  refine ⟨_, predicate_iff P s vs pred v hp hv, ?_⟩
  have hconds := lemma_parsed_conds P _ pred ((predicate_parse_iff P s pred).mp hp)
  rw [List.all_eq_true]
  constructor
  · intro h cw hcw
    have hb := h cw hcw
    obtain ⟨op, hop⟩ := Option.isSome_iff_exists.mp (comp_map_faithful cw.1 (hconds cw hcw)).2
    refine ⟨op, hop, ?_⟩
    simp only [holdsB, hop] at hb
    cases op <;> simp only [Pep.cmp, OrderSem] at hb ⊢
    · exact (hP.lt_iff _ _).mp hb
    · exact (hP.le_iff _ _).mp hb
    · exact (hP.eq_iff _ _).mp hb
    · exact (hP.gt_iff _ _).mp hb
    · exact (hP.ge_iff _ _).mp hb
    · exact (hP.ne_iff _ _).mp hb
  · intro h cw hcw
    obtain ⟨op, hop, hsem⟩ := h cw hcw
    simp only [holdsB, hop]
    cases op <;> simp only [Pep.cmp, OrderSem] at hsem ⊢
    · exact (hP.lt_iff _ _).mpr hsem
    · exact (hP.le_iff _ _).mpr hsem
    · exact (hP.eq_iff _ _).mpr hsem
    · exact (hP.gt_iff _ _).mpr hsem
    · exact (hP.ge_iff _ _).mpr hsem
    · exact (hP.ne_iff _ _).mpr hsem

theorem lemma_parsePiece_error {V} (P : Pep V) (p : List Char) (e : Err) (h : parsePiece P p = .error e) :
    e = .valueError ∨ e = .invalidVersion := by
  unfold parsePiece at h
  split at h
  · simp only [Except.error.injEq] at h; exact Or.inl h.symm
  · simp only [Pep.version] at h
    split at h
    · rename_i hh; split at hh
      · cases hh
      · simp only [Except.error.injEq] at hh h; subst hh; exact Or.inr h.symm
    · cases h

/-- **Malformed predicate** — if some comma-separated piece is outside the grammar, or is inside it
    but its version text is invalid, the constructor raises ValueError (the module's own, or
    InvalidVersion, a ValueError subclass); it never raises anything else; and an invalid
    candidate makes `satisfied_by` raise InvalidVersion. -/
theorem predicate_malformed_valueerror {V} (P : Pep V) (s : List Char) :
    ((∃ p ∈ splitOn ',' s, ¬ WellFormedPiece p ∨ ∀ c ver, matchPiece p = some (c, ver) → P.parse ver = none) →
      mkPredicate P s = .error .valueError ∨ mkPredicate P s = .error .invalidVersion) ∧
    (∀ e, mkPredicate P s = .error e → e = .valueError ∨ e = .invalidVersion) ∧
    (∀ pred vs, P.parse vs = none → satisfiedBy P pred vs = .error .invalidVersion) := by
  have hkinds : ∀ ps e, parsePieces P ps = .error e → e = .valueError ∨ e = .invalidVersion := by
    intro ps
    induction ps with
    | nil => intro e h; simp [parsePieces] at h
    | cons p t ih =>
      intro e h
      simp only [parsePieces] at h
      split at h
      · rename_i e' he'; simp only [Except.error.injEq] at h; subst h
        exact lemma_parsePiece_error P p _ he'
      · split at h
        · rename_i e' he'; simp only [Except.error.injEq] at h; subst h; exact ih _ he'
        · cases h
  refine ⟨?_, fun e h => hkinds _ e h, ?_⟩
  · rintro ⟨p, hp, hbad⟩
    cases hres : mkPredicate P s with
    | error e => rcases hkinds _ e hres with rfl | rfl <;> simp
    | ok pred =>
      exfalso
      have hparsed := (predicate_parse_iff P s pred).mp hres
      have : ∀ ps pred, PiecesParsed P ps pred → ∀ p ∈ ps, ∃ c ver w, matchPiece p = some (c, ver) ∧ P.parse ver = some w := by
        intro ps
        induction ps with
        | nil => intro _ _ q hq; cases hq
        | cons a t ih =>
          intro pred h q hq
          cases pred with
          | nil => simp [PiecesParsed] at h
          | cons cw rest =>
            obtain ⟨⟨ver, hm, hv⟩, hrest⟩ := h
            rcases List.mem_cons.mp hq with rfl | hq
            · exact ⟨_, ver, _, hm, hv⟩
            · exact ih rest hrest q hq
      obtain ⟨c, ver, w, hm, hv⟩ := this _ pred hparsed p hp
      rcases hbad with h | h
      · exact h ((predicate_piece_grammar p).1.mp (by simp [hm]))
      · rw [h c ver hm] at hv; cases hv
  · intro pred vs h
    simp [satisfiedBy, Pep.version, h]

/-- **History independence** — one predicate object asked any sequence of candidates (repeats,
    alternations, invalid candidates in between) answers each call exactly as a single call with
    that candidate would: the k-th answer depends on the k-th candidate only. -/
theorem predicate_history_independent {V} (P : Pep V) (pred : List (List Char × V))
    (vs : List (List Char)) :
    satRun P pred vs = vs.map (satisfiedBy P pred) ∧
    ∀ k : Nat, (satRun P pred vs)[k]? = (vs[k]?).map (satisfiedBy P pred) := by
  have h : satRun P pred vs = vs.map (satisfiedBy P pred) := by
    induction vs with
    | nil => rfl
    | cons v t ih => simp [satRun, ih]
  exact ⟨h, fun k => by rw [h, List.getElem?_map]⟩

/-! ### non-vacuity -/

example : Canonical [1, 0, 999] ∧ Canonical [999] ∧ ¬ Canonical [0, 1] ∧ ¬ Canonical [1, 1000] := by decide

example : toInt (.str ['1', '.', '0', '.', '9', '9', '9']) = .ok (.int 1000999) ∧
    toTuple ['1', '.', '0', '2', 'r', 'c', '1', '\n'] = .ok [1, 2] ∧
    toTuple ['1', '.', '2', 'r', 'c', '1', '\n', '\n'] = .error .valueError ∧
    toTuple ['1', '.', '.', '2'] = .error .valueError ∧
    toTuple ['1', 'a', '2', 'b', '3'] = .error .valueError ∧
    toInt (.tuple []) = .error .typeError ∧ toInt .other = .ok .noneVal := by decide

example : render [1, 0, 999] = ['1', '.', '0', '.', '9', '9', '9'] ∧
    toStrInt 1000999 = some ['1', '.', '0', '.', '9', '9', '9'] ∧ toStrInt (-1) = none := by
  simp [render, natRepr, join, digitChar, toStrInt, toStr, strLoop]

example : InRange [1, 999] ∧ InRange [2, 0] ∧ tupleLt [1, 999] [2, 0] = true ∧
    toInt (.tuple [1, 999]) = .ok (.int 1999) ∧ toInt (.tuple [2, 0]) = .ok (.int 2000) := by decide

example : ['r', 'c'] ∈ markers ∧ isDigit '2' = true ∧ isDigit '٣' = true := by decide

example : ['x'] ∈ splitOn '.' (stripSuffix ['1', '.', 'x']) ∧ isDigit 'x' = false ∧ isIntSpace 'x' = false := by decide

/-- a concrete lawful instance: versions are their rank, as on the wire -/
def natPep (dict : List Char → Option Nat) : Pep Nat where
  parse := dict
  major v := v
  lt a b := a < b
  le a b := a ≤ b
  eq a b := a == b
  gt a b := a > b
  ge a b := a ≥ b
  ne a b := a != b

example (dict : List Char → Option Nat) : Lawful (natPep dict) (· ≤ ·) := by
  constructor <;> intros <;>
    (try simp only [natPep, decide_eq_true_eq, beq_iff_eq, bne_iff_ne, ne_eq]) <;> omega

example : WellFormedPiece [' ', '>', '=', ' ', '1', '.', '0', ' '] :=
  (predicate_piece_grammar _).1.mp (by decide)

example : matchPiece ['<', '='] = some (['<'], ['=']) ∧ matchPiece ['<', '=', '1', ' ', '2'] = none ∧
    ¬ WellFormedPiece ['1', '.', '0'] := by
  refine ⟨by decide, by decide, ?_⟩
  intro h
  have := (predicate_piece_grammar _).1.mpr h
  revert this; decide

example :
    let P := natPep (fun s => if s = ['1'] then some 1 else if s = ['2'] then some 2 else if s = ['3'] then some 3 else none)
    (∃ pred, mkPredicate P ['>', '=', '1', ',', ' ', '<', '3'] = .ok pred ∧
      satisfiedBy P pred ['2'] = .ok true ∧ satisfiedBy P pred ['3'] = .ok false) ∧
    mkPredicate P ['>', '=', '1', ','] = .error .valueError ∧
    mkPredicate P ['>', '=', '9'] = .error .invalidVersion ∧
    isCompatible P ['1'] ['2'] false = .ok true ∧ isCompatible P ['1'] ['2'] true = .ok false ∧
    isCompatible P ['2'] ['2'] true = .ok true ∧ isCompatible P ['3'] ['2'] false = .ok false := by
  refine ⟨⟨[(['>', '='], 1), (['<'], 3)], by decide, by decide, by decide⟩, by decide, by decide, by decide, by decide, by decide, by decide⟩

end Oslo.Version
