/-
Model of oslo_utils.timeutils.StopWatch (timeutils.py:329-482).

The clock (`timeutils.now`) is a parameter `clock : Nat → Int`: the i-th call
of `now()` made through this watch returns `clock i`; the watch counts its
reads in `reads`.  Clock values are integers (the correspondence scripts an
integer clock, exact in binary64).  Every method is one `Op`; `step` returns the
new watch and what the call returned or raised.
-/
namespace Oslo.StopWatch

inductive St | fresh | started | stopped
  deriving DecidableEq, Repr

structure Split where
  elapsed : Int
  length : Int
  deriving DecidableEq, Repr

structure Watch where
  duration : Option Int
  startedAt : Option Int
  stoppedAt : Option Int
  state : St
  splits : List Split        -- oldest first, as in the tuple
  reads : Nat
  deriving DecidableEq, Repr

inductive Op
  | start | stop | resume | restart | split
  | elapsed (maximum : Option Int)
  | leftover (returnNone : Bool)
  | expired | hasStarted | hasStopped | splits
  | enter | exit
  deriving DecidableEq, Repr

inductive Out
  | self                     -- the method returned the watch itself
  | num (v : Int)
  | noneVal
  | bool (b : Bool)
  | split (s : Split)
  | splits (l : List Split)
  | runtimeError
  | typeError                -- arithmetic on None: unreachable, see `reachable_no_typeError`
  deriving DecidableEq, Repr

def init (d : Option Int) : Watch := ⟨d, none, none, .fresh, [], 0⟩

/-- `_delta_seconds` -/
def delta (earlier later : Int) : Int := max 0 (later - earlier)

/-- `start()` body (lines 359-369) -/
def doStart (c : Nat → Int) (w : Watch) : Watch :=
  if w.state = .started then w
  else { w with startedAt := some (c w.reads), stoppedAt := none,
                state := .started, splits := [], reads := w.reads + 1 }

/-- `stop()` body (lines 472-482); `false` = RuntimeError -/
def doStop (c : Nat → Int) (w : Watch) : Watch × Bool :=
  match w.state with
  | .stopped => (w, true)
  | .started => ({ w with stoppedAt := some (c w.reads), state := .stopped,
                          reads := w.reads + 1 }, true)
  | .fresh => (w, false)

/-- result of `elapsed(maximum)` (lines 405-415): value or error, and the watch
    (only `reads` can change) -/
def doElapsed (c : Nat → Int) (w : Watch) (maximum : Option Int) : Watch × Out :=
  let clamp (e : Int) : Int :=
    match maximum with
    | some m => if e > m then max 0 m else e
    | none => e
  match w.state with
  | .fresh => (w, .runtimeError)
  | .stopped =>
    match w.startedAt, w.stoppedAt with
    | some s, some e => (w, .num (clamp (delta s e)))
    | _, _ => (w, .typeError)
  | .started =>
    match w.startedAt with
    | some s => ({ w with reads := w.reads + 1 }, .num (clamp (delta s (c w.reads))))
    | none => ({ w with reads := w.reads + 1 }, .typeError)

def step (c : Nat → Int) (w : Watch) : Op → Watch × Out
  | .start => (doStart c w, .self)
  | .enter => (doStart c w, .self)
  | .stop =>
    let (w', ok) := doStop c w
    (w', if ok then .self else .runtimeError)
  | .exit => ((doStop c w).1, .noneVal)          -- RuntimeError swallowed
  | .resume =>
    if w.state = .stopped then ({ w with state := .started }, .self)
    else (w, .runtimeError)
  | .restart =>
    let w1 := if w.state = .started then (doStop c w).1 else w
    (doStart c w1, .self)
  | .split =>
    if w.state = .started then
      match doElapsed c w none with
      | (w1, .num e) =>
        let len := match w.splits.getLast? with
          | some last => delta last.elapsed e
          | none => e
        let sp : Split := ⟨e, len⟩
        ({ w1 with splits := w1.splits ++ [sp] }, .split sp)
      | (w1, o) => (w1, o)
    else (w, .runtimeError)
  | .elapsed m => doElapsed c w m
  | .leftover rn =>
    if w.state ≠ .started then (w, .runtimeError)
    else match w.duration with
      | none => (w, if rn then .noneVal else .runtimeError)
      | some d =>
        match doElapsed c w none with
        | (w1, .num e) => (w1, .num (max 0 (d - e)))
        | (w1, o) => (w1, o)
  | .expired =>
    if w.state = .fresh then (w, .runtimeError)
    else match w.duration with
      | none => (w, .bool false)
      | some d =>
        match doElapsed c w none with
        | (w1, .num e) => (w1, .bool (e > d))
        | (w1, o) => (w1, o)
  | .hasStarted => (w, .bool (w.state = .started))
  | .hasStopped => (w, .bool (w.state = .stopped))
  | .splits => (w, .splits w.splits)

/-- run a call sequence, collecting the outputs -/
def run (c : Nat → Int) (w : Watch) : List Op → Watch × List Out
  | [] => (w, [])
  | op :: ops =>
    let (w1, o) := step c w op
    let (w2, os) := run c w1 ops
    (w2, o :: os)

/-- final state only -/
def exec (c : Nat → Int) (w : Watch) (ops : List Op) : Watch :=
  ops.foldl (fun w op => (step c w op).1) w

end Oslo.StopWatch
