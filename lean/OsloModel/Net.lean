/-
Model of the address / number validators of oslo_utils.netutils
(netutils.py:87-192, 295-372) together with my own total parsers for what the
libraries underneath accept:

* netaddr 1.3.0 `strategy/ipv4.py: str_to_int` (INET_PTON and INET_ATON paths),
  `strategy/ipv6.py: valid_str / str_to_int`, `ip/__init__.py: IPAddress.__init__`,
  `parse_ip_network`, `IPNetwork.__init__`, `is_netmask`, `is_hostmask`;
* glibc 2.36 `inet_pton4`, `inet_pton6` (resolv/inet_pton.c) and `inet_aton`
  (resolv/inet_addr.c, with `strtoul(…, 0)`), reached through CPython's
  `socket.inet_pton / inet_aton` (argument converted with "s": a NUL character
  raises ValueError before the C function is called);
* CPython `int(str)` (Objects/longobject.c `PyLong_FromUnicodeObject`,
  `PyLong_FromString`, base 10): white space, sign, digits with single
  underscores, Unicode decimal digits, the 4300-digit limit.

Text is `List Char` (Unicode scalar values; Python's lone surrogates are
outside the domain).  Every function is total by structural recursion; an
exception of the implementation is an explicit error value (`NetErr`), never a
default.
-/
import OsloModel.Generated.C11
namespace Oslo.Net

/-! ### characters -/

def isDigit (c : Char) : Bool := 48 ≤ c.toNat && c.toNat ≤ 57
def isOct (c : Char) : Bool := 48 ≤ c.toNat && c.toNat ≤ 55
def isHex (c : Char) : Bool :=
  isDigit c || (97 ≤ c.toNat && c.toNat ≤ 102) || (65 ≤ c.toNat && c.toNat ≤ 70)
def digitVal (c : Char) : Nat := c.toNat - 48
def hexVal (c : Char) : Nat :=
  if isDigit c then c.toNat - 48 else if 97 ≤ c.toNat then c.toNat - 87 else c.toNat - 55
def nul : Char := Char.ofNat 0
/-- C `isascii(c) && isspace(c)` -/
def isCSpace (c : Char) : Bool := (9 ≤ c.toNat && c.toNat ≤ 13) || c.toNat = 32

/-! ### str.split / rsplit -/

def consHead (c : Char) : List (List Char) → List (List Char)
  | [] => [[c]]
  | t :: ts => (c :: t) :: ts

/-- `s.split(sep)` for a one-character separator (`''.split(sep) == ['']`) -/
def splitOn (sep : Char) : List Char → List (List Char)
  | [] => [[]]
  | c :: cs => if c = sep then [] :: splitOn sep cs else consHead c (splitOn sep cs)

/-- `s.split(sep, 1)`: text before the first `sep`, and the text after it if there is one -/
def splitFirst (sep : Char) : List Char → List Char × Option (List Char)
  | [] => ([], none)
  | c :: cs =>
    if c = sep then ([], some cs)
    else ((c :: (splitFirst sep cs).1), (splitFirst sep cs).2)

/-- `s.rsplit(sep, 1)`: text before the last `sep`, and the text after it if there is one -/
def rsplitLast (sep : Char) : List Char → List Char × Option (List Char)
  | [] => ([], none)
  | c :: cs =>
    match (rsplitLast sep cs).2 with
    | some sc => (c :: (rsplitLast sep cs).1, some sc)
    | none => if c = sep then ([], some cs) else (c :: (rsplitLast sep cs).1, none)

/-! ### IPv4, presentation format (netaddr INET_PTON + glibc inet_pton4) -/

def decVal (t : List Char) : Nat := t.foldl (fun a c => a * 10 + digitVal c) 0

/-- netaddr ipv4.py:128 `len(p) > 1 and p.startswith('0')` -/
def leadingZero (t : List Char) : Bool :=
  match t with
  | c :: _ :: _ => c = '0'
  | _ => false

/-- one part for glibc `inet_pton4`: at least one ASCII digit, no leading zero
    (`saw_digit && *tp == 0`), value at most 255 -/
def octetTok (t : List Char) : Bool :=
  !t.isEmpty && t.all isDigit && !leadingZero t && decide (decVal t ≤ 255)

/-- glibc `inet_pton4`: the four octets -/
def pton4 (s : List Char) : Option (List Nat) :=
  let ts := splitOn '.' s
  if ts.length = 4 ∧ ts.all octetTok = true then some (ts.map decVal) else none

inductive NetErr
  | addrFormat     -- netaddr.AddrFormatError
  | valueError     -- ValueError (NUL character in a socket call, '/' handed to IPAddress)
  deriving DecidableEq, Repr

def quadValue : List Nat → Nat
  | [a, b, c, d] => ((a * 256 + b) * 256 + c) * 256 + d
  | _ => 0

/-- netaddr `ipv4.str_to_int(addr, INET_PTON)` (ipv4.py:113-138) -/
def strToInt4 (s : List Char) : Except NetErr Nat :=
  if s.contains ':' then .error .addrFormat
  else if (splitOn '.' s).any leadingZero then .error .addrFormat
  else if s.contains nul then .error .valueError          -- socket.inet_pton argument
  else match pton4 s with
    | some q => .ok (quadValue q)
    | none => .error .addrFormat

def isOk {ε α} : Except ε α → Bool
  | .ok _ => true
  | .error _ => false

/-- netutils.is_valid_ipv4(address, strict=True)  (netutils.py:87-112) -/
def isValidIPv4 (s : List Char) : Bool :=
  if s.isEmpty then false else isOk (strToInt4 s)

/-! ### IPv4, inet_aton (netaddr INET_ATON path, used by is_valid_ip) -/

/-- longest prefix of digits of one base, accumulated -/
def spanVal (p : Char → Bool) (base : Nat) (dv : Char → Nat) : Nat → List Char → Nat × List Char
  | acc, [] => (acc, [])
  | acc, c :: cs => if p c then spanVal p base dv (acc * base + dv c) cs else (acc, c :: cs)

/-- `strtoul(cp, &endp, 0)` on text that starts with a digit: value and the unread rest.
    `0x` not followed by a hex digit reads as the numeral `0` with `x…` unread. -/
def strtoul0 (s : List Char) : Nat × List Char :=
  match s with
  | c :: rest =>
    if c = '0' then
      match rest with
      | x :: h :: _ =>
        if (x = 'x' || x = 'X') && isHex h then spanVal isHex 16 hexVal 0 (rest.drop 1)
        else spanVal isOct 8 digitVal 0 rest
      | _ => spanVal isOct 8 digitVal 0 rest
    else spanVal isDigit 10 digitVal 0 s
  | [] => (0, [])

/-- limit of the last part when `rem` further dots would still be allowed -/
def atonMax : Nat → Nat
  | 0 => 0xff
  | 1 => 0xffff
  | 2 => 0xffffff
  | _ => 0xffffffff

/-- glibc `inet_aton` main loop; `rem` = number of dots still allowed (3 at the start) -/
def atonGo : Nat → List Char → Bool
  | rem, s =>
    match s with
    | [] => false
    | c :: _ =>
      if !isDigit c then false
      else
        let r := strtoul0 s
        if r.1 > 0xffffffff then false
        else match r.2 with
          | [] => decide (r.1 ≤ atonMax rem)
          | c' :: rest' =>
            if c' = '.' then
              match rem with
              | 0 => false
              | rem' + 1 => if r.1 > 0xff then false else atonGo rem' rest'
            else isCSpace c' && decide (r.1 ≤ atonMax rem)

/-- netutils.is_valid_ipv4(address, strict=False): netaddr `str_to_int` with INET_ATON -/
def isValidIPv4Aton (s : List Char) : Bool :=
  if s.isEmpty then false
  else if s.contains ':' then false
  else if s.contains nul then false          -- ValueError from socket.inet_aton, caught
  else atonGo 3 s

/-! ### IPv6 (glibc inet_pton6) -/

structure P6 where
  done : List Nat          -- 16-bit groups stored so far (tp = 2 * done.length)
  colon : Option Nat       -- colonp: number of groups stored when `::` was seen
  xd : Nat                 -- xdigits_seen
  val : Nat
  tok : List Char          -- text of the current token (curtok up to src)
  deriving Repr

/-- tail of `inet_pton6`: expand `::`, require exactly 8 groups -/
def finish6 (done : List Nat) (colon : Option Nat) : Option (List Nat) :=
  match colon with
  | none => if done.length = 8 then some done else none
  | some k =>
    if done.length ≥ 8 then none
    else some (done.take k ++ List.replicate (8 - done.length) 0 ++ done.drop k)

/-- main loop of `inet_pton6`.  (`val > 0xffff` cannot happen: at most 4 hex digits.) -/
def go6 (st : P6) : List Char → Option (List Nat)
  | [] =>
    if st.xd > 0 then
      if st.done.length + 1 > 8 then none else finish6 (st.done ++ [st.val]) st.colon
    else finish6 st.done st.colon
  | c :: rest =>
    if isHex c then
      if st.xd = 4 then none
      else go6 { st with xd := st.xd + 1, val := st.val * 16 + hexVal c, tok := st.tok ++ [c] } rest
    else if c = ':' then
      if st.xd = 0 then
        if st.colon.isSome then none
        else go6 { st with colon := some st.done.length, tok := [] } rest
      else if rest.isEmpty then none
      else if st.done.length + 1 > 8 then none
      else go6 { done := st.done ++ [st.val], colon := st.colon, xd := 0, val := 0, tok := [] } rest
    else if c = '.' then
      if st.done.length + 2 ≤ 8 then
        match pton4 (st.tok ++ '.' :: rest) with
        | some [a, b, c, d] => finish6 (st.done ++ [a * 256 + b, c * 256 + d]) st.colon
        | _ => none
      else none
    else none

def init6 : P6 := ⟨[], none, 0, 0, []⟩

/-- glibc `inet_pton(AF_INET6, s)`: the eight groups -/
def pton6 (s : List Char) : Option (List Nat) :=
  match s with
  | [] => none
  | c :: rest =>
    if c = ':' then
      match rest with
      | c2 :: _ => if c2 = ':' then go6 init6 rest else none
      | [] => none
    else go6 init6 s

def groupsValue (g : List Nat) : Nat := g.foldl (fun a x => a * 65536 + x) 0

/-- netaddr `ipv6.str_to_int` / `valid_str` through socket.inet_pton -/
def strToInt6 (s : List Char) : Except NetErr Nat :=
  if s.contains nul then .error .valueError
  else match pton6 s with
    | some g => .ok (groupsValue g)
    | none => .error .addrFormat

/-- netutils.is_valid_ipv6 (netutils.py:115-135) -/
def isValidIPv6 (s : List Char) : Bool :=
  if s.isEmpty then false
  else
    let p := rsplitLast '%' s
    match p.2 with
    | some scope =>
      if scope.length < 1 || scope.length > 15 then false else isOk (strToInt6 p.1)
    | none => isOk (strToInt6 p.1)

/-- netutils.is_valid_ip (netutils.py:295-304) -/
def isValidIP (s : List Char) : Bool := isValidIPv4Aton s || isValidIPv6 s

/-! ### int(str) -/

/-- characters `int()` skips around the literal: C `isspace` for ASCII, and the
    non-ASCII `str.isspace` characters (table read from the interpreter) -/
def isIntSpace (c : Char) : Bool :=
  if c.toNat < 128 then isCSpace c else Gen.intSpacesNonAscii.contains c.toNat

/-- value of a decimal digit character (ASCII, or a Unicode `Nd` run of ten from the table) -/
def decDigit (c : Char) : Option Nat :=
  if isDigit c then some (c.toNat - 48)
  else if c.toNat < 128 then none
  else match Gen.decZerosNonAscii.find? (fun z => z ≤ c.toNat && c.toNat < z + 10) with
    | some z => some (c.toNat - z)
    | none => none

/-- digits after the first one: `(value, number of digits, unread rest)`;
    an underscore must stand between two digits -/
def intBody : Nat → Nat → List Char → Option (Nat × Nat × List Char)
  | acc, n, [] => some (acc, n, [])
  | acc, n, c :: cs =>
    if c = '_' then
      match cs with
      | [] => none
      | c2 :: cs2 =>
        match decDigit c2 with
        | some d => intBody (acc * 10 + d) (n + 1) cs2
        | none => none
    else
      match decDigit c with
      | some d => intBody (acc * 10 + d) (n + 1) cs
      | none => some (acc, n, c :: cs)

/-- optional sign -/
def intSign (s : List Char) : Bool × List Char :=
  match s with
  | c :: r => if c = '-' then (true, r) else if c = '+' then (false, r) else (false, s)
  | [] => (false, [])

/-- Python `int(s)` for a str, base 10; `none` = ValueError -/
def pyInt (s : List Char) : Option Int :=
  let sg := intSign (s.dropWhile isIntSpace)
  match sg.2 with
  | [] => none
  | c :: cs =>
    match decDigit c with
    | none => none
    | some d =>
      match intBody d 1 cs with
      | none => none
      | some (v, n, rest) =>
        if !(rest.dropWhile isIntSpace).isEmpty then none
        else if Gen.maxStrDigits > 0 && n > Gen.maxStrDigits then none
        else some (if sg.1 then - (v : Int) else (v : Int))

/-! ### netaddr.IPNetwork -/

inductive Ver | v4 | v6
  deriving DecidableEq, Repr

def width : Ver → Nat
  | .v4 => 32
  | .v6 => 128

/-- `IPAddress(text, version, flags=INET_PTON)` (ip/__init__.py:312-350): the value -/
def ipAddress (v : Ver) (s : List Char) : Except NetErr Nat :=
  if s.contains '/' then .error .valueError
  else match v with
    | .v4 => strToInt4 s
    | .v6 => strToInt6 s

/-- `x & (x - 1) == 0` -/
def pow2Trick (x : Nat) : Bool := x &&& (x - 1) == 0

/-- `IPAddress.is_netmask` -/
def isNetmask (v : Ver) (value : Nat) : Bool := pow2Trick ((value ^^^ (2 ^ width v - 1)) + 1)
/-- `IPAddress.is_hostmask` -/
def isHostmask (value : Nat) : Bool := pow2Trick (value + 1)

/-- the part after the first '/' in `parse_ip_network` (ip/__init__.py:905-923) -/
def prefixOK (v : Ver) (p : List Char) : Except NetErr Unit :=
  match pyInt p with
  | some n => if 0 ≤ n ∧ n ≤ (width v : Int) then .ok () else .error .addrFormat
  | none =>
    match ipAddress v p with
    | .error e => .error e
    | .ok m => if isNetmask v m || isHostmask m then .ok () else .error .addrFormat

/-- `parse_ip_network(module, addr)` for a str (ip/__init__.py:890-923) -/
def parseNetwork (v : Ver) (s : List Char) : Except NetErr Unit :=
  let sp := splitFirst '/' s
  match ipAddress v sp.1 with
  | .error e => .error e
  | .ok _ =>
    match sp.2 with
    | none => .ok ()
    | some p => prefixOK v p

/-- `IPNetwork(addr)` with no version: IPv4 first, IPv6 on AddrFormatError only
    (a ValueError leaves immediately) (ip/__init__.py:1031-1046) -/
def ipNetwork (s : List Char) : Except NetErr Unit :=
  match parseNetwork .v4 s with
  | .ok u => .ok u
  | .error .valueError => .error .valueError
  | .error .addrFormat => parseNetwork .v6 s

/-- netutils.is_valid_cidr (netutils.py:153-176) -/
def isValidCidr (s : List Char) : Bool :=
  match ipNetwork s with
  | .error _ => false
  | .ok _ =>
    match splitOn '/' s with
    | _ :: seg1 :: _ => !seg1.isEmpty
    | _ => false

/-- netutils.is_valid_ipv6_cidr (netutils.py:179-192) -/
def isValidIPv6Cidr (s : List Char) : Bool := isOk (parseNetwork .v6 s)

/-! ### MAC  (netutils.py:307-319, regex `[0-9a-f]{2}(:[0-9a-f]{2}){5}\Z` on `address.lower()`) -/

/-- two hex digits, then `n` times (':' and two hex digits), then the end.
    `str.lower` maps exactly `A-F` onto `a-f` among all characters (checked by the translator). -/
def macGo : Nat → List Char → Bool
  | 0, s => (match s with | [a, b] => isHex a && isHex b | _ => false)
  | n + 1, s =>
    (match s with
     | a :: b :: c :: rest => isHex a && isHex b && c = ':' && macGo n rest
     | _ => false)

def isValidMac (s : List Char) : Bool := macGo 5 s

/-! ### ports and ICMP numbers (netutils.py:322-372) -/

inductive PyVal
  | str (s : List Char)
  | int (n : Int)
  | none

/-- `int(value)`; `none` = ValueError / TypeError (caught by `_is_int_in_range`) -/
def toInt : PyVal → Option Int
  | .str s => pyInt s
  | .int n => some n
  | .none => Option.none

def isIntInRange (v : PyVal) (lo hi : Int) : Bool :=
  match toInt v with
  | Option.none => false
  | some n => decide (lo ≤ n) && decide (n ≤ hi)

def isValidPort (v : PyVal) : Bool := isIntInRange v 0 65535
def isValidIcmpType (v : PyVal) : Bool := isIntInRange v 0 255
def isValidIcmpCode (v : PyVal) : Bool :=
  match v with
  | .none => true
  | _ => isIntInRange v 0 255

end Oslo.Net
