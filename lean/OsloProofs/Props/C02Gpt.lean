/-
C02 — MBR/GPT acceptance, byte-level iff (for every stream and chunking).
-/
import OsloProofs.Lemmas.GptCheck
namespace Oslo.Insp

/-- the i-th MBR partition entry (total; the zero entry when the sector is too short) -/
def pteOf (d : Bytes) (j : Nat) : Pte :=
  match gptPte d j with
  | .ok p => p
  | .error _ => ⟨0, 0, 0, 0, 0, 0⟩

/-- the MBR/GPT acceptance condition on `d = stream[0:512]` -/
def GptSafe (d : Bytes) : Prop :=
  d.length = 512 ∧ leNat (slice d 510 512) = 0xAA55 ∧
  ¬ (d[0x10]? = some 2 ∧ d[0x15]? = some 0xF8) ∧
  (List.range' 0 4).all (fun j => pteOkB (pteOf d j)) = true ∧
  ¬ ((List.range' 0 4).any (fun j => (pteOf d j).ostype == 0xEE) = true ∧
     (List.range' 0 4).filter (fun j => (pteOf d j).ostype != 0) ≠ [0]) ∧
  (List.range' 0 4).filter (fun j => (pteOf d j).ostype != 0) ≠ []

theorem lemma_gptPte_ok (d : Bytes) (hl : d.length = 512) (j : Nat) (hj : j < 4) :
    gptPte d j = .ok (pteOf d j) := by
  have : (slice d (Gen.gptPteStart + 16 * j) (Gen.gptPteStart + 16 * j + 16)).length = 16 := by
    simp only [slice, Gen.gptPteStart, List.length_drop, List.length_take, hl]; omega
  simp only [pteOf, gptPte, this, ne_eq, not_true_eq_false, if_false]

/-- **gpt_accept_iff** — for every stream and chunking the MBR/GPT safety check returns normally iff
    the first 512 bytes are present, carry the 0xAA55 signature and do not look like a FAT boot
    sector, every one of the four partition entries has boot flag 0x00 or 0x80, a protective (0xEE)
    entry has CHS (0,2,0) and LBA 1, a protective entry is alone in slot 0, and at least one entry is
    non-empty -/
theorem gpt_accept_iff (s0 : Insp) (h0 : Insp.init .gpt = some s0) (chunks : List Bytes) :
    safetyCheck (runChunks s0 chunks).1 = .ok ↔ GptSafe (sliceOf chunks.flatten 0 512) := by
  rw [run_plain_eq_spec .gpt rfl s0 h0, safety_ok_iff]
  unfold Insp.init at h0
  split at h0
  · simp at h0
  · simp only [Option.some.injEq] at h0
    subst h0
    simp only [Fmt.initRegions, Gen.gpt_regions, specRegions]
    generalize sliceOf chunks.flatten 0 512 = d
    simp only [Fmt.initChecks, Gen.gpt_checks, List.mem_singleton, forall_eq, Insp.complete, List.all_cons,
      List.all_nil, Bool.and_true, Region.complete, Bool.false_eq_true, if_false, decide_eq_true_eq, GptSafe]
    by_cases hl : d.length = 512
    · have hloop := lemma_gptLoop d (pteOf d) 4 0 [] false (fun j _ hj => lemma_gptPte_ok d hl j (by omega))
      simp only [List.nil_append, Bool.false_or] at hloop
      obtain ⟨nf, hnf⟩ : ∃ b, d[0x10]? = some b := ⟨d[16]'(by omega), by simp⟩
      obtain ⟨md, hmd⟩ : ∃ b, d[0x15]? = some b := ⟨d[21]'(by omega), by simp⟩
      have hsl : (slice d 510 512).length = 2 := by simp [slice, hl]
      have hfm : formatMatch
          { fmt := Fmt.gpt, total := chunks.flatten.length,
            regions := [("mbr", { rid := 0, offset := 0, length := 512, minLength := none, data := d,
                                  isEnd := false, endDone := false })],
            nextRid := [("mbr", 0, 512, (none : Option Nat), false)].length, finished := true,
            checks := ["mbr"], qcowInfo := none, descText := none, vmdkType := formatNotFound } =
          .ok (leNat (slice d 510 512) == Gen.gptMbrSignature &&
               !(nf.toNat == 2 && md.toNat == Gen.gptMediaFdisk)) := by
        simp only [formatMatch, Insp.region, lookupR, if_true, bind, Except.bind, pure, Except.pure,
          Region.complete, hl, Bool.false_eq_true, if_false, decide_true, Bool.not_true, hnf, hmd, unpackLE, hsl]
      simp only [hl, true_and, hfm, Except.ok.injEq, runCheck, gptCheckMbr, Insp.region, lookupR, if_true,
        bind, Except.bind, pure, Except.pure, hloop, hnf, hmd, Option.some.injEq]
      have hfat : (nf.toNat == 2 && md.toNat == Gen.gptMediaFdisk) = true ↔ (nf = 2 ∧ md = 248) := by
        simp only [Gen.gptMediaFdisk, Bool.and_eq_true, beq_iff_eq]
        constructor
        · rintro ⟨a, b⟩
          exact ⟨UInt8.toNat_inj.mp (by simpa using a), UInt8.toNat_inj.mp (by simpa using b)⟩
        · rintro ⟨rfl, rfl⟩; exact ⟨rfl, rfl⟩
      generalize ((List.range' 0 4).all fun j => pteOkB (pteOf d j)) = A
      generalize (List.filter (fun j => (pteOf d j).ostype != 0) (List.range' 0 4)) = V
      generalize ((List.range' 0 4).any fun j => (pteOf d j).ostype == 238) = F
      by_cases hs : leNat (slice d 510 512) = 43605
      · have hs' : (leNat (slice d 510 512) == Gen.gptMbrSignature) = true := by
          simp [Gen.gptMbrSignature, hs]
        by_cases hf : (nf = 2 ∧ md = 248)
        · have := hfat.mpr hf
          obtain ⟨rfl, rfl⟩ := hf
          simp [hs', Gen.gptMediaFdisk]
        · have : (nf.toNat == 2 && md.toNat == Gen.gptMediaFdisk) = false := by
            cases h : (nf.toNat == 2 && md.toNat == Gen.gptMediaFdisk)
            · rfl
            · exact absurd (hfat.mp h) hf
          simp only [hs', this, Bool.not_false, Bool.and_self, true_and, hs, hf, not_false_eq_true]
          cases A
          · simp [CheckRes.ofExcept, Gen.gptMbrSignature, Gen.gptMediaFdisk]
          · cases F
            · by_cases hv : V = []
              · simp [hv, CheckRes.ofExcept, Gen.gptMbrSignature, Gen.gptMediaFdisk]
              · have : V.isEmpty = false := by cases V <;> simp_all
                simp [hv, this, CheckRes.ofExcept, Gen.gptMbrSignature, Gen.gptMediaFdisk]
            · by_cases hv0 : V = [0]
              · simp [hv0, CheckRes.ofExcept, Gen.gptMbrSignature, Gen.gptMediaFdisk]
              · simp [hv0, CheckRes.ofExcept, Gen.gptMbrSignature, Gen.gptMediaFdisk]
      · have hs' : (leNat (slice d 510 512) == Gen.gptMbrSignature) = false := by
          simp [Gen.gptMbrSignature, hs]
        simp [hs', hs]
        try (intro h; exact absurd h.symm (by decide))
    · have : ¬ (512 = d.length) := fun h => hl h.symm
      simp [hl, this]

/-- an invalid boot flag in any of the four entries is never accepted -/
theorem gpt_rejects_boot_flag (s0 : Insp) (h0 : Insp.init .gpt = some s0) (chunks : List Bytes) (j : Nat)
    (hj : j < 4) (hb : (pteOf (sliceOf chunks.flatten 0 512) j).boot ≠ 0x00 ∧
                       (pteOf (sliceOf chunks.flatten 0 512) j).boot ≠ 0x80) :
    safetyCheck (runChunks s0 chunks).1 ≠ .ok := by
  rw [Ne, gpt_accept_iff s0 h0]
  rintro ⟨_, _, _, hall, _⟩
  simp only [List.all_eq_true, List.mem_range'_1] at hall
  have := hall j ⟨by omega, by omega⟩
  simp only [pteOkB, Bool.and_eq_true, Bool.or_eq_true, beq_iff_eq] at this
  rcases this.1 with h | h
  · exact hb.1 h
  · exact hb.2 h

/-- an MBR with no partition at all is never accepted -/
theorem gpt_rejects_empty_table (s0 : Insp) (h0 : Insp.init .gpt = some s0) (chunks : List Bytes)
    (hz : ∀ j, j < 4 → (pteOf (sliceOf chunks.flatten 0 512) j).ostype = 0) :
    safetyCheck (runChunks s0 chunks).1 ≠ .ok := by
  rw [Ne, gpt_accept_iff s0 h0]
  rintro ⟨_, _, _, _, _, hne⟩
  apply hne
  rw [List.filter_eq_nil_iff]
  intro j hj
  simp only [List.mem_range'_1] at hj
  simp [hz j (by omega)]

end Oslo.Insp
