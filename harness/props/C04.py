"""C04 - mask_password hides every supported secret and changes nothing else."""
import json
import re

import common
import gen_mask
from common import Disagreement, Failure, req, hexs, unhexs

ID = 'C04'
DRIVER = 'drv_mask'
DRIVER_ROOT = 'Drivers.Mask'
PROOF_MODULES = ['OsloProofs.Props.C04']
LEVEL = 'proof'
RULE = ('messages = neutral text + one or several renderings (12 pattern families) of a sanitize key (35 keys x '
        'lower/UPPER/Capitalised/digit-suffixed/mixed/non-ASCII-folded) with a secret drawn from the value class of the '
        "rendering's generated template (regex metacharacters, the four non-ASCII case-fold characters, Unicode "
        'whitespace where the class allows), x masks; plus a malformed stream (unbalanced quotes, nested renderings, '
        'keys inside keys, random pattern-alphabet soup), the same key repeated 2..40 times in one message (same '
        'and mixed renderings, distinct secrets), in-process call sequences (the same message with different masks '
        'in both orders, a result fed to the next call with another mask, values already equal to a mask, repeats, '
        'interleaved messages), message objects whose __str__/__repr__ re-enter mask_password / '
        'mask_dict_password with another mask while they are rendered, single-pattern re.sub requests and non-str '
        'messages. '
        'Non-trivial: the implementation changed the message (at least one substitution fired); distinct by '
        '(message, mask)')
TRUSTED_BASE = [
    'Lean 4 kernel; axioms audited per theorem (subset of propext, Classical.choice, Quot.sound)',
    'translator harness/gen_mask.py (re._parser AST of the compiled patterns -> Generated/Mask.lean); exercised by '
    'this correspondence because the driver runs on the generated tables',
    'hand-written flat regex engine OsloModel/FlatRegex.lean (greedy backtracking order, leftmost scan, re.sub '
    'resumption / empty-match rule) and OsloModel/Mask.lean, tied to re / mask_password by this correspondence',
    "CPython's re, str.lower and `in` on str: modelled (flat fragment only), validated on the stated character "
    'domain (ASCII + the 29 whitespace characters + U+0130 U+0131 U+017F U+212A) plus a sample outside it',
]
UNMODELLED = [
    'a secret (mask) containing a backslash: re interprets it as a replacement-template escape',
    'lone surrogates in the message (not representable as Lean Char)',
    'str(message) for non-str messages is applied by the harness before the model is asked',
]
ASSUMPTIONS = ['the module-level pattern dicts are what mask_password uses (it reads them by name at call time)']

# the 35 keys named by the property (strutils.py:69-79 at the pinned commit)
SPEC_KEYS = ['adminpass', 'admin_pass', 'password', 'admin_password', 'auth_token', 'new_pass', 'auth_password',
             'secret_uuid', 'secret', 'sys_pswd', 'token', 'configdrive', 'chappassword', 'encrypted_key',
             'private_key', 'fernetkey', 'sslkey', 'passphrase', 'cephclusterfsid', 'octaviaheartbeatkey',
             'rabbitcookie', 'cephmanilaclientkey', 'pacemakerremoteauthkey', 'designaterndckey', 'cephadminkey',
             'heatauthencryptionkey', 'cephclientkey', 'keystonecredential', 'barbicansimplecryptokek', 'cephrgwkey',
             'swifthashsuffix', 'migrationsshkey', 'cephmdskey', 'cephmonkey', 'chapsecret']

KF_WILDCARD = 'KF_C04_WILDCARD'
KF_FLAGVALUE = 'KF_C04_FLAGVALUE'
KF_NESTED = 'KF_C04_NESTED'

# rendering -> (pattern list, index) in the reviewed template order
RENDERINGS = {
    'eq_bare': ('1', 0), 'eq_quoted': ('2', 0), 'eq_dquoted': ('2', 1), 'eq_squoted': ('2', 2),
    'key_quoted': ('2', 3), 'dashdash': ('2', 4), 'xml': ('2', 5), 'colon_quoted': ('2', 6),
    'colon_prefixed': ('2', 7), 'cmd_list': ('2', 8), 'cmd_flag': ('2', 9),
}
BARE = ('eq_bare', 'dashdash', 'cmd_flag')
COLON = ('colon_quoted', 'colon_prefixed')
# value classes of the reviewed templates (used when the live template list is shorter / untranslatable)
_Q = ((34, 34), (39, 39))
DEFAULT_CLASS = {
    'eq_bare': (True, 'ws', _Q), 'eq_quoted': (True, '', _Q), 'eq_dquoted': (True, '', ((34, 34),)),
    'eq_squoted': (True, '', ((39, 39),)), 'key_quoted': (True, '', _Q),
    'dashdash': (True, 'ws', _Q + ((61, 61),)), 'xml': (True, '', ((60, 60),)), 'colon_quoted': (True, '', _Q),
    'colon_prefixed': (True, '', _Q), 'cmd_list': (True, '', _Q), 'cmd_flag': (True, 'ws', ()),
}

META = '.^$*+?()[]{}|/#%&@!~;`,'
MASK_ALPHABET = '*?#%!+@~$&;.|'          # the theorems' mask alphabet (OsloProofs/Props/C04.lean maskChar)
WORDS = ['user', 'name', 'id', 'host', 'INFO', 'req', 'GET', 'volume', 'server', 'nova', 'body', 'with', 'and',
         'the', '42', 'x', 'status', 'ok', 'http', 'done', 'args', 'called', 'DEBUG', '7f3a', 'instance']

_state = {}


def generate():
    _state['ex'] = gen_mask.generate()


def strutils():
    return gen_mask.load_strutils()


def facts():
    return gen_mask.interpreter_facts()


def live():
    """Live extraction (keys, templates); None if untranslatable."""
    if 'ex' not in _state:
        try:
            _state['ex'] = gen_mask.extract(strutils())
        except Exception:
            _state['ex'] = None
    return _state['ex']


def domain():
    if 'dom' not in _state:
        f = facts()
        _state['dom'] = [chr(c) for c in f['domain']]
        _state['ws'] = [chr(c) for c in f['ws']]
        _state['extras'] = [chr(c) for c in f['extras']]
    return _state['dom']


def value_class(rendering, reviewed=False):
    """(neg, ranges) of the rendering's value item: from the live template where there is one (correspondence),
    or the reviewed class the property is stated over (search: an edited class must not hide itself)."""
    ex = None if reviewed else live()
    lst, idx = RENDERINGS[rendering]
    if ex and idx < len(ex['lists'][lst]):
        mid = ex['lists'][lst][idx][1]
        if len(mid) == 1 and mid[0] != 'KEY':
            return mid[0][0], tuple(mid[0][1])
    neg, w, extra = DEFAULT_CLASS[rendering]
    pts = set()
    if w:
        pts |= set(facts()['ws'])
    for lo, hi in extra:
        pts.update(range(lo, hi + 1))
    return neg, tuple(gen_mask.to_ranges(pts))


def in_class(ch, cls):
    neg, rng = cls
    return neg != any(lo <= ord(ch) <= hi for lo, hi in rng)


def all_keys():
    ex = live()
    keys = list(SPEC_KEYS)
    if ex:
        keys += [k for k in ex['keys'] if k not in keys]
    else:
        try:
            keys += [k for k in gen_mask.sanitize_keys(strutils()) if k not in keys and isinstance(k, str)]
        except Exception:
            pass
    return keys


# ------------------------------------------------------------------ generators

def case_form(rng, key, form):
    if form == 'lower':
        return key
    if form == 'upper':
        return key.upper()
    if form == 'cap':
        return key.capitalize()
    if form == 'digits':
        return key
    if form == 'mixed':
        return ''.join(c.upper() if rng.random() < 0.5 else c for c in key)
    if form == 'folded':            # non-ASCII characters re.IGNORECASE equates with ASCII letters
        rep = {'k': 'K', 's': 'ſ', 'i': rng.choice('İı')}
        out = []
        for c in key:
            out.append(rep[c] if c in rep and rng.random() < 0.6 else c)
        return ''.join(out)
    raise ValueError(form)


FORMS4 = ['lower', 'upper', 'cap', 'digits']


DIGIT_RUNS = [1, 1, 2, 3, 4, 5, 5, 6, 8, 8, 10, 12]      # the property puts no bound on the digit suffix


def digits(rng, form):
    """Digit suffix of the key: the 'digits' form gets 1..12 digits (leading zeros included)."""
    if form == 'digits':
        return ''.join(rng.choice('0123456789') for _ in range(rng.choice(DIGIT_RUNS)))
    return ''


def gen_ws(rng, lo):
    domain()
    n = lo if rng.random() < 0.7 else rng.randrange(lo, lo + 3)
    return ''.join(' ' if rng.random() < 0.7 else rng.choice(_state['ws']) for _ in range(n))


def gen_quote(rng):
    return rng.choice('"\'')


def gen_secret(rng, cls, style=None, maxlen=40):
    dom = domain()
    style = style or rng.choice(['alnum', 'alnum', 'meta', 'any', 'any', 'fold', 'spacey', 'keyish'])
    n = rng.randrange(1, min(9, maxlen + 1)) if (rng.random() < 0.7 or maxlen < 10) else rng.randrange(9, maxlen + 1)
    pools = {
        'alnum': 'abcdefghijklmnopqrstuvwxyzABCDEFGHIJKLMNOPQRSTUVWXYZ0123456789',
        'meta': META + 'ab1\\-=:<>',
        'any': dom,
        'fold': 'İıſKkis' + 'aB3',
        'spacey': ' \t' + 'abc=:-' + ''.join(_state['ws'][:6]),
        'keyish': 'abc',
    }
    pool = [c for c in pools[style] if in_class(c, cls)] or [c for c in 'abcxyz019' if in_class(c, cls)]
    s = ''.join(rng.choice(pool) for _ in range(n))
    if style == 'keyish':
        frag = rng.choice(all_keys()) + rng.choice(['', '=', '=v', ' ', ': ', '>', ' --f v'])
        frag = ''.join(c for c in frag if in_class(c, cls))
        pos = rng.randrange(0, len(s) + 1)
        s = s[:pos] + frag + s[pos:]
    return s


FLAG_PUNCT = '_[\\]^`'        # the characters of [A-z] that are not letters: flags like --new_value, -n_v


def gen_flag(rng, wide=False):
    """A flag name over the class the patterns use, [A-z]: letters and, in half of the cases, also `_` (often) and
    the other five characters between Z and a; `wide` adds the non-ASCII characters IGNORECASE equates with letters."""
    letters = 'abcdefghijklmnopqrstuvwxyzABCXYZ'
    x = rng.random()
    if x < 0.5 and not wide:
        pool = letters
    elif x < 0.8:
        pool = letters + '___'
    else:
        pool = letters + FLAG_PUNCT + ('İıſK' if wide else '')
    return ''.join(rng.choice(pool) for _ in range(rng.randrange(1, 9)))


def gen_mask_text(rng, adversarial=False):
    if not adversarial or rng.random() < 0.5:
        return rng.choice(['***', '***', '???', '#', '*', '%%%%', '@!~', '*?#%!+@~$&;.|'])
    dom = [c for c in domain() if c != '\\']
    return rng.choice(['', ' ', 'X', 'p@ss w', '"', "'", '=', 'password', 'token=1', '<>', '--x', ': ', 'ſK',
                       ''.join(rng.choice(dom) for _ in range(rng.randrange(0, 6)))])


def render(rng, rendering, key, form, secret, wide=False, strict=False):
    """-> (head, value, tail): the rendering text is head+value+tail, the masked one head+mask+tail."""
    K = case_form(rng, key, form) + digits(rng, form)
    q = gen_quote
    same = strict or rng.random() < 0.85       # strict: opening and closing quotes / tags agree
    if rendering == 'eq_bare':
        return K + gen_ws(rng, 0) + '=' + gen_ws(rng, 0), secret, ''
    if rendering in ('eq_quoted', 'eq_dquoted', 'eq_squoted'):
        q1 = {'eq_dquoted': '"', 'eq_squoted': "'"}.get(rendering) or q(rng)
        q2 = q1 if (same or rendering != 'eq_quoted') else q(rng)
        return K + gen_ws(rng, 0) + '=' + gen_ws(rng, 0) + q1, secret, q2
    if rendering == 'key_quoted':
        q1 = q(rng)
        return K + gen_ws(rng, 1) + q1, secret, (q1 if same else q(rng))
    if rendering == 'dashdash':
        return '--' + K + gen_ws(rng, 1), secret, ''
    if rendering == 'xml':
        K2 = case_form(rng, key, form if same else rng.choice(FORMS4)) + (digits(rng, 'digits') if not same else K[len(key):])
        return '<' + K + '>', secret, '</' + K2 + '>'
    if rendering == 'colon_quoted':
        q1 = q(rng)
        q3 = q1 if same else q(rng)
        return (q1 + K + (q1 if same else q(rng)) + gen_ws(rng, 0) + ':' + gen_ws(rng, 0) + q3, secret,
                (q3 if same else q(rng)))
    if rendering == 'colon_prefixed':
        q1 = q(rng)
        q3 = q1 if same else q(rng)
        prefix = rng.choice(['', 'original_', 'x-', 'my ', 'OS_', 'a.b.', '['])
        u = rng.choice(['', '', 'u', 'U'])
        return (q1 + prefix + K + (q1 if same else q(rng)) + gen_ws(rng, 0) + ':' + gen_ws(rng, 0) + u + q3, secret,
                (q3 if same else q(rng)))
    if rendering == 'cmd_list':
        q1 = q(rng)
        q3 = q1 if same else q(rng)
        prefix = rng.choice(['', '', '--', '--os-', 'x'])
        u = rng.choice(['', '', 'u'])
        return (q1 + prefix + K + (q1 if same else q(rng)) + gen_ws(rng, 0) + ',' + gen_ws(rng, 0) + "'-" +
                rng.choice(['', '-']) + gen_flag(rng, wide) + "'" + gen_ws(rng, 0) + ',' + gen_ws(rng, 0) + u + q3,
                secret, (q3 if same else q(rng)))
    if rendering == 'cmd_flag':
        return K + gen_ws(rng, 0) + '-' + rng.choice(['', '-']) + gen_flag(rng, wide) + gen_ws(rng, 1), secret, ''
    raise ValueError(rendering)


def gen_neutral(rng, end_ws, start_ws):
    """Neutral surrounding text: words and harmless punctuation; no quote < = : -- and no sanitize key."""
    n = rng.randrange(0, 5)
    parts = []
    for _ in range(n):
        w = rng.choice(WORDS)
        if rng.random() < 0.3:
            w += rng.choice(['.', ',', ';', ')', '(', ']', '[', '!', '/', '_1', '#'])
        parts.append(w)
    s = ' '.join(parts)
    if s and start_ws:
        s = rng.choice([' ', '\n', '\t', ', ', '; ']) + s if start_ws == 'sep' else ' ' + s
    if s and end_ws:
        s = s + rng.choice([' ', ' ', '\n', '\t', ' (', ' [', ' {'])
    return s


def has_key(text, keys=None):
    low = text.lower()
    return any(k in low for k in (keys or all_keys()))


SECRET_STYLES = ['alnum', 'meta', 'any', 'fold', 'spacey']
FLAGLIKE = re.compile(r'--?[A-z]+', re.IGNORECASE)


def in_flagvalue_class(rendering, key, secret):
    """`--KEY2 -x next`: KEY2 ends with a sanitize key that comes earlier in the list and the value looks like a
    flag, so the earlier key's `key --flag value` pattern masks the *next* word as well (finding KF_C04_FLAGVALUE)."""
    if rendering != 'dashdash' or not FLAGLIKE.fullmatch(secret):
        return False
    keys = all_keys()
    return any(k != key and key.endswith(k) for k in keys[:keys.index(key)]) if key in keys else False


FOLD_NORM = {ord('K'): 'k', ord('ſ'): 's', ord('İ'): 'i', ord('ı'): 'i'}


def contains_key_ci(text):
    """Does a sanitize key occur in the text, comparing the way re.IGNORECASE does (finding KF_C04_NESTED:
    a value that itself contains a sanitize key can be taken for a rendering of that key)."""
    low = text.translate(FOLD_NORM).lower()
    return any(k in low for k in all_keys())


def listed_ids():
    return {f.get('id') for f in common.load_findings().get('findings', []) if ID in f.get('properties', [])}


def gen_rendering_case(rng, key=None, rendering=None, form=None, nparts=None, allow_wildcard_class=False,
                       strict=False, allow_flagvalue_class=False, allow_nested_class=False):
    """A message built from neutral text and renderings, with the expected result by construction."""
    keys = all_keys()
    mask = gen_mask_text(rng)
    nparts = nparts or (1 if rng.random() < 0.6 else rng.randrange(2, 5))
    pre = gen_neutral(rng, True, False)
    parts = []
    for i in range(nparts):
        r = rendering if (i == 0 and rendering) else rng.choice(sorted(RENDERINGS))
        k = key if (i == 0 and key) else rng.choice(keys)
        f = form if (i == 0 and form) else rng.choice(FORMS4)
        last = i == nparts - 1
        if r in COLON and not last and not allow_wildcard_class:
            # a colon rendering followed by a later quote is the listed WILDCARD finding: keep quotes out of the rest
            r = rng.choice(['eq_bare', 'dashdash', 'xml', 'cmd_flag'])
        cls = value_class(r, reviewed=strict)
        sec = gen_secret(rng, cls, style=rng.choice(SECRET_STYLES))
        if strict and allow_nested_class:
            sec = gen_secret(rng, cls, style='keyish')
        while strict and ((not allow_flagvalue_class and in_flagvalue_class(r, k, sec)) or
                          (not allow_nested_class and contains_key_ci(sec))):
            sec = gen_secret(rng, cls, style='alnum', maxlen=6)
        head, val, tail = render(rng, r, k, f, sec, strict=strict)
        sep = '' if last else rng.choice([' ', ' ', '\n', ', ', '; ', ' and ', '\t'])
        if r in BARE and not last and not sep[0].isspace():
            sep = ' ' + sep
        parts.append({'rendering': r, 'key': k, 'form': f, 'head': head, 'value': val, 'tail': tail, 'sep': sep})
    post = gen_neutral(rng, False, 'sp')
    if post and not post[0].isspace():
        post = ' ' + post
    return assemble({'kind': 'render', 'pre': pre, 'parts': parts, 'post': post, 'mask': mask})


REPEAT_KEYS = ['password', 'token', 'admin_password', 'sslkey', 'chapsecret']
REPEAT_COUNTS = [19, 20, 33, 40]          # above re.sub's would-be count of 18 (flags value) and above 32


def gen_repeated_case(rng, key, rendering=None, n=None, strict=False, colon_ok=False):
    """Many renderings of the SAME key in one message (one rendering, or mixed renderings when `rendering` is None),
    every secret distinct; expected = every secret replaced.  Colon-quoted renderings followed by later quotes are
    the listed class KF_C04_WILDCARD: used only when `colon_ok` (correspondence, or search with the finding listed)."""
    n = n or rng.choice(REPEAT_COUNTS + [rng.randrange(2, 41)])
    mask = gen_mask_text(rng)
    pool = sorted(RENDERINGS) if colon_ok else [r for r in sorted(RENDERINGS) if r not in COLON]
    parts, seen = [], set()
    for i in range(n):
        r = rendering or rng.choice(pool)
        cls = value_class(r, reviewed=strict)
        while True:
            sec = ''.join(rng.choice('abcdefghijklmnopqrstuvwxyzABCXYZ0123456789') for _ in range(rng.randrange(3, 8))) \
                + '%02d' % i
            if sec not in seen and not contains_key_ci(sec) and all(in_class(c, cls) for c in sec):
                break
        seen.add(sec)
        f = rng.choice(FORMS4)
        head, val, tail = render(rng, r, key, f, sec, strict=True)
        last = i == n - 1
        sep = '' if last else rng.choice([' ', ' ', '\n', ', ', '; ', '\t'])
        if r in BARE and not last and not sep[0].isspace():
            sep = ' ' + sep
        parts.append({'rendering': r, 'key': key, 'form': f, 'head': head, 'value': val, 'tail': tail, 'sep': sep})
    pre = gen_neutral(rng, True, False)
    post = gen_neutral(rng, False, 'sp')
    if post and not post[0].isspace():
        post = ' ' + post
    return assemble({'kind': 'render', 'pre': pre, 'parts': parts, 'post': post, 'mask': mask})


def repeated_grid(rng, strict, colon_ok, per_cell):
    """(key, rendering or None) x counts: every rendering repeated for a few keys, plus mixed renderings."""
    keys = REPEAT_KEYS[:3] + [rng.choice(all_keys())]
    for key in keys:
        for r in sorted(RENDERINGS) + [None, None]:
            if r in COLON and not colon_ok:
                continue
            for _ in range(per_cell):
                yield gen_repeated_case(rng, key, r, strict=strict, colon_ok=colon_ok)


def assemble(case):
    """message / expected of a structured rendering case (expected by construction)."""
    msg = exp = case['pre']
    for p in case['parts']:
        msg += p['head'] + p['value'] + p['tail'] + p['sep']
        exp += p['head'] + case['mask'] + p['tail'] + p['sep']
    case['message'] = msg + case['post']
    case['expected'] = exp + case['post']
    case['secrets'] = [p['value'] for p in case['parts']]
    case['desc'] = ['%s/%s/%s' % (p['rendering'], p['key'], p['form']) for p in case['parts']]
    return case


SOUP = list('"\'=:<>/-, \tu') + ['--', '="', "='", '": "', "': '", "', '--", '</', ' ', '  ', 'u\'', '0', '12']


def gen_malformed(rng):
    keys = all_keys()
    kind = rng.choice(['soup', 'soup', 'unbalanced', 'nested', 'substring', 'mutate', 'fold', 'nearmiss'])
    f = rng.choice(FORMS4 + ['mixed', 'folded'])
    if kind == 'soup':
        n = rng.randrange(1, 14)
        toks = []
        for _ in range(n):
            x = rng.random()
            if x < 0.3:
                toks.append(case_form(rng, rng.choice(keys), rng.choice(FORMS4 + ['mixed', 'folded'])) +
                            rng.choice(['', '', '7', '12']))
            elif x < 0.8:
                toks.append(rng.choice(SOUP))
            else:
                toks.append(gen_secret(rng, (True, ()), maxlen=8))
        return ''.join(toks)
    if kind == 'unbalanced':
        c = gen_rendering_case(rng, allow_wildcard_class=True)
        m = c['message']
        qs = [i for i, ch in enumerate(m) if ch in '"\'<>']
        if qs:
            i = rng.choice(qs)
            m = m[:i] + rng.choice(['', '"', "'", '""', "'\""]) + m[i + 1:]
        return m
    if kind == 'nested':
        inner = gen_rendering_case(rng, nparts=1, allow_wildcard_class=True)['message']
        r = rng.choice(sorted(RENDERINGS))
        head, val, tail = render(rng, r, rng.choice(keys), f, inner, wide=True)
        return head + val + tail + rng.choice(['', ' "x"', " 'y' \"z\"", ' end'])
    if kind == 'substring':
        a, b = rng.choice(keys), rng.choice(keys)
        cut = rng.randrange(1, len(b) + 1)
        k = rng.choice([a + b, a + b[:cut], b[:cut] + a, a[:-1], a + '_' + b, a + '1' + b])
        r = rng.choice(sorted(RENDERINGS))
        K = case_form(rng, k, f if f != 'folded' else 'mixed')
        head, val, tail = render(rng, r, 'KEYKEY', 'lower', gen_secret(rng, value_class(r)), wide=True)
        return (head + val + tail).replace('KEYKEY', K) + rng.choice(['', ' x', ' "q"'])
    if kind == 'mutate':
        m = list(gen_rendering_case(rng, allow_wildcard_class=True)['message'])
        for _ in range(rng.randrange(1, 4)):
            if not m:
                break
            i = rng.randrange(len(m))
            op = rng.random()
            if op < 0.4:
                del m[i]
            elif op < 0.7:
                m.insert(i, rng.choice(SOUP + list(domain())))
            else:
                m[i] = rng.choice(SOUP + list(domain()))
        return ''.join(m)
    if kind == 'fold':
        r = rng.choice(sorted(RENDERINGS))
        head, val, tail = render(rng, r, rng.choice(keys), 'folded', gen_secret(rng, value_class(r)), wide=True)
        other = ''
        if rng.random() < 0.5:
            other = ' ' + gen_rendering_case(rng, nparts=1)['message']
        return head + val + tail + other
    # nearmiss: something that is almost a key
    k = rng.choice(keys)
    i = rng.randrange(len(k))
    k2 = rng.choice([k[:i] + k[i + 1:], k[:i] + ' ' + k[i:], k[:i] + '-' + k[i:], k[:i] + 'ſ' + k[i + 1:], k[::-1]])
    r = rng.choice(sorted(RENDERINGS))
    head, val, tail = render(rng, r, 'KEYKEY', 'lower', gen_secret(rng, value_class(r)))
    return (head + val + tail).replace('KEYKEY', k2)


def gen_outside_domain(rng):
    """Messages with characters outside the stated domain (other letters, combining marks, astral)."""
    c = gen_rendering_case(rng, nparts=1)
    extra = 'éÉßΣσςΩЖжİi̇KÅ中​̇\U0001f600\U00010400'
    m = list(c['message'])
    for _ in range(rng.randrange(1, 5)):
        m.insert(rng.randrange(len(m) + 1), rng.choice(extra))
    return ''.join(m)


# ------------------------------------------------------------------ call sequences (one process, in order)

SEQ_MASKS = ['***', '???', '#', '%%%%', '@!~', '*', '+++', '$$']      # over the theorems' mask alphabet


def with_values(case, source, mask):
    """The structured rendering case with every value replaced by the text `source` (None: the original secrets)
    and masked with `mask`: message / expected by construction."""
    c = json.loads(json.dumps({k: case[k] for k in ('kind', 'pre', 'parts', 'post')}))
    if source is not None:
        for p in c['parts']:
            p['value'] = source
    c['mask'] = mask
    return assemble(c)


def gen_call_sequence(rng):
    """In-process call sequences: the same message with different masks in both orders, the output of one call
    (= the message with every value already equal to a mask) fed to the next call with another mask, repeats,
    two messages interleaved.  Every step is a complete rendering case, so the expected string of every call is
    still by construction: mask_password is a function of (message, secret) only."""
    fam = rng.choice(['remask', 'remask', 'embedded', 'embedded', 'repeat', 'interleave'])
    a, b, c = rng.sample(SEQ_MASKS, 3)
    base = gen_rendering_case(rng, strict=True, nparts=rng.choice([1, 1, 2, 3]))
    if fam == 'remask':
        plan = [(None, a), (a, a), (a, b), (None, b), (b, a), (a, c), (b, b)]
        plan = plan[:rng.randrange(3, len(plan) + 1)]
    elif fam == 'embedded':
        plan = rng.choice([[(a, a), (a, b), (a, a), (a, c)], [(a, b), (a, a), (a, b)], [(a, a), (a, b)],
                           [(a, a), (a, a), (a, c), (a, b)]])
    elif fam == 'repeat':
        plan = [(None, a), (None, a), (a, a), (a, a), (a, b), (None, a)]
    else:
        other = gen_rendering_case(rng, strict=True, nparts=1)
        steps = []
        for src, m, which in [(a, a, 0), (b, b, 1), (a, b, 0), (b, a, 1), (None, c, 0), (a, a, 0), (b, c, 1)]:
            steps.append(with_values(base if which == 0 else other, src, m))
        return {'kind': 'callseq', 'family': fam, 'steps': steps}
    return {'kind': 'callseq', 'family': fam, 'steps': [with_values(base, src, m) for src, m in plan]}


FRESH_BUDGET = [60.0]          # seconds of fresh-interpreter work left in this run


def fresh_oracle(case):
    """The oracle's verdict on a stored case in a FRESH interpreter in the same ambient configuration (nothing
    remembered from this run): why | None (passes there) | 'unknown' (could not be run / budget used up)."""
    import os
    import subprocess
    import time
    import ambient
    if FRESH_BUDGET[0] <= 0:
        return 'unknown'
    code = ('import sys, json\nsys.path.insert(0, %r)\n' % os.path.dirname(os.path.dirname(__file__))
            + ambient.setup_snippet('import common\nfrom props import C04')
            + 'print(json.dumps(C04.oracle(json.load(sys.stdin))))\n')
    t0 = time.time()
    try:
        p = subprocess.run(ambient.fresh_interpreter_argv() + ['-c', code], input=json.dumps(case).encode(),
                           stdout=subprocess.PIPE, stderr=subprocess.PIPE, timeout=max(5, min(60, FRESH_BUDGET[0])))
        return json.loads([l for l in p.stdout.decode().splitlines() if l.strip()][-1])
    except Exception:
        return 'unknown'
    finally:
        FRESH_BUDGET[0] -= time.time() - t0


def shrink_callseq(case):
    """Fewest calls that still fail in a fresh interpreter; wall-clock bounded."""
    first = fresh_oracle(case)
    if first is None:
        return dict(case, note='fails only after the earlier calls of this run')
    if first == 'unknown':
        return case

    def still(sub):
        r = fresh_oracle(dict(case, steps=sub))
        return bool(r) and r != 'unknown'
    steps = common.shrink_list(case['steps'], still, max_steps=25)
    return dict(case, steps=steps)


# ------------------------------------------------------------------ reentrancy through the message object

class Reentrant:
    """A caller-supplied message object whose __str__ / __repr__ / __format__ call back into the library with OTHER
    arguments (a command object that writes a masked audit line, a record that renders a nested field with its own
    marker) before giving its text.  mask_password renders its argument with str()."""

    def __init__(self, text, inner_mask, source=None):
        self.text, self.inner_mask, self.source = text, inner_mask, source

    def _render(self):
        st = strutils()
        st.mask_password('password=abc <token>x</token> "secret": "y"', secret=self.inner_mask)
        st.mask_dict_password({'password': 'x', 'n': {'u': 'token=abc'}}, secret=self.inner_mask)
        if self.source is not None:                 # its text IS the source masked with the inner mask
            return st.mask_password(self.source, secret=self.inner_mask)
        return self.text

    def __str__(self):
        return self._render()

    def __repr__(self):
        return self._render()

    def __format__(self, spec):
        return format(self._render(), spec)


def make_message(case):
    """The message argument of a case: its text, or the re-entering object the case describes."""
    r = case.get('reenter')
    if not r:
        return case['message']
    if r['mode'] == 'side-call':
        return Reentrant(case['message'], r['inner_mask'])
    if r['mode'] == 'premask':
        return Reentrant(None, r['inner_mask'], source=r['source'])
    if r['mode'] == 'in-list':                      # str([obj]) renders obj with repr()
        return [Reentrant(case['message'][1:-1], r['inner_mask'])]
    raise ValueError(r['mode'])


def gen_reentrant_case(rng):
    """A rendering case whose message is an object that re-enters the library while it is being rendered; the text it
    finally gives is the case's message, so the expected result is still by construction."""
    outer, inner = rng.sample(SEQ_MASKS, 2)
    base = gen_rendering_case(rng, strict=True, nparts=rng.choice([1, 1, 2]))
    mode = rng.choice(['side-call', 'side-call', 'premask', 'in-list'])
    while mode == 'in-list' and not base['post'] and base['parts'][-1]['rendering'] in BARE:
        # str([obj]) puts ']' right after the text: a bare value at the very end would rightly take it in
        base = gen_rendering_case(rng, strict=True, nparts=rng.choice([1, 1, 2]))
    if mode == 'premask':
        c = with_values(base, inner, outer)         # what the object renders to: every value already = inner mask
        c['reenter'] = {'mode': mode, 'inner_mask': inner, 'source': base['message']}
        return c
    c = with_values(base, None, outer)
    if mode == 'in-list':
        c = dict(c, pre='[' + c['pre'], post=c['post'] + ']')
        c = assemble(c)
    c['reenter'] = {'mode': mode, 'inner_mask': inner}
    return c


# ------------------------------------------------------------------ implementation runners

def impl_mask(message, mask):
    try:
        return 'ok\t' + hexs(strutils().mask_password(message, mask))
    except Exception as e:          # canonical: the exception class
        return type(e).__name__


def impl_sub(which, idx, key, message, mask):
    s = strutils()
    table = gen_mask.pattern_tables(s)[which]          # HarnessBlind if the tables cannot be located
    tmpl = {'2': r'\g<1>' + mask + r'\g<2>', '1': r'\g<1>' + mask, 'W': r'\g<1>'}[which]
    try:
        return 'ok\t' + hexs(re.sub(table[key][idx], tmpl, message))
    except Exception as e:
        return type(e).__name__


def show(reply):
    if reply.startswith('ok\t'):
        try:
            return unhexs(reply[3:])
        except Exception:
            return reply
    return reply


# ------------------------------------------------------------------ correspondence

def corr_cases(ctx):
    """Yields ('mask', message, mask, tag) / ('sub', which, idx, key, message, mask, tag)."""
    rng = ctx.rng
    keys = all_keys()
    ex = live()
    forms = FORMS4
    # 1. every key x 4 case forms x every rendering
    rounds = 1 if ctx.quick else 60
    for rnd in range(rounds):
        for key in keys:
            for form in forms:
                for r in sorted(RENDERINGS):
                    c = gen_rendering_case(rng, key=key, rendering=r, form=form,
                                           nparts=1 if rng.random() < 0.7 else None, allow_wildcard_class=True)
                    mask = c['mask'] if rng.random() < 0.7 else gen_mask_text(rng, True)
                    yield ('mask', c['message'], mask, 'grid/' + r)
    # 2. multi-secret messages, mixed/folded case forms
    for _ in range(700 if ctx.quick else 40000):
        c = gen_rendering_case(rng, form=rng.choice(FORMS4 + ['mixed', 'folded']), nparts=rng.randrange(2, 5),
                               allow_wildcard_class=True)
        yield ('mask', c['message'], gen_mask_text(rng, rng.random() < 0.3), 'multi')
    # 2b. the same key many times in one message (same rendering / mixed renderings), distinct secrets
    for c in repeated_grid(rng, False, True, 2 if ctx.quick else 12):
        yield ('mask', c['message'], c['mask'], 'repeated')
    # 3. malformed stream
    for _ in range(1700 if ctx.quick else 45000):
        yield ('mask', gen_malformed(rng), gen_mask_text(rng, rng.random() < 0.3), 'malformed')
    # 4. outside the character domain (sample)
    for _ in range(100 if ctx.quick else 3000):
        yield ('mask', gen_outside_domain(rng), '***', 'outside-domain')
    # 5. single pattern, single re.sub: validates the flat engine pattern by pattern
    if ex:
        for _ in range(500 if ctx.quick else 15000):
            which = rng.choice(['2'] * 6 + ['1', 'W', 'W'])
            n = len(ex['lists'][which])
            if not n:
                continue
            key = rng.choice(ex['keys'])
            msg = gen_malformed(rng) if rng.random() < 0.6 else \
                gen_rendering_case(rng, key=key, allow_wildcard_class=True)['message']
            yield ('sub', which, rng.randrange(n), key, msg, gen_mask_text(rng, rng.random() < 0.3), 'sub/' + which)
    # 6. no key at all / empty / long runs (backtracking depth)
    for m in ['', ' ', 'x', '"', "''", 'pass word', 'tok en=1', 'ſecret=1', 'password' * 3, '"' * 40,
              '"password": "' + '"' * 30, "'" + 'a' * 200 + 'password', 'password=' + 'a' * 300,
              'password' + ' ' * 100 + '=' + ' ' * 100 + 'x', '--password' + ' ' * 50, 'u' * 30 + "'token': u'" + 'x' * 50]:
        yield ('mask', m, '***', 'fixed')


def corr_line(c):
    if c[0] == 'mask':
        return req('mask', hexs(c[1]), hexs(c[2]))
    return req('sub', c[1], c[2], hexs(c[3]), hexs(c[4]), hexs(c[5]))


def corr_impl(c):
    if c[0] == 'mask':
        return impl_mask(c[1], c[2])
    return impl_sub(c[1], c[2], c[3], c[4], c[5])


NON_STR = [12, 3.5, None, True, b'password=abc', ['password=abc def', 1], {'password': 'abc'}, ('token', '=x'),
           Exception("failed with password='abc' retry"), bytearray(b'token=1')]


def correspondence(ctx):
    cases = list(corr_cases(ctx))
    replies = ctx.driver.ask_many([corr_line(c) for c in cases])
    out = []
    for c, rep in zip(cases, replies):
        ctx.evaluations += 1
        ctx.count('corr/' + c[-1])
        impl = corr_impl(c)
        if '\\' in (c[2] if c[0] == 'mask' else c[5]):
            ctx.count('corr/unmodelled-mask')
            if rep != 'unmodelled':
                out.append(Disagreement(case_json(c), impl, rep))
            continue
        msg = c[1] if c[0] == 'mask' else c[4]
        if impl.startswith('ok\t') and show(impl) != msg:
            ctx.nontrivial((c[0], msg, c[2] if c[0] == 'mask' else c[1:4] + (c[5],)))
            ctx.count('impl/changed')
        else:
            ctx.count('impl/unchanged' if impl.startswith('ok') else 'impl/' + impl)
        if c[0] == 'mask':
            ctx.sample({'message': c[1], 'mask': c[2], 'implementation': show(impl)}, 5)
        if impl != rep:
            out.append(Disagreement(case_json(c), show(impl), show(rep)))
    # call sequences: the model is stateless, so every call of a sequence is compared with the model's answer
    seqs = [gen_call_sequence(ctx.rng) for _ in range(120 if ctx.quick else 4000)]
    done = [[impl_mask(st['message'], st['mask']) for st in sq['steps']] for sq in seqs]       # in order, in-process
    replies = iter(ctx.driver.ask_many([req('mask', hexs(st['message']), hexs(st['mask']))
                                        for sq in seqs for st in sq['steps']]))
    for sq, impls in zip(seqs, done):
        reported = False
        for i, (st, impl) in enumerate(zip(sq['steps'], impls)):
            rep = next(replies)
            ctx.evaluations += 1
            ctx.count('corr/callseq/' + sq['family'])
            if impl != rep and not reported:
                reported = True
                out.append(Disagreement(dict(sq, steps=sq['steps'][:i + 1]), 'call %d: %r' % (i, show(impl)),
                                        'call %d: %r' % (i, show(rep))))
    # reentrancy: the message is an object that calls back into the library while it is rendered
    rcases = [gen_reentrant_case(ctx.rng) for _ in range(80 if ctx.quick else 2500)]
    rimpl = [impl_mask(make_message(c), c['mask']) for c in rcases]
    for c, impl, rep in zip(rcases, rimpl, ctx.driver.ask_many([req('mask', hexs(c['message']), hexs(c['mask']))
                                                               for c in rcases])):
        ctx.evaluations += 1
        ctx.count('corr/reentrant/' + c['reenter']['mode'])
        if impl != rep:
            out.append(Disagreement(c, show(impl), show(rep)))
    # non-str messages: str() is applied by the code, and by the harness for the model
    texts = []
    for m in NON_STR:
        try:
            texts.append(str(m))
        except BytesWarning:
            # python -bb: str() of a bytes object is an error by interpreter configuration -- for this harness and
            # for mask_password alike (its first statement is str(message)); the model has no such input
            texts.append(None)
    replies = ctx.driver.ask_many([req('mask', hexs(t if t is not None else ''), hexs('***')) for t in texts])
    for m, t, rep in zip(NON_STR, texts, replies):
        ctx.evaluations += 1
        ctx.count('corr/non-str')
        impl = impl_mask(m, '***')
        if t is None:
            rep = 'BytesWarning'
        if impl != rep:
            out.append(Disagreement({'kind': 'corr', 'message': t if t is not None else repr(m), 'mask': '***',
                                     'note': 'non-str ' + type(m).__name__},
                                    show(impl), show(rep)))
    # str.lower on the domain, character by character and on random strings
    dom = domain()
    rng = ctx.rng
    texts = list(dom) + [''.join(rng.choice(dom) for _ in range(rng.randrange(0, 12))) for _ in range(300)]
    for t, rep in zip(texts, ctx.driver.ask_many([req('lower', hexs(t)) for t in texts])):
        ctx.evaluations += 1
        ctx.count('corr/lower')
        if show(rep) != t.lower():
            out.append(Disagreement({'kind': 'lower', 'message': t, 'mask': ''}, t.lower(), show(rep)))
    return out


def case_json(c):
    if c[0] == 'mask':
        return {'kind': 'corr', 'message': c[1], 'mask': c[2], 'tag': c[3]}
    return {'kind': 'sub', 'list': c[1], 'index': c[2], 'key': c[3], 'message': c[4], 'mask': c[5], 'tag': c[6]}


# ------------------------------------------------------------------ failing-input search (implementation only)

def oracle(case):
    """None if the property holds on this case, else a description."""
    mp = strutils().mask_password
    kind = case['kind']
    if kind == 'callseq':
        for i, st in enumerate(case['steps']):
            w = oracle(st)
            if w:
                return 'sequence-%s: call %d of the sequence (message %r, mask %r): %s' % (
                    w.split(':')[0], i, st['message'], st.get('mask', '***'), w)
        return None
    msg, mask = case['message'], case.get('mask', '***')
    try:
        got = mp(make_message(case), mask)
    except Exception as e:
        return 'raised: mask_password raised %s' % type(e).__name__
    if kind == 'render':
        exp = case['expected']
        if got != exp:
            leaked = [s for s in case.get('secrets', []) if len(s) >= 3 and s in got and s not in exp]
            return ('%s: expected %r, got %r' % ('secret-survives' if leaked else 'not-exact', exp, got))
        again = mp(got, mask)
        if again != got:
            return 'not-idempotent: masking the masked message %r gave %r' % (got, again)
        return None
    if kind == 'nokey':
        if got != msg:
            return 'nokey-changed: no sanitize key in the message but %r became %r' % (msg, got)
        return None
    if kind in ('corr', 'sub', 'lower'):
        # a disagreeing input handed over by the correspondence: apply the clauses that need no construction
        if not has_key(msg, SPEC_KEYS) and got != msg:
            return 'nokey-changed: no sanitize key in the message but %r became %r' % (msg, got)
        return None
    return None


def gen_nokey(rng):
    dom = domain()
    for _ in range(50):
        x = rng.random()
        if x < 0.4:
            m = gen_malformed(rng)
            # break every key occurrence (bounded; whatever survives is filtered by has_key below)
            for k in all_keys():
                for _ in range(20):
                    hit = re.search(re.escape(k), m, re.IGNORECASE)
                    if not hit:
                        break
                    m = m[:hit.start() + 1] + m[hit.start() + 2:]
        elif x < 0.7:
            m = ''.join(rng.choice(SOUP + WORDS + ['pass', 'word', 'tok', 'en', 'secre', 'key', 'ſecret', 'admin_'])
                        for _ in range(rng.randrange(1, 15)))
        else:
            m = ''.join(rng.choice(dom) for _ in range(rng.randrange(0, 30)))
        if not has_key(m):
            return {'kind': 'nokey', 'message': m, 'mask': gen_mask_text(rng)}
    return {'kind': 'nokey', 'message': 'nothing', 'mask': '***'}


def shrink_case(case):
    """Shrink message (and expected alongside) while the oracle still fails the same way."""
    why = oracle(case)
    if not why or case['kind'] != 'nokey':
        return case
    kindword = why.split(':')[0]

    def still(chars):
        c = dict(case, message=''.join(chars))
        if has_key(c['message']):
            return False
        w = oracle(c)
        return bool(w) and w.split(':')[0] == kindword
    small = common.shrink_list(list(case['message']), still)
    return dict(case, message=''.join(small))


def search(ctx, seeds, full=False):
    rng = ctx.rng
    fails = []           # failures outside every listed class (at most five, then the search stops)
    known = {}           # one example per listed finding class; these never use up the budget for new failures
    kinds = set()

    ids = listed_ids()
    listed = KF_WILDCARD in ids

    def check(case):
        ctx.evaluations += 1
        why = oracle(case)
        if why:
            kf = known_class(case, ids)
            k = kf or why.split(':')[0]
            ctx.count('search/fail/' + k)
            if kf:
                if kf not in known:
                    small = minimise(case)
                    known[kf] = Failure(small, {'kind': k, 'what': oracle(small)})
                return
            if k in kinds and len(fails) >= 3:
                return
            kinds.add(k)
            if case['kind'] != 'callseq' and fresh_oracle(case) is None:
                # fails here but not in a fresh interpreter: the result depends on the earlier calls of this run
                fails.append(Failure(dict(case, note='fails only after the earlier calls of this run'),
                                     {'kind': 'history-dependent', 'what': why}))
                return
            small = minimise(case)
            fails.append(Failure(small, {'kind': k, 'what': oracle(small) or why}))

    for s in seeds[:300]:
        check(s)
    # call sequences first: mask_password must be a function of its two arguments, whatever was masked before
    for _ in range((1500 if full else 150) if ctx.quick else (20000 if full else 3000)):
        check(gen_call_sequence(rng))
        if len(fails) >= 5:
            return fails + list(known.values())
    for _ in range((1000 if full else 120) if ctx.quick else (10000 if full else 2000)):
        check(gen_reentrant_case(rng))
        if len(fails) >= 5:
            return fails + list(known.values())
    n = (60000 if full else 4000) if ctx.quick else (400000 if full else 60000)
    keys = all_keys()
    # every key x form x rendering first (this is where a dropped key or an edited pattern shows)
    grid = [(k, f, r) for k in keys for f in FORMS4 for r in sorted(RENDERINGS)]
    rng.shuffle(grid)
    if not full and ctx.quick:
        grid = grid[:1200]
    for k, f, r in grid:
        check(gen_rendering_case(rng, key=k, rendering=r, form=f, nparts=1, strict=True))
        if len(fails) >= 5:
            return fails + list(known.values())
    for c in repeated_grid(rng, True, listed, (3 if full else 1) if ctx.quick else 10):
        check(c)
        if len(fails) >= 5:
            return fails + list(known.values())
    for i in range(n):
        x = rng.random()
        if x < 0.7:
            check(gen_rendering_case(rng, strict=True, allow_wildcard_class=listed and rng.random() < 0.1,
                                     allow_flagvalue_class=KF_FLAGVALUE in ids and rng.random() < 0.1,
                                     allow_nested_class=KF_NESTED in ids and rng.random() < 0.05))
        else:
            check(gen_nokey(rng))
        if len(fails) >= 5:
            break
    return fails + list(known.values())


def minimise(case):
    if case['kind'] == 'callseq':
        return shrink_callseq(case)
    if case.get('reenter'):
        return case                     # message text and the object's source text belong together: kept as found
    if case['kind'] == 'nokey':
        return shrink_case(case)
    if case['kind'] != 'render' or 'parts' not in case:
        return case
    kindword = oracle(case).split(':')[0]

    def fails_same(c):
        w = oracle(c)
        return bool(w) and w.split(':')[0] == kindword

    def variant(**kw):
        c = json.loads(json.dumps(case))
        c.update(kw)
        return assemble(c)
    # fewer renderings
    if len(case['parts']) > 1:
        for sub in ([p] for p in case['parts']):
            c = variant(parts=[dict(sub[0], sep='')])
            if fails_same(c):
                case = c
                break
        else:
            kept = common.shrink_list(case['parts'], lambda ps: fails_same(variant(parts=ps)))
            case = variant(parts=kept)
    # shorter surroundings, secrets (a non-empty subsequence of a secret stays in the value class), separators
    # (the whitespace that separates a bare value from what follows is part of the construction: kept)
    for field in ('pre', 'post'):
        if case[field]:
            keep = case[field][:1] if field == 'post' else ''
            if fails_same(variant(**{field: ''})):
                case = variant(**{field: ''})
            else:
                small = common.shrink_list(list(case[field][len(keep):]),
                                           lambda cs: fails_same(variant(**{field: keep + ''.join(cs)})))
                case = variant(**{field: keep + ''.join(small)})
    for i in range(len(case['parts'])):
        def with_value(chars, i=i):
            ps = json.loads(json.dumps(case['parts']))
            ps[i]['value'] = ''.join(chars)
            return variant(parts=ps)
        v = list(case['parts'][i]['value'])
        if len(v) > 1:
            small = common.shrink_list(v, lambda cs: bool(cs) and fails_same(with_value(cs)))
            case = with_value(small)
    return case


# The reviewed patterns of strutils.py:91-108 (the same twelve that Props/C04.lean `templates_as_reviewed` pins),
# compiled here so that recognising the listed class KF_C04_WILDCARD depends neither on private names of the
# implementation nor on the translator having succeeded.
REVIEWED_FORMATS = {
    '2': [r'(%(key)s[0-9]*\s*[=]\s*[\"\'])[^\"\']*([\"\'])',
          r'(%(key)s[0-9]*\s*[=]\s*[\"])[^\"]*([\"])',
          r'(%(key)s[0-9]*\s*[=]\s*[\'])[^\']*([\'])',
          r'(%(key)s[0-9]*\s+[\"\'])[^\"\']*([\"\'])',
          r'([-]{2}%(key)s[0-9]*\s+)[^\'\"=\s]+([\s]*)',
          r'(<%(key)s[0-9]*>)[^<]*(</%(key)s[0-9]*>)',
          r'([\"\']%(key)s[0-9]*[\"\']\s*:\s*[\"\'])[^\"\']*([\"\'])',
          r'([\'"][^"\']*%(key)s[0-9]*[\'"]\s*:\s*u?[\'"])[^\"\']*([\'"])',
          r'([\'"][^\'"]*%(key)s[0-9]*[\'"]\s*,\s*\'--?[A-z]+\'\s*,\s*u?[\'"])[^\"\']*([\'"])',
          r'(%(key)s[0-9]*\s*--?[A-z]+\s*)\S+(\s*)'],
    '1': [r'(%(key)s[0-9]*\s*[=]\s*)[^\s\'\"]+'],
    'W': [r'([\'\"][^\"\']*%(key)s[0-9]*[\'\"]\s*:\s*u?[\'\"].*[\'\"])[^\"\']*([\'\"])'],
}
_reviewed = {}


def reviewed_patterns(key):
    if key not in _reviewed:
        _reviewed[key] = {g: [re.compile(f % {'key': key}, re.DOTALL | re.IGNORECASE) for f in fs]
                          for g, fs in REVIEWED_FORMATS.items()}
    return _reviewed[key]


def reference_loop(message, mask, wildcard):
    """The documented loop of mask_password over the REVIEWED patterns, with or without the WILDCARD step
    (used only to recognise the listed class KF_C04_WILDCARD)."""
    for key in all_keys():
        if key in message.lower():
            pats = reviewed_patterns(key)
            for p in pats['2']:
                message = p.sub(r'\g<1>' + mask + r'\g<2>', message)
            for p in pats['1']:
                message = p.sub(r'\g<1>' + mask, message)
            if wildcard:
                for p in pats['W']:
                    message = p.sub(r'\g<1>', message)
    return message


def in_wildcard_class(case):
    """The listed class KF_C04_WILDCARD: a colon-quoted rendering is followed later in the message by a quote
    character, the code's PATTERNS_2/PATTERNS_1 steps without the WILDCARD step give exactly the expected string,
    and the actual result is what those steps plus the WILDCARD step give."""
    if case.get('kind') != 'render' or 'parts' not in case:
        return False
    later = case['post']
    structural = False
    for p in reversed(case['parts']):
        if p['rendering'] in COLON and ('"' in later or "'" in later):
            structural = True
        later = p['head'] + p['value'] + p['tail'] + p['sep'] + later
    if not structural:
        return False
    mask = case.get('mask', '***')
    try:
        got = strutils().mask_password(case['message'], mask)
        return got != case['expected'] and reference_loop(case['message'], mask, False) == case['expected'] \
            and got == reference_loop(case['message'], mask, True)
    except Exception:
        return False


def known_class(case, ids):
    """The listed finding class a failing rendering case falls into, if any."""
    if case.get('kind') != 'render' or 'parts' not in case:
        return None
    if KF_NESTED in ids and any(contains_key_ci(p['value']) for p in case['parts']):
        return KF_NESTED
    if KF_FLAGVALUE in ids and any(in_flagvalue_class(p['rendering'], p['key'], p['value']) for p in case['parts']):
        return KF_FLAGVALUE
    if KF_WILDCARD in ids and in_wildcard_class(case):
        return KF_WILDCARD
    return None


def classify(ctx, failure, listed_findings):
    return known_class(failure.case, {f['id'] for f in listed_findings})


def witness_reproduces(ctx, finding):
    w = finding.get('witness', {})
    if finding.get('id') in (KF_WILDCARD, KF_FLAGVALUE, KF_NESTED) and 'message' in w and 'expected' in w:
        return strutils().mask_password(w['message'], w.get('mask', '***')) != w['expected']
    return False


def replay(ctx, payload):
    case = payload.get('failure', {}).get('case') or payload.get('case')
    if not case:
        print('nothing to replay: this file names the obligation that no longer checks:')
        print(json.dumps(payload.get('no_longer_checks'), indent=1)[:4000])
        return 0
    if case.get('kind') == 'callseq':
        bad = 0
        for i, st in enumerate(case['steps']):
            why = oracle(st)
            print('call %d: message %r mask %r' % (i, st['message'], st.get('mask', '***')))
            print('   expected      :', repr(st.get('expected')))
            print('   implementation:', repr(show(impl_mask(st['message'], st.get('mask', '***')))))
            print('   model         :', repr(show(ctx.driver.ask(req('mask', hexs(st['message']),
                                                                       hexs(st.get('mask', '***')))))))
            print('   property oracle:', why)
            bad += bool(why)
        return 1 if bad else 0
    msg, mask = case['message'], case.get('mask', '***')
    print('message       :', repr(msg))
    print('mask          :', repr(mask))
    if 'expected' in case:
        print('expected      :', repr(case['expected']))
    if case.get('kind') == 'sub':
        print('implementation:', repr(show(impl_sub(case['list'], case['index'], case['key'], msg, mask))))
        print('model         :', repr(show(ctx.driver.ask(req('sub', case['list'], case['index'], hexs(case['key']),
                                                               hexs(msg), hexs(mask))))))
    else:
        if case.get('reenter'):
            print('message object: re-enters the library while rendered:', case['reenter'])
        print('implementation:', repr(show(impl_mask(make_message(case), mask))))
        print('model         :', repr(show(ctx.driver.ask(req('mask', hexs(msg), hexs(mask))))))
    why = oracle(case)
    print('property oracle on the implementation:', why)
    return 1 if why else 0


LEVEL_TEXT = ('Machine-checked proof (Lean 4) over a flat-regex model whose key list and twelve pattern templates are '
              'generated from the live compiled patterns on every run. Full strength: mask_nokey_id (no sanitize key in '
              'lower(message) => unchanged, all messages and masks), sanitize_keys_cover_spec (35 keys), '
              'templates_as_reviewed (any edited/added/removed/reordered pattern breaks it). Per rendering: for all eleven '
              'renderings (key=value bare / quoted / "..." / \'...\', key "value", --key value, <key>value</key>, '
              '"key": "value", "prefix_key": u"value", the command-list and key --flag value forms) the substitution of the '
              'responsible pattern is proved to replace exactly the value, for every key, spelling, digit suffix, secret over '
              'the template\'s value class, mask and surroundings (mask_rendering_<r>_partial = one pattern only; the '
              'backtracking of [^"\']* in front of the key included). For the bare key=value and the quoted key="value" '
              'renderings the result is lifted to mask_password as a whole (all twelve patterns of the key, the loop over '
              'all keys) under the single-key hypothesis: mask_rendering_eq_bare_partial, mask_rendering_eq_quoted_partial, '
              'with idempotence on the masked message. The three listed '
              'findings are reproduced by the model on their witnesses (known_finding_*_witness). The model is tied to '
              're / mask_password by a differential correspondence (about 5 000 / 196 000 messages per run).')
LEVEL_NOTE = ('Partial: nine of eleven renderings are proved for their one responsible substitution only, and the two lifted '
              'theorems (eq_bare, eq_quoted) assume that no other sanitize key occurs in the message (so keys containing other keys and '
              'multi-secret messages are covered by correspondence and search, not by a theorem). Trusted: Lean kernel; '
              'the translator and the hand-written flat regex engine (validated against re on every run); CPython re / '
              'str.lower semantics outside the stated character domain; masks containing a backslash are unmodelled. '
              'Known findings KF_C04_WILDCARD, KF_C04_FLAGVALUE, KF_C04_NESTED are excluded as explicit hypotheses.')
TECHNIQUE = 'Lean 4 theorems over a flat-regex model generated from the live patterns + model/implementation correspondence'
DESIGN_REF = 'DESIGN.md section 5, C04'
