/-
Model of oslo_utils.strutils.string_to_bytes (strutils.py:30-58 tables, 193-265 code)
and of oslo_utils.imageutils.qemu.QemuImgInfo._extract_bytes (qemu.py:52-54 SIZE_RE,
116-135; the 'None'/'unavailable' rule of _extract_details, 145-149).

Text is `List Char`.  The tables (UNIT_PREFIX_EXPONENT, the base and the prefix
character class of each compiled unit regex, Python's ASCII `\s` set) come from
`OsloModel/Generated/C10.lean`, written from the live modules on every run.

Arithmetic is exact: a quantity is an unnormalised fraction `num / den`
(`num : Int`, `den : Nat`, `den > 0`).  Python computes in binary64; the model
follows the *control flow* that binary64 adds (a magnitude or product beyond the
binary64 range becomes `inf`, and `math.ceil(inf)` raises OverflowError; a value
below the smallest normal number loses its digits) by classifying the exact
quantity against the two range bounds, and never models rounding inside the
normal range (the harness applies the float rule of DESIGN.md section 4 there).
-/
import OsloModel.Generated.C10
namespace Oslo.Units
open Oslo.Generated.C10

inductive Err
  | valueError
  | overflowError   -- math.ceil(inf): magnitude beyond binary64 with return_int
  | keyError        -- prefix admitted by the regex but absent from UNIT_PREFIX_EXPONENT (finding D5)
  | typeError       -- pow(None, e): a non-mixed system without a base
  | bytesWarning    -- python -bb: `"%s" % (unit_system,)` on a bytes value while building the message
  deriving DecidableEq, Repr

inductive Outcome
  /-- a float whose exact value is `num/den` up to binary64 rounding (inside the normal range, or zero) -/
  | float (num : Int) (den : Nat)
  /-- `return_int=True`: an int -/
  | int (n : Int)
  /-- `float('inf')` / `float('-inf')`: the magnitude or the product is beyond binary64 -/
  | inf (neg : Bool)
  /-- non-zero quantity below the smallest normal binary64 number (exact value `num/den`):
      Python returns a denormal approximation or zero; its digits are not modelled -/
  | tiny (num : Int) (den : Nat)
  /-- qemu only: e-notation magnitude that is not an integer below 2^53
      (`format(float(m), '.0f')` rounds in binary64; not modelled) -/
  | unmodelled
  deriving DecidableEq, Repr

/-! ### characters and spans -/

def isDigit (c : Char) : Bool := 48 ≤ c.toNat && c.toNat ≤ 57

def digitVal (c : Char) : Nat := c.toNat - 48

/-- decimal value of a digit string (most significant first); `[]` is 0 -/
def natOfDigits (ds : List Char) : Nat := ds.foldl (fun a c => 10 * a + digitVal c) 0

def takeP (p : Char → Bool) : List Char → List Char
  | [] => []
  | c :: cs => if p c then c :: takeP p cs else []

def dropP (p : Char → Bool) : List Char → List Char
  | [] => []
  | c :: cs => if p c then dropP p cs else c :: cs

/-- The match `\d*\.?\d+` selects at the start of `s` (greedy, with the regex's
    backtracking: "12." and "12.x" give "12"): integer digits, fraction digits when
    the dot is consumed, and the rest.  `none` when it cannot match here. -/
def parseNumberAux (d1 r1 : List Char) : Option (List Char × Option (List Char) × List Char) :=
  match r1 with
  | '.' :: r2 =>
    if takeP isDigit r2 ≠ [] then some (d1, some (takeP isDigit r2), dropP isDigit r2)
    else if d1 ≠ [] then some (d1, none, r1) else none
  | _ => if d1 ≠ [] then some (d1, none, r1) else none

def parseNumber (s : List Char) : Option (List Char × Option (List Char) × List Char) :=
  parseNumberAux (takeP isDigit s) (dropP isDigit s)

/-- `[-+]?` -/
def splitSign : List Char → Bool × List Char
  | '-' :: r => (true, r)
  | '+' :: r => (false, r)
  | s => (false, s)

/-- `([<letters>]i?)?` — no letter of a class is `b`, `B` or `i` (checked by the
    translator), so the optional group is taken exactly when a class letter is next -/
def parsePrefix (letters : List Char) (optI : Bool) : List Char → List Char × List Char
  | [] => ([], [])
  | c :: r =>
    if letters.contains c then
      match optI, r with
      | true, 'i' :: r' => ([c, 'i'], r')
      | _, _ => ([c], r)
    else ([], c :: r)

inductive UnitKind | bit | byte
  deriving DecidableEq, Repr

/-- `(b|bit|B)` followed by the end anchor, against the whole rest.  `nlOk` says which anchor the
    compiled regex has (generated per unit system): `$` also matches before one final newline
    (`nlOk = true`, former finding N3-trailing-newline), `\Z` only at the very end. -/
def parseUnit (nlOk : Bool) : List Char → Option UnitKind
  | ['b'] => some .bit
  | ['b', '\n'] => if nlOk then some .bit else none
  | ['b', 'i', 't'] => some .bit
  | ['b', 'i', 't', '\n'] => if nlOk then some .bit else none
  | ['B'] => some .byte
  | ['B', '\n'] => if nlOk then some .byte else none
  | _ => none

/-! ### tables -/

def lookupSys (sys : List Char) : Option (Option Nat × List Char × Bool × Bool) :=
  (unitSystemInfo.find? (fun e => e.1 == sys)).map (·.2)

def lookupExp (pfx : List Char) : Option Nat :=
  (unitPrefixExponent.find? (fun e => e.1 == pfx)).map (·.2)

/-! ### binary64 range -/

/-- the least magnitude that rounds to infinity: 2^1024 − 2^970 (half an ulp above DBL_MAX) -/
def dblOverflow : Nat := 2 ^ 1024 - 2 ^ 970

/-- `|num/den| ≥ dblOverflow` -/
def isHuge (num : Int) (den : Nat) : Bool := decide (dblOverflow * den ≤ num.natAbs)

/-- `0 < |num/den| < 2^-1022` -/
def isTiny (num : Int) (den : Nat) : Bool := num ≠ 0 && decide (num.natAbs * 2 ^ 1022 < den)

/-- ceiling of `num/den` for `den > 0` -/
def ceilDiv (num : Int) (den : Nat) : Int := -((-num) / (den : Int))

def unitDiv : UnitKind → Nat
  | .bit => 8
  | .byte => 1

def fracDigits : Option (List Char) → List Char
  | some d => d
  | none => []

/-- lines 243-252: base by system; in mixed mode by the prefix's last letter -/
def chooseBase (sys : List Char) (tableBase : Option Nat) (pfx : List Char) : Option Nat :=
  if sys = ['m', 'i', 'x', 'e', 'd'] then
    (if pfx ≠ [] ∧ pfx.getLast? ≠ some 'i' then some 1000 else some 1024)
  else tableBase

/-- lines 258-261: `1` without a prefix, else `pow(base, UNIT_PREFIX_EXPONENT[prefix])` -/
def multiplier (sys : List Char) (tableBase : Option Nat) (pfx : List Char) : Except Err Nat :=
  if pfx = [] then .ok 1
  else match lookupExp pfx with
    | none => .error .keyError
    | some e =>
      match chooseBase sys tableBase pfx with
      | none => .error .typeError
      | some b => .ok (b ^ e)

/-- What Python returns for the exact quantity `num/den`, the magnitude being `mnum/mden`
    (`den = mden * (8 or 1)`, `|num| = mnum * multiplier`): `float(text)` overflows when the
    magnitude does, the product when the quantity does; the quantity is below the normal range
    exactly when `magnitude / (8 or 1)` is (the multiplier is at least 1). -/
def finish (returnInt neg : Bool) (mnum mden : Nat) (num : Int) (den : Nat) : Except Err Outcome :=
  if isHuge mnum mden || isHuge num den then
    (if returnInt then .error .overflowError else .ok (.inf neg))
  else if isTiny mnum den then .ok (.tiny num den)
  else if returnInt then .ok (.int (ceilDiv num den))
  else .ok (.float num den)

/-- lines 239-264 once the text has matched: magnitude digits `d1[.d2]`, prefix, unit -/
def compute (sys : List Char) (tableBase : Option Nat) (returnInt neg : Bool)
    (d1 : List Char) (d2 : Option (List Char)) (pfx : List Char) (u : UnitKind) : Except Err Outcome :=
  match multiplier sys tableBase pfx with
  | .error e => .error e
  | .ok mult =>
    -- magnitude = ±mant/mden; `magnitude /= 8` for bit units
    finish returnInt neg (natOfDigits (d1 ++ fracDigits d2)) (10 ^ (fracDigits d2).length)
      ((if neg then -1 else 1) * ((natOfDigits (d1 ++ fracDigits d2) * mult : Nat) : Int))
      (10 ^ (fracDigits d2).length * unitDiv u)

/-- `strutils.string_to_bytes(text, unit_system, return_int)`.
    (Projections instead of pattern-`let`s: `info = (base, letters, optI, nlOk)`, `num = (d1, d2, rest)`.) -/
def stringToBytes (sys text : List Char) (returnInt : Bool) : Except Err Outcome :=
  match lookupSys sys with
  | none => .error .valueError                      -- lines 232-236
  | some info =>
    match parseNumber (splitSign text).2 with
    | none => .error .valueError                    -- lines 254-256
    | some num =>
      match parseUnit info.2.2.2 (parsePrefix info.2.1 info.2.2.1 num.2.2).2 with
      | none => .error .valueError
      | some u =>
        compute sys info.1 returnInt (splitSign text).1 num.1 num.2.1
          (parsePrefix info.2.1 info.2.2.1 num.2.2).1 u

/-- The `unit_system` argument as a caller can pass it: left out (the parameter's default applies),
    a str, or any other hashable value (`None`, `0`, `False`, `b'IEC'`, `('IEC',)`, `1.0`, …). -/
inductive SysArg
  | omitted
  | str (s : List Char)
  | other
  /-- a tuple whose length is not 1 -/
  | badTuple
  deriving DecidableEq, Repr

/-- `string_to_bytes(text[, unit_system][, return_int])` for every kind of `unit_system` argument.
    `UNIT_SYSTEM_INFO[unit_system]` (line 233) has str keys only, so a value that is not a str is a
    KeyError, re-raised as ValueError (lines 234-236).  Building the message with an unwrapped
    `... % unit_system` would itself raise TypeError for a tuple of length other than 1 (`%` takes a
    tuple as the argument list; repaired by `% (unit_system,)`): the translator probes the live function
    and records which way it goes in `tupleMessageFails`.  The default comes from the live signature. -/
def stringToBytesArg (a : SysArg) (text : List Char) (returnInt : Bool) : Except Err Outcome :=
  match a with
  | .str s => stringToBytes s text returnInt
  | .other => .error .valueError
  | .badTuple => if tupleMessageFails then .error .typeError else .error .valueError
  | .omitted =>
    match defaultUnitSystem with
    | some s => stringToBytes s text returnInt
    | none => .error .valueError

/-- `unit_system` is a bytes (or bytearray) value: unknown like any other non-str value, but the message
    `_('Invalid unit system: "%s"') % (unit_system,)` (line 236) calls `str()` on it, which raises
    BytesWarning when the interpreter runs with `-bb` — an implicit input of the call, passed in here. -/
def stringToBytesBytesSys (bytesWarningIsError : Bool) : Except Err Outcome :=
  if bytesWarningIsError then .error .bytesWarning else .error .valueError

/-- The `return_int` argument as a caller can pass it: left out, or any object — of which only the
    truth value matters (`if return_int:`, line 263): `1`, `'yes'`, `(0,)`, a truthy object count as
    true; `0`, `''`, `()`, `None`, a falsy object as false. -/
inductive FlagArg
  | omitted
  | obj (truthy : Bool)
  deriving DecidableEq, Repr

def flagTruth : FlagArg → Bool
  | .omitted => defaultReturnInt
  | .obj t => t

/-- the whole call `string_to_bytes(text[, unit_system][, return_int])` -/
def stringToBytesCall (a : SysArg) (text : List Char) (f : FlagArg) : Except Err Outcome :=
  stringToBytesArg a text (flagTruth f)

/-! ### QemuImgInfo._extract_bytes -/

def isSpace (c : Char) : Bool := reSpaceAscii.contains c.toNat

def isWord (c : Char) : Bool :=
  isDigit c || (65 ≤ c.toNat && c.toNat ≤ 90) || (97 ≤ c.toNat && c.toNat ≤ 122) || c == '_'

inductive Mag
  /-- `[0-9]+[eE][-+][0-9]+` -/
  | sci (digits : List Char) (expNeg : Bool) (expDigits : List Char)
  /-- `\d*\.?\d+` -/
  | dec (d1 : List Char) (d2 : Option (List Char))
  deriving DecidableEq, Repr

/-- first alternative of group 1 at the start of `s` (`d` the leading digits, `r` what follows them) -/
def parseSci (d r : List Char) : Option (Mag × List Char) :=
  match r with
  | e :: sg :: r2 =>
    if d ≠ [] ∧ (e = 'e' ∨ e = 'E') ∧ (sg = '-' ∨ sg = '+') ∧ takeP isDigit r2 ≠ [] then
      some (.sci d (sg == '-') (takeP isDigit r2), dropP isDigit r2)
    else none
  | _ => none

/-- group 1 of SIZE_RE at the start of `s`: first alternative first -/
def parseMag (s : List Char) : Option (Mag × List Char) :=
  match parseSci (takeP isDigit s) (dropP isDigit s) with
  | some x => some x
  | none =>
    match parseNumber s with
    | some num => some (.dec num.1 num.2.1, num.2.2)
    | none => none

/-- `SIZE_RE.search`: leftmost position at which group 1 matches (the rest of the pattern is optional) -/
def findMag : List Char → Option (Mag × List Char)
  | [] => none
  | c :: r =>
    match parseMag (c :: r) with
    | some x => some x
    | none => findMag r

/-- a case-insensitive (ASCII) `bytes` at the start -/
def stripBytesWord : List Char → Option (List Char)
  | b :: y :: t :: e :: s :: r =>
    if (b = 'b' ∨ b = 'B') ∧ (y = 'y' ∨ y = 'Y') ∧ (t = 't' ∨ t = 'T') ∧ (e = 'e' ∨ e = 'E') ∧
       (s = 's' ∨ s = 'S') then some r else none
  | _ => none

/-- group 3, `\s*\(\s*(\d+)\s+bytes\s*\)`, at the start of `s`: the digits of group 4 -/
def parseBytesInfo (s : List Char) : Option (List Char) :=
  match dropP isSpace s with
  | '(' :: r1 =>
    -- digits, then at least one space, then `bytes`, spaces, `)`
    if takeP isDigit (dropP isSpace r1) ≠ [] ∧ takeP isSpace (dropP isDigit (dropP isSpace r1)) ≠ [] then
      match stripBytesWord (dropP isSpace (dropP isDigit (dropP isSpace r1))) with
      | some r5 =>
        match dropP isSpace r5 with
        | ')' :: _ => some (takeP isDigit (dropP isSpace r1))
        | _ => none
      | none => none
    else none
  | _ => none

/-- the magnitude text handed on (lines 121-123); `none` = e-notation outside the modelled domain -/
def magText : Mag → Option (List Char)
  | .dec d1 none => some d1
  | .dec d1 (some d2) => some (d1 ++ '.' :: d2)
  | .sci ds expNeg es =>
    let d := natOfDigits ds
    let e := natOfDigits es
    if d = 0 then some ['0']                              -- float('0e±N') = 0.0 whatever N
    else if expNeg then
      -- an integer only if 10^e divides d, impossible when e exceeds the number of digits
      if e ≤ ds.length ∧ d % 10 ^ e = 0 ∧ d / 10 ^ e < 2 ^ 53 then some (Nat.toDigits 10 (d / 10 ^ e))
      else none
    else
      -- 10^16 > 2^53
      if e ≤ 15 ∧ d * 10 ^ e < 2 ^ 53 then some (Nat.toDigits 10 (d * 10 ^ e)) else none

/-- `int(magnitude)` (line 128): digits only -/
def intOfText (t : List Char) : Except Err Outcome :=
  if t ≠ [] ∧ t.all isDigit then .ok (.int (natOfDigits t)) else .error .valueError

/-- how `_extract_bytes` obtains its result: directly, or by handing a text to `string_to_bytes` -/
inductive Step
  | done (r : Except Err Outcome)
  | viaS2b (text : List Char)

/-- lines 121-135 once SIZE_RE has matched: `mag` group 1, `r` the text after it -/
def extractAfter (mag : Mag) (r : List Char) : Step :=
  -- group 2 is `takeP isWord (dropP isSpace r)`, group 3 is looked for after it
  match parseBytesInfo (dropP isWord (dropP isSpace r)) with
  | some n => .done (.ok (.int (natOfDigits n)))             -- lines 125-126: "(N bytes)" wins
  | none =>
    match magText mag with
    | none => .done (.ok .unmodelled)
    | some m =>
      if takeP isWord (dropP isSpace r) = [] then .done (intOfText m)     -- lines 127-128
      else
        -- lines 129-135: "K" means "KB"
        .viaS2b (m ++ (if (takeP isWord (dropP isSpace r)).length = 1 ∧ takeP isWord (dropP isSpace r) ≠ ['B']
                       then takeP isWord (dropP isSpace r) ++ ['B'] else takeP isWord (dropP isSpace r)))

def extractStep (details : List Char) : Step :=
  match findMag details with
  | none => .done (.error .valueError)                       -- lines 118-120
  | some found => extractAfter found.1 found.2

/-- `QemuImgInfo._extract_bytes(details)` -/
def extractBytes (details : List Char) : Except Err Outcome :=
  match extractStep details with
  | .done r => r
  | .viaS2b text => stringToBytes ['I', 'E', 'C'] text true

/-- `_extract_details` for virtual_size / cluster_size / disk_size (lines 145-149) -/
def isUnavailable (details : List Char) : Bool :=
  details = ['N', 'o', 'n', 'e'] || details = ['u', 'n', 'a', 'v', 'a', 'i', 'l', 'a', 'b', 'l', 'e']

def sizeField (details : List Char) : Except Err Outcome :=
  if isUnavailable details then .ok (.int 0) else extractBytes details

end Oslo.Units
