/-
Byte helpers and the capture engine of
oslo_utils/imageutils/format_inspector.py (CaptureRegion 42-93, EndCaptureRegion 96-123).
-/
namespace Oslo.Insp

abbrev Bytes := List UInt8

/-- error kinds an inspector call can end in -/
inductive Err
  | imageFormat | struct | key | runtime | value | fuel
  deriving DecidableEq, Repr

/-- Python `b[a:e]` for non-negative `a`, `e` -/
def slice (b : Bytes) (a e : Nat) : Bytes := (b.take e).drop a

/-- little-endian / big-endian unsigned value of a byte string -/
def leNat (b : Bytes) : Nat := b.foldr (fun x acc => x.toNat + 256 * acc) 0
def beNat (b : Bytes) : Nat := b.foldl (fun acc x => acc * 256 + x.toNat) 0

/-- `struct.unpack` of one unsigned little/big-endian field of `n` bytes: wrong length is an error -/
def unpackLE (n : Nat) (b : Bytes) : Except Err Nat :=
  if b.length = n then .ok (leNat b) else .error .struct
def unpackBE (n : Nat) (b : Bytes) : Except Err Nat :=
  if b.length = n then .ok (beNat b) else .error .struct

/-- `b.startswith(p)` -/
def startsWith (b p : Bytes) : Bool := b.take p.length == p

/-- Python `data[0 - n:]` (for `n = 0` this is the whole string) -/
def lastN (n : Nat) (d : Bytes) : Bytes := if n = 0 then d else d.drop (d.length - n)

def ascii (s : String) : Bytes := s.toList.map (fun c => UInt8.ofNat c.toNat)

structure Region where
  rid : Nat                 -- object identity (regions are compared by identity in eat_chunk)
  offset : Nat
  length : Nat
  minLength : Option Nat
  data : Bytes
  isEnd : Bool              -- EndCaptureRegion
  endDone : Bool            -- EndCaptureRegion._complete
  deriving DecidableEq, Repr

/-- `complete` (lines 65-71, 117-119) -/
def Region.complete (r : Region) : Bool :=
  let base := match r.minLength with
    | some m => decide (m ≤ r.data.length)
    | none => decide (r.length = r.data.length)
  if r.isEnd then base && r.endDone else base

/-- `capture(chunk, current_position)` (lines 73-93, 112-115); `pos` is the position *after* the chunk -/
def Region.capture (r : Region) (chunk : Bytes) (pos : Nat) : Region :=
  if r.isEnd then
    let d := lastN r.length (r.data ++ chunk)
    { r with data := d, offset := pos - d.length }
  else
    let readStart := pos - chunk.length
    if (readStart ≤ r.offset ∧ r.offset ≤ pos) ∨
       (r.offset ≤ readStart ∧ readStart ≤ r.offset + r.length) then
      let leadGap := if readStart < r.offset then r.offset - readStart else 0
      { r with data := (r.data ++ chunk.drop leadGap).take r.length }
    else r

/-- `finish()` of a region (only EndCaptureRegion has one) -/
def Region.finish (r : Region) : Region := if r.isEnd then { r with endDone := true } else r

/-- a plain region fed a list of chunks from position `pos`, under FileInspector._capture's
    skip-when-complete rule -/
def Region.feed (r : Region) (pos : Nat) : List Bytes → Region
  | [] => r
  | c :: cs =>
    let pos' := pos + c.length
    let r' := if r.isEnd || !r.complete then r.capture c pos' else r
    Region.feed r' pos' cs

end Oslo.Insp
