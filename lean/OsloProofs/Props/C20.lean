/-
C20 — file helpers agree with whole-file semantics and are idempotent.

Property theorems over OsloModel/File.lean.  Helper lemmas are `lemma_…`.
Every theorem quantifies over all contents (`Bytes = List UInt8`), all chunk
sizes, all hashes `(σ, upd, fin, init)` obeying the streaming law, all `n`,
all outcomes of the OS call (success / any exception with any errno) and both
answers of `os.path.isdir`.
-/
import OsloModel.File
namespace Oslo.File

deriving instance DecidableEq for Except      -- only used by the concrete `example`s

/-! ### the hash is a parameter: what "law-abiding" means -/

/-- `h.update(a); h.update(b)` is `h.update(a + b)`, and `h.update(b'')` changes nothing -/
structure Lawful {σ : Type} (upd : σ → Bytes → σ) : Prop where
  append : ∀ s a b, upd (upd s a) b = upd s (a ++ b)
  empty : ∀ s, upd s [] = s

/-- non-vacuity: the driver's rolling hash obeys the law … -/
theorem toy_lawful : Lawful toyUpdate :=
  ⟨fun s a b => by simp [toyUpdate, List.foldl_append], fun s => rfl⟩

/-- … and is not a constant: it sees content, order and length -/
example : toyUpdate toyInit [1, 2] ≠ toyUpdate toyInit [2, 1] ∧
    toyUpdate toyInit [0] ≠ toyUpdate toyInit [0, 0] ∧
    toyUpdate toyInit [1, 2, 3] = ⟨2000015000031, 3⟩ := by decide

/-! ### the chunk loop -/

/-- lengths of the chunks a file of `size` bytes is read in with chunk size `cs`:
    `size / cs` full chunks, then the remainder if there is one -/
def lensSpec (cs size : Nat) : List Nat :=
  List.replicate (size / cs) cs ++ (if size % cs = 0 then [] else [size % cs])

theorem lemma_lensSpec_step (cs size : Nat) (hcs : 1 ≤ cs) (hs : 1 ≤ size) :
    lensSpec cs size = min cs size :: lensSpec cs (size - cs) := by
  by_cases h : cs ≤ size
  · have h1 : size / cs = (size - cs) / cs + 1 := Nat.div_eq_sub_div (by omega) h
    have h2 : size % cs = (size - cs) % cs := Nat.mod_eq_sub_mod h
    simp [lensSpec, h1, h2, List.replicate_succ, Nat.min_eq_left h]
  · have h1 : size / cs = 0 := Nat.div_eq_of_lt (by omega)
    have h2 : size % cs = size := Nat.mod_eq_of_lt (by omega)
    have h3 : size - cs = 0 := by omega
    have h4 : min cs size = size := by omega
    have h5 : size ≠ 0 := by omega
    simp [lensSpec, h1, h2, h3, h4, h5]

theorem lemma_readChunks_n (cs : Nat) (hcs : 1 ≤ cs) :
    ∀ (fuel : Nat) (rest : Bytes) (acc : List Bytes), rest.length < fuel →
      ∃ chunks, readChunks (.n cs) fuel rest acc = some (acc.reverse ++ chunks) ∧
        chunks.flatten = rest ∧ (∀ c ∈ chunks, c ≠ [] ∧ c.length ≤ cs) ∧
        chunks.map List.length = lensSpec cs rest.length := by
  intro fuel
  induction fuel with
  | zero => intro rest acc h; omega
  | succ fuel ih =>
    intro rest acc h
    cases rest with
    | nil => exact ⟨[], by simp [readChunks, readOnce, lensSpec]⟩
    | cons b bs =>
      obtain ⟨k, rfl⟩ : ∃ k, cs = k + 1 := ⟨cs - 1, by omega⟩
      obtain ⟨chunks, h1, h2, h3, h4⟩ :=
        ih ((b :: bs).drop (k + 1)) ((b :: bs).take (k + 1) :: acc)
          (by simp only [List.length_drop, List.length_cons] at *; omega)
      refine ⟨(b :: bs).take (k + 1) :: chunks, ?_, ?_, ?_, ?_⟩
      · simp only [readChunks, readOnce]
        simp only [List.take_succ_cons, List.isEmpty_cons, Bool.false_eq_true, if_false]
        simpa using h1
      · simp only [List.flatten_cons, h2, List.take_append_drop]
      · intro c hc
        rcases List.mem_cons.mp hc with rfl | hc
        · simp [List.length_take]; omega
        · exact h3 c hc
      · rw [lemma_lensSpec_step (k + 1) (b :: bs).length hcs (by simp)]
        simp only [List.map_cons, h4, List.length_take, List.length_drop]

/-- **Chunks** — reading a file with any chunk size ≥ 1 terminates (the fuel is never
    exhausted), feeds only non-empty chunks of at most `cs` bytes, of lengths
    `cs, …, cs, size mod cs`, and their concatenation is the content. -/
theorem chunks_flatten (content : Bytes) (cs : Nat) (hcs : 1 ≤ cs) :
    ∃ chunks, fileChunks (.n cs) content = some chunks ∧ chunks.flatten = content ∧
      (∀ c ∈ chunks, c ≠ [] ∧ c.length ≤ cs) ∧
      chunks.map List.length = lensSpec cs content.length := by
  simpa [fileChunks] using lemma_readChunks_n cs hcs (content.length + 1) content [] (by omega)

example : fileChunks (.n 2) [1, 2, 3, 4, 5] = some [[1, 2], [3, 4], [5]] ∧
    fileChunks (.n 5) [1, 2, 3, 4, 5] = some [[1, 2, 3, 4, 5]] ∧
    fileChunks (.n 9) [1, 2, 3] = some [[1, 2, 3]] ∧ lensSpec 4096 8193 = [4096, 4096, 1] := by decide

/-- `read_chunksize=None` / `-1`: one read returns everything -/
theorem chunks_read_all (content : Bytes) :
    fileChunks .all content = some (if content = [] then [] else [content]) := by
  cases content with
  | nil => simp [fileChunks, readChunks, readOnce]
  | cons b bs => simp [fileChunks, readChunks, readOnce]

/-- outside the property (chunk size ≥ 1): with `read_chunksize=0` the first read is
    empty, nothing is fed — the code returns the digest of the empty string -/
theorem chunks_zero (content : Bytes) : fileChunks (.n 0) content = some [] := by
  simp [fileChunks, readChunks, readOnce]

/-- feeding a lawful hash any chunking of a byte string is feeding it the string -/
theorem checksum_any_chunking {σ : Type} (upd : σ → Bytes → σ) (law : Lawful upd)
    (chunks : List Bytes) (s : σ) : chunks.foldl upd s = upd s chunks.flatten := by
  induction chunks generalizing s with
  | nil => simp [law.empty]
  | cons c cs ih => simp [ih, law.append]

/-- **Checksum** — for every content, every chunk size ≥ 1 and every law-abiding hash,
    compute_file_checksum returns the digest of the whole content (and does return). -/
theorem checksum_chunk_independent {σ δ : Type} (upd : σ → Bytes → σ) (fin : σ → δ) (init : σ)
    (law : Lawful upd) (content : Bytes) (cs : Nat) (hcs : 1 ≤ cs) :
    computeChecksum upd fin init true (some content) (some (cs : Int)) =
      .ok (fin (upd init content)) := by
  obtain ⟨chunks, h1, h2, _, _⟩ := chunks_flatten content cs hcs
  have harg : readArg (some (cs : Int)) = .ok (.n cs) := by
    have : ¬ ((cs : Int) = -1) := by omega
    have : ¬ ((cs : Int) < 0) := by omega
    simp [readArg, *]
  simp [computeChecksum, harg, h1, checksum_any_chunking upd law, h2]

/-- the same for `read_chunksize=None` and `-1` -/
theorem checksum_read_all {σ δ : Type} (upd : σ → Bytes → σ) (fin : σ → δ) (init : σ)
    (law : Lawful upd) (content : Bytes) (cs : Option Int) (hcs : cs = none ∨ cs = some (-1)) :
    computeChecksum upd fin init true (some content) cs = .ok (fin (upd init content)) := by
  have harg : readArg cs = .ok .all := by rcases hcs with rfl | rfl <;> simp [readArg]
  cases content with
  | nil => simp [computeChecksum, harg, chunks_read_all, law.empty]
  | cons b bs => simp [computeChecksum, harg, chunks_read_all]

/-- the default chunk size of the signature is in the theorem's range -/
theorem checksum_default_chunk {σ δ : Type} (upd : σ → Bytes → σ) (fin : σ → δ) (init : σ)
    (law : Lawful upd) (content : Bytes) :
    computeChecksum upd fin init true (some content) (some Gen.defaultChunk) =
      .ok (fin (upd init content)) := by
  have h : Gen.defaultChunk = ((Gen.defaultChunk.toNat : Nat) : Int) := by decide
  rw [h]
  exact checksum_chunk_independent upd fin init law content _ (by decide)

/-- outside the property: `read_chunksize=0` gives the digest of `b''` whatever the file holds;
    below `-1` the read raises ValueError -/
theorem checksum_zero_chunk {σ δ : Type} (upd : σ → Bytes → σ) (fin : σ → δ) (init : σ)
    (content : Bytes) :
    computeChecksum upd fin init true (some content) (some 0) = .ok (fin init) := by
  simp [computeChecksum, readArg, chunks_zero]

theorem checksum_bad_chunk {σ δ : Type} (upd : σ → Bytes → σ) (fin : σ → δ) (init : σ)
    (content : Bytes) (k : Int) (hk : k < -1) :
    computeChecksum upd fin init true (some content) (some k) = .error .valueError := by
  have h1 : ¬ (k = -1) := by omega
  have h2 : k < 0 := by omega
  simp [computeChecksum, readArg, h1, h2]

/-- non-vacuity of the whole pipeline on the concrete hash: 7 bytes in chunks of 3 -/
example : computeChecksum toyUpdate id toyInit true (some [9, 8, 7, 6, 5, 4, 3]) (some 3) =
    .ok (toyUpdate toyInit [9, 8, 7, 6, 5, 4, 3]) :=
  checksum_chunk_independent toyUpdate id toyInit toy_lawful _ 3 (by decide)

/-! ### last_bytes -/

theorem lemma_two63 : (2 : Int) ^ 63 = 9223372036854775808 := by decide

theorem lemma_seekEnd_ok (size : Nat) (off : Int) (h1 : -9223372036854775808 ≤ off)
    (h2 : off ≤ 9223372036854775807) (h3 : 0 ≤ (size : Int) + off)
    (h4 : (size : Int) + off ≤ 9223372036854775807) :
    seekEnd size off = .ok ((size : Int) + off).toNat := by
  have h63 := lemma_two63
  unfold seekEnd
  rw [if_neg (by omega), if_neg (by omega)]

theorem lemma_seekEnd_einval (size : Nat) (off : Int) (h1 : -9223372036854775808 ≤ off)
    (h2 : off ≤ 9223372036854775807)
    (h3 : (size : Int) + off < 0 ∨ (size : Int) + off > 9223372036854775807) :
    seekEnd size off = .error (.osError (some Gen.EINVAL)) := by
  have h63 := lemma_two63
  unfold seekEnd
  rw [if_neg (by omega), if_pos (by omega)]

theorem lemma_seekEnd_value (size : Nat) (off : Int)
    (h : off < -9223372036854775808 ∨ off > 9223372036854775807) :
    seekEnd size off = .error .valueError := by
  have h63 := lemma_two63
  unfold seekEnd
  rw [if_pos (by omega)]

/-- **last_bytes** — for every content (below 2^63 bytes, as every file is) and every
    `n ≤ 2^63`, the result is `(data, unread)` with `content = pre ++ data`,
    `|data| = min n size` and `unread = |pre|`.
    PARTIAL: the property has no bound on `n`; for `n > 2^63` the code raises ValueError
    (`last_bytes_beyond_off_t`, known finding N6). -/
theorem last_bytes_spec_partial (content : Bytes) (n : Nat) (hn : n ≤ 2 ^ 63)
    (hsize : content.length < 2 ^ 63) :
    ∃ pre data, lastBytes content (n : Int) none = .ok (data, pre.length) ∧
      content = pre ++ data ∧ data.length = min n content.length := by
  have h2 : (2 : Nat) ^ 63 = 9223372036854775808 := by decide
  by_cases hle : n ≤ content.length
  · refine ⟨content.take (content.length - n), content.drop (content.length - n), ?_, ?_, ?_⟩
    · have hs := lemma_seekEnd_ok content.length (-(n : Int)) (by omega) (by omega) (by omega) (by omega)
      have e3 : ((content.length : Int) + -(n : Int)).toNat = content.length - n := by omega
      have e4 : (content.take (content.length - n)).length = content.length - n := by
        simp [List.length_take]
      simp only [lastBytes, hs, e3, e4]
    · simp
    · simp [List.length_drop]; omega
  · refine ⟨[], content, ?_, by simp, by omega⟩
    have hs := lemma_seekEnd_einval content.length (-(n : Int)) (by omega) (by omega) (by omega)
    simp [lastBytes, hs]

example : lastBytes [1, 2, 3, 4, 5] 2 none = .ok ([4, 5], 3) ∧
    lastBytes [1, 2, 3, 4, 5] 5 none = .ok ([1, 2, 3, 4, 5], 0) ∧
    lastBytes [1, 2, 3, 4, 5] 6 none = .ok ([1, 2, 3, 4, 5], 0) ∧
    lastBytes [1, 2, 3, 4, 5] 0 none = .ok ([], 5) ∧
    lastBytes [] (2 ^ 63) none = .ok ([], 0) := by decide

/-- the negative: beyond the off_t range the conversion of `-n` fails before the EINVAL
    fallback can apply — ValueError instead of the whole file (known finding N6) -/
theorem last_bytes_beyond_off_t (content : Bytes) (n : Int) (hn : n > 2 ^ 63) :
    lastBytes content n none = .error .valueError := by
  have h63 := lemma_two63
  have hs := lemma_seekEnd_value content.length (-n) (by omega)
  simp [lastBytes, hs]

/-- a failing first seek: EINVAL (whatever caused it) falls back to the start of the file and
    returns all of it; every other exception escapes unchanged -/
theorem last_bytes_seek_fault_iff (content : Bytes) (num : Int) (e : Exc) :
    lastBytes content num (some e) =
      if e = .osError (some Gen.EINVAL) then .ok (content, 0) else .error e := by
  cases e with
  | osError errno =>
    by_cases h : errno = some Gen.EINVAL
    · simp [lastBytes, h]
    · simp [lastBytes, h]
  | valueError => simp [lastBytes]
  | other t => simp [lastBytes]
  | fuelExhausted => simp [lastBytes]

/-- outside the property: a negative `n` seeks past the end — nothing is read and the
    "unread" count exceeds the file size -/
theorem last_bytes_negative (content : Bytes) (k : Nat) (hk : 1 ≤ k)
    (hsmall : content.length + k < 2 ^ 63) :
    lastBytes content (-(k : Int)) none = .ok ([], content.length + k) := by
  have h2 : (2 : Nat) ^ 63 = 9223372036854775808 := by decide
  have hs := lemma_seekEnd_ok content.length (- -(k : Int)) (by omega) (by omega) (by omega) (by omega)
  have e3 : ((content.length : Int) + - -(k : Int)).toNat = content.length + k := by omega
  have e4 : content.drop (content.length + k) = [] := List.drop_eq_nil_of_le (by omega)
  simp only [lastBytes, hs, e3, e4]

/-! ### ensure_tree / delete_if_exists -/

/-- **ensure_tree** returns iff `os.makedirs` succeeded, or failed with EEXIST and the path
    is a directory — for every exception and errno … -/
theorem ensure_tree_iff (o : Except Exc Unit) (isdir : Bool) :
    ensureTree o isdir = .ok () ↔
      o = .ok () ∨ (o = .error (.osError (some Gen.EEXIST)) ∧ isdir = true) := by
  rcases o with e | ⟨⟩
  · cases e with
    | osError errno =>
      by_cases h : errno = some Gen.EEXIST <;> cases isdir <;> simp [ensureTree, h]
    | valueError => simp [ensureTree]
    | other t => simp [ensureTree]
    | fuelExhausted => simp [ensureTree]
  · simp [ensureTree]

/-- … and in every other case the very exception `os.makedirs` raised propagates -/
theorem ensure_tree_reraises_unchanged (o : Except Exc Unit) (isdir : Bool) (e : Exc)
    (h : ensureTree o isdir = .error e) : o = .error e := by
  rcases o with e' | ⟨⟩
  · cases e' with
    | osError errno =>
      by_cases h' : errno = some Gen.EEXIST <;> cases isdir <;> simp_all [ensureTree]
    | valueError => simpa [ensureTree] using h
    | other t => simpa [ensureTree] using h
    | fuelExhausted => simpa [ensureTree] using h
  · simp [ensureTree] at h

/-- **delete_if_exists** returns iff `remove` succeeded or failed with ENOENT … -/
theorem delete_if_exists_iff (o : Except Exc Unit) :
    deleteIfExists o = .ok () ↔ o = .ok () ∨ o = .error (.osError (some Gen.ENOENT)) := by
  rcases o with e | ⟨⟩
  · cases e with
    | osError errno => by_cases h : errno = some Gen.ENOENT <;> simp [deleteIfExists, h]
    | valueError => simp [deleteIfExists]
    | other t => simp [deleteIfExists]
    | fuelExhausted => simp [deleteIfExists]
  · simp [deleteIfExists]

/-- … and every other exception propagates unchanged -/
theorem delete_if_exists_reraises_unchanged (o : Except Exc Unit) (e : Exc)
    (h : deleteIfExists o = .error e) : o = .error e := by
  rcases o with e' | ⟨⟩
  · cases e' with
    | osError errno => by_cases h' : errno = some Gen.ENOENT <;> simp_all [deleteIfExists]
    | valueError => simpa [deleteIfExists] using h
    | other t => simpa [deleteIfExists] using h
    | fuelExhausted => simpa [deleteIfExists] using h
  · simp [deleteIfExists] at h

/-- **remove_path_on_error** (default remover): a block that completes is left alone; when it
    raises, its own exception comes out iff the removal succeeded or found nothing (ENOENT) —
    every other error of the remover comes out instead, unchanged, never swallowed -/
theorem remove_path_on_error_spec (body : Option Exc) (o : Except Exc Unit) :
    (removePathOnError body o = .ok () ↔ body = none) ∧
    (∀ b, removePathOnError body o = .error (.body b) ↔
      body = some b ∧ (o = .ok () ∨ o = .error (.osError (some Gen.ENOENT)))) ∧
    (∀ e, removePathOnError body o = .error (.fromRemove e) ↔
      (∃ b, body = some b) ∧ o = .error e ∧ e ≠ .osError (some Gen.ENOENT)) := by
  cases body with
  | none => simp [removePathOnError]
  | some b =>
    cases hd : deleteIfExists o with
    | ok u =>
      cases u
      have ho := (delete_if_exists_iff o).mp hd
      refine ⟨by simp [removePathOnError, hd], fun b' => ?_, fun e => ?_⟩
      · simp only [removePathOnError, hd]
        constructor
        · intro h; injection h with h; injection h with h; subst h; exact ⟨rfl, ho⟩
        · rintro ⟨h, _⟩; injection h with h; subst h; rfl
      · simp only [removePathOnError, hd]
        constructor
        · intro h; injection h with h; cases h
        · rintro ⟨_, h1, h2⟩
          rcases ho with ho | ho
          · rw [ho] at h1; cases h1
          · rw [ho] at h1; injection h1 with h1; exact absurd h1.symm h2
    | error e' =>
      have ho := delete_if_exists_reraises_unchanged o e' hd
      have hne : e' ≠ .osError (some Gen.ENOENT) := by
        intro h; subst h; subst ho; simp [deleteIfExists] at hd
      refine ⟨by simp [removePathOnError, hd], fun b' => ?_, fun e => ?_⟩
      · simp only [removePathOnError, hd]
        constructor
        · intro h; injection h with h; cases h
        · rintro ⟨_, h | h⟩
          · rw [h] at ho; cases ho
          · rw [h] at ho; injection ho with ho; exact absurd ho.symm hne
      · simp only [removePathOnError, hd]
        constructor
        · intro h; injection h with h; injection h with h; subst h; exact ⟨⟨b, rfl⟩, ho, hne⟩
        · rintro ⟨_, h, _⟩; rw [h] at ho; injection ho with ho; subst ho; rfl

example : removePathOnError (some .valueError) (.error (.osError (some 20))) =
      .error (.fromRemove (.osError (some 20))) ∧
    removePathOnError (some .valueError) (.error (.osError (some Gen.ENOENT))) =
      .error (.body .valueError) ∧
    removePathOnError (some (.other 2)) (.ok ()) = .error (.body (.other 2)) ∧
    removePathOnError none (.error (.osError (some 20))) = .ok () := by decide

/-- non-vacuity: both sides of both tables are inhabited -/
example : ensureTree (.error (.osError (some Gen.EEXIST))) true = .ok () ∧
    ensureTree (.error (.osError (some Gen.EEXIST))) false = .error (.osError (some Gen.EEXIST)) ∧
    ensureTree (.error (.osError (some 13))) true = .error (.osError (some 13)) ∧
    ensureTree (.error (.osError none)) true = .error (.osError none) ∧
    deleteIfExists (.error (.osError (some Gen.ENOENT))) = .ok () ∧
    deleteIfExists (.error (.osError (some 13))) = .error (.osError (some 13)) ∧
    deleteIfExists (.error .valueError) = .error .valueError := by decide

/-! ### write_to_tempfile -/

/-- **write_to_tempfile** — for every content (whatever object exposes it) and every path
    argument: when ensure_tree (if called) and mkstemp succeed and os.write transfers all the
    bytes, the new file holds exactly the content, its descriptor is closed and the call
    returns; ensure_tree is called iff the path argument is truthy.
    PARTIAL: the property does not assume that os.write transfers everything; when it
    transfers fewer bytes (`write_to_tempfile_short_write`, known finding N7) the code
    returns normally with a prefix of the content. -/
theorem write_to_tempfile_exact_partial (content : Bytes) (pathTruthy : Bool)
    (ensure : Except Exc Unit) (n : Nat) (h : pathTruthy = true → ensure = .ok ())
    (hn : content.length ≤ n) :
    writeToTempfile content pathTruthy ensure (.ok ()) (.ok n) =
      ⟨.ok (), pathTruthy, some content, true⟩ := by
  have ht : content.take n = content := List.take_of_length_le hn
  cases pathTruthy
  · simp [writeToTempfile, ht]
  · simp [writeToTempfile, h rfl, ht]

/-- the negative: a short write (legal for write(2): huge buffers, full disks, signals) is not
    noticed — the call returns and the file holds a proper prefix of the content -/
theorem write_to_tempfile_short_write (content : Bytes) (n : Nat) (hn : n < content.length) :
    let o := writeToTempfile content false (.ok ()) (.ok ()) (.ok n)
    o.result = .ok () ∧ o.file = some (content.take n) ∧ content.take n ≠ content := by
  refine ⟨by simp [writeToTempfile], by simp [writeToTempfile], fun h => ?_⟩
  have := congrArg List.length h
  simp [List.length_take] at this
  omega

/-- it returns only when all three calls succeed, the file never holds anything but what
    os.write transferred of the content (or nothing, when os.write failed), the descriptor is
    closed whenever a file was created, and whatever escapes is the exception of the first
    failing call, unchanged -/
theorem write_to_tempfile_spec (content : Bytes) (pathTruthy : Bool)
    (ensure mkstemp : Except Exc Unit) (write : Except Exc Nat) :
    let o := writeToTempfile content pathTruthy ensure mkstemp write
    (o.result = .ok () ↔
      (pathTruthy = true → ensure = .ok ()) ∧ mkstemp = .ok () ∧ ∃ n, write = .ok n) ∧
    (∀ f, o.file = some f →
      (∃ n, write = .ok n ∧ f = content.take n) ∨ (f = [] ∧ ∃ e, write = .error e)) ∧
    o.ensureCalled = pathTruthy ∧ (o.fdClosed = true ↔ o.file.isSome = true) ∧
    (∀ e, o.result = .error e →
      (pathTruthy = true ∧ ensure = .error e) ∨ mkstemp = .error e ∨ write = .error e) := by
  cases pathTruthy <;> rcases ensure with e1 | ⟨⟩ <;> rcases mkstemp with e2 | ⟨⟩ <;>
    rcases write with e3 | n <;> simp [writeToTempfile]

example : (writeToTempfile [1, 2, 3] true (.ok ()) (.ok ()) (.ok 3)).file = some [1, 2, 3] ∧
    (writeToTempfile [1, 2, 3] true (.ok ()) (.ok ()) (.ok 2)).file = some [1, 2] ∧
    (writeToTempfile [] false (.error .valueError) (.ok ()) (.ok 0)).file = some [] ∧
    (writeToTempfile [1] true (.error (.osError (some 20))) (.ok ()) (.ok 1)).result =
      .error (.osError (some 20)) ∧
    (writeToTempfile [1] true (.ok ()) (.ok ()) (.error (.osError (some 28)))).file = some [] := by
  decide

/-- "creating missing directories first" holds on every call: in a session of any length the
    i-th call consults ensure_tree iff its own path argument is truthy and is decided by the
    outcomes of its own three calls alone, whatever calls (with whatever paths) came before -/
theorem write_to_tempfile_every_call (calls : List TempCall) (i : Nat) (h : i < calls.length) :
    ∃ h2 : i < (tempSession calls).length,
      (tempSession calls)[i] = writeToTempfile calls[i].content calls[i].pathTruthy calls[i].ensure
        calls[i].mkstemp calls[i].write ∧
      (tempSession calls)[i].ensureCalled = calls[i].pathTruthy := by
  refine ⟨by simpa [tempSession] using h, by simp [tempSession], ?_⟩
  simp only [tempSession, List.getElem_map]
  exact (write_to_tempfile_spec _ _ _ _ _).2.2.1

/-! ### "succeed when the work is already done", on the one-path file-system model -/

/-- ensure_tree on an existing directory succeeds and changes nothing; whenever it
    succeeds the path is a directory and a second call succeeds too -/
theorem ensure_tree_idempotent (st : PathState) :
    ensureTreeFS .dir = (.ok (), .dir) ∧
    ((ensureTreeFS st).1 = .ok () →
      (ensureTreeFS st).2 = .dir ∧ ensureTreeFS (ensureTreeFS st).2 = (.ok (), .dir)) := by
  cases st <;> simp [ensureTreeFS, osMakedirs, osIsdir, ensureTree]

/-- a file in the way is never mistaken for the directory -/
theorem ensure_tree_file_in_the_way :
    ensureTreeFS .file = (.error (.osError (some Gen.EEXIST)), .file) := by
  simp [ensureTreeFS, osMakedirs, osIsdir, ensureTree]

/-- delete_if_exists on a missing path succeeds; whenever it succeeds the path is gone and a
    second call succeeds too; a directory is refused (EISDIR is re-raised), not reported gone -/
theorem delete_if_exists_idempotent (st : PathState) :
    deleteIfExistsFS .missing = (.ok (), .missing) ∧
    ((deleteIfExistsFS st).1 = .ok () →
      (deleteIfExistsFS st).2 = .missing ∧
        deleteIfExistsFS (deleteIfExistsFS st).2 = (.ok (), .missing)) ∧
    deleteIfExistsFS .dir = (.error (.osError (some Gen.EISDIR)), .dir) := by
  have h : Gen.EISDIR ≠ Gen.ENOENT := by decide
  cases st <;> simp [deleteIfExistsFS, osUnlink, deleteIfExists, h]

end Oslo.File
