/-
VHDX: the two table walks of the inspector (`_find_meta_region`, `_find_meta_entry`) as functions
of the bytes they read, and the facts about them that make the verdict a function of the stream:
the entry walk only ever looks at a frozen prefix of the metadata region.
-/
import OsloModel.Inspector
import OsloProofs.Lemmas.Capture
namespace Oslo.Insp

/-- `_find_meta_region` as a function of the header-region bytes -/
def findMetaRegionB (hd : Bytes) : Except Err (Option Nat) := do
  let d := slice hd 0 16
  if d.length ≠ 16 then throw .struct
  if leNat (slice d 0 4) ≠ 0x69676572 then throw .imageFormat
  let count := leNat (slice d 8 12)
  if count ≥ 2048 then throw .imageFormat
  vhdxScanRegions hd count 0

/-- `_find_meta_entry(VIRTUAL_DISK_SIZE)` (first half) as a function of the metadata bytes buffered -/
def findMetaEntryB (buf : Bytes) : Except Err (Option (Nat × Nat)) := do
  if buf.length < 32 then return none
  let d := slice buf 0 12
  if d.length ≠ 12 then throw .struct
  if slice d 0 8 ≠ ascii "metadata" then throw .imageFormat
  let count := leNat (slice d 10 12)
  if buf.length < 32 + count * 32 then return none
  if count ≥ 2048 then throw .imageFormat
  vhdxScanMeta buf count 0

/-- end of the metadata entry table, as announced by the 16-bit entry count at offset 10 -/
def entriesEnd (buf : Bytes) : Nat := 32 + leNat (slice (slice buf 0 12) 10 12) * 32

theorem lemma_findMetaRegion_eq (s : Insp) (h : Region) (hh : lookupR "header" s.regions = some h) :
    vhdxFindMetaRegion s = findMetaRegionB h.data := by
  unfold vhdxFindMetaRegion findMetaRegionB Insp.region
  rw [hh]
  rfl

theorem lemma_findMetaEntry_eq (s : Insp) (m : Region) (hm : lookupR "metadata" s.regions = some m) :
    vhdxFindMetaEntry s = findMetaEntryB m.data := by
  unfold vhdxFindMetaEntry findMetaEntryB Insp.region
  rw [hm]
  rfl

/-! ### slices of prefixes -/

theorem lemma_slice_prefix {a b : Bytes} (h : a <+: b) (x e : Nat) (he : e ≤ a.length) :
    slice b x e = slice a x e := by
  obtain ⟨t, rfl⟩ := h
  simp only [slice]
  rw [List.take_append_of_le_length he]

theorem lemma_slice_length (b : Bytes) (x e : Nat) : (slice b x e).length = min e b.length - x := by
  simp [slice]

theorem lemma_take_prefix {a b : Bytes} (h : a <+: b) (e : Nat) (he : e ≤ a.length) :
    b.take e = a.take e := by
  obtain ⟨t, rfl⟩ := h
  rw [List.take_append_of_le_length he]

theorem lemma_sliceOf_prefix' {q s : Bytes} (h : q <+: s) (off len : Nat) :
    sliceOf q off len <+: sliceOf s off len := by
  obtain ⟨t, rfl⟩ := h
  exact lemma_sliceOf_prefix q t off len

/-- a region of the stream that lies inside the prefix `q` reads the same in `q` and in the stream -/
theorem lemma_sliceOf_within {q s : Bytes} (h : q <+: s) (off len : Nat) (hl : off + len ≤ q.length) :
    sliceOf s off len = sliceOf q off len := by
  have hp := lemma_sliceOf_prefix' h off len
  refine (lemma_prefix_eq_of_length hp ?_).symm
  rw [lemma_sliceOf_length, lemma_sliceOf_length]
  have := List.IsPrefix.length_le h
  omega

/-! ### the entry walk reads a frozen prefix -/

theorem lemma_scanMeta_prefix {a b : Bytes} (h : a <+: b) (n : Nat) : ∀ (i : Nat),
    32 + (i + n) * 32 ≤ a.length → vhdxScanMeta b n i = vhdxScanMeta a n i := by
  induction n with
  | zero => intro i _; rfl
  | succ n ih =>
    intro i hb
    unfold vhdxScanMeta
    have e1 : slice b (32 + i * 32) (32 + i * 32 + 16) = slice a (32 + i * 32) (32 + i * 32 + 16) :=
      lemma_slice_prefix h _ _ (by omega)
    have e2 : slice b (32 + i * 32 + 16) (32 + i * 32 + 28) = slice a (32 + i * 32 + 16) (32 + i * 32 + 28) :=
      lemma_slice_prefix h _ _ (by omega)
    simp only [e1, e2]
    rw [ih (i + 1) (by omega)]

theorem lemma_entriesEnd_prefix {a b : Bytes} (h : a <+: b) (hl : 12 ≤ a.length) :
    entriesEnd b = entriesEnd a := by
  unfold entriesEnd
  rw [lemma_slice_prefix h 0 12 hl]

/-- once the whole entry table is buffered, buffering more does not change what the walk finds -/
theorem lemma_findMetaEntry_frozen {a b : Bytes} (h : a <+: b) (h32 : 32 ≤ a.length)
    (hes : entriesEnd a ≤ a.length) : findMetaEntryB b = findMetaEntryB a := by
  have hlb := List.IsPrefix.length_le h
  have hee := lemma_entriesEnd_prefix h (by omega)
  unfold entriesEnd at hes hee
  unfold findMetaEntryB
  have e0 : slice b 0 12 = slice a 0 12 := lemma_slice_prefix h 0 12 (by omega)
  rw [e0] at hee ⊢
  have c1 : ¬ (a.length < 32) := by omega
  have c2 : ¬ (b.length < 32) := by omega
  have c3 : ¬ (a.length < 32 + leNat (slice (slice a 0 12) 10 12) * 32) := by omega
  have c4 : ¬ (b.length < 32 + leNat (slice (slice a 0 12) 10 12) * 32) := by omega
  simp only [c1, c2, c3, c4, if_false]
  rw [lemma_scanMeta_prefix h _ 0 (by omega)]

theorem lemma_scanMeta_noerr (buf : Bytes) (n : Nat) : ∀ (i : Nat), 32 + (i + n) * 32 ≤ buf.length →
    ∀ e, vhdxScanMeta buf n i ≠ .error e := by
  induction n with
  | zero => intro i _ e; simp [vhdxScanMeta]
  | succ n ih =>
    intro i hb e
    unfold vhdxScanMeta
    have l1 : (slice buf (32 + i * 32) (32 + i * 32 + 16)).length = 16 := by
      rw [lemma_slice_length]; omega
    have l2 : (slice buf (32 + i * 32 + 16) (32 + i * 32 + 28)).length = 12 := by
      rw [lemma_slice_length]; omega
    simp only [l1, l2, ne_eq, not_true_eq_false, if_false]
    split
    · simp
    · exact ih (i + 1) (by omega) e

/-- what a successful walk implies about the bytes it was given -/
theorem lemma_findMetaEntry_some (buf : Bytes) (x : Nat × Nat) (h : findMetaEntryB buf = .ok (some x)) :
    32 ≤ buf.length ∧ entriesEnd buf ≤ buf.length := by
  unfold findMetaEntryB at h
  unfold entriesEnd
  by_cases c1 : buf.length < 32
  · simp [c1, pure, Except.pure] at h
  · by_cases c3 : buf.length < 32 + leNat (slice (slice buf 0 12) 10 12) * 32
    · simp only [c1, c3, if_false, if_true, bind, Except.bind, pure, Except.pure, throw, throwThe,
        MonadExceptOf.throw] at h
      repeat' split at h
      all_goals simp_all
    · omega

/-- with the `metadata` signature in place and at most 64 KiB buffered, the walk never raises -/
theorem lemma_findMetaEntry_noerr (buf : Bytes) (hlen : buf.length ≤ 65536)
    (hsig : 32 ≤ buf.length → buf.take 8 = ascii "metadata") : ∀ e, findMetaEntryB buf ≠ .error e := by
  intro e
  unfold findMetaEntryB
  by_cases c1 : buf.length < 32
  · simp [c1, pure, Except.pure]
  · have hs := hsig (by omega)
    have l12 : (slice buf 0 12).length = 12 := by rw [lemma_slice_length]; omega
    have s8 : slice (slice buf 0 12) 0 8 = ascii "metadata" := by
      rw [← hs]
      simp only [slice, List.drop_zero, List.take_take]
      congr 1
    by_cases c3 : buf.length < 32 + leNat (slice (slice buf 0 12) 10 12) * 32
    · simp [c1, c3, l12, s8, pure, Except.pure]
    · have c5 : ¬ (leNat (slice (slice buf 0 12) 10 12) ≥ 2048) := by omega
      simp only [c1, c3, l12, s8, c5, ne_eq, not_true_eq_false, if_false, bind, Except.bind, pure, Except.pure]
      exact lemma_scanMeta_noerr buf _ 0 (by omega) e

end Oslo.Insp
