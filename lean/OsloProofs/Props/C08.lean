/-
C08 — mask_dict_password masks recursively and never modifies its argument.

Property theorems over OsloModel/MaskDict.lean.  A Python mapping has pairwise
distinct keys; in the model that is the representation invariant `WFVal`
(hereditarily duplicate-free key lists).  Non-mutation holds of the model by
construction (a pure function of its argument) and is an obligation of the
correspondence/search on the code.
-/
import OsloModel.MaskDict
namespace Oslo.MaskDict
open Oslo.Mask

/-! ### the specification -/

/-- the key is a `str` whose lower-casing contains a sanitize key -/
def KeyHit (k : PyKey) : Prop := ∃ ks, k = .str ks ∧ keyMatches Gen.sanitizeKeys ks = true

mutual
/-- `MaskedVal mask k v r`: `r` is what the result stores under key `k` for the argument's value `v` -/
inductive MaskedVal (mask : List Char) : PyKey → PyVal → PyVal → Prop
  /-- a mapping value is processed recursively, whatever its key -/
  | map (k : PyKey) (items items' : List (PyKey × PyVal)) :
      MaskedItems mask items items' → MaskedVal mask k (.map items) (.map items')
  /-- a non-mapping value under a string key containing a sanitize key becomes the mask -/
  | hitStr (k : PyKey) (s : List Char) : KeyHit k → MaskedVal mask k (.str s) (.str mask)
  | hitOther (k : PyKey) (i : Nat) : KeyHit k → MaskedVal mask k (.opaque i) (.str mask)
  /-- any other string value goes through `mask_password` -/
  | pass (k : PyKey) (s : List Char) : ¬ KeyHit k → MaskedVal mask k (.str s) (.str (maskPassword s mask))
  /-- everything else is returned as it is (the same object) -/
  | keep (k : PyKey) (i : Nat) : ¬ KeyHit k → MaskedVal mask k (.opaque i) (.opaque i)
/-- same keys in the same order, values related pointwise -/
inductive MaskedItems (mask : List Char) : List (PyKey × PyVal) → List (PyKey × PyVal) → Prop
  | nil : MaskedItems mask [] []
  | cons (k : PyKey) (v v' : PyVal) (rest rest' : List (PyKey × PyVal)) :
      MaskedVal mask k v v' → MaskedItems mask rest rest' → MaskedItems mask ((k, v) :: rest) ((k, v') :: rest')
end

/-- the result of `mask_dict_password` on a mapping -/
def Masked (mask : List Char) (v r : PyVal) : Prop :=
  ∃ items items', v = .map items ∧ r = .map items' ∧ MaskedItems mask items items'

mutual
/-- representation invariant: at every level the keys of a mapping are pairwise distinct -/
inductive WFVal : PyVal → Prop
  | str (s : List Char) : WFVal (.str s)
  | opaque (i : Nat) : WFVal (.opaque i)
  | map (items : List (PyKey × PyVal)) : WFItems items → (items.map Prod.fst).Nodup → WFVal (.map items)
inductive WFItems : List (PyKey × PyVal) → Prop
  | nil : WFItems []
  | cons (k : PyKey) (v : PyVal) (rest : List (PyKey × PyVal)) : WFVal v → WFItems rest → WFItems ((k, v) :: rest)
end

/-! ### helper lemmas -/

theorem lemma_dictSet_fresh (k : PyKey) (v : PyVal) : ∀ (out : List (PyKey × PyVal)),
    k ∉ out.map Prod.fst → dictSet out k v = out ++ [(k, v)] := by
  intro out
  induction out with
  | nil => intro _; rfl
  | cons kv out ih =>
    intro h
    obtain ⟨k', v'⟩ := kv
    simp only [List.map_cons, List.mem_cons, not_or] at h
    have hne : ¬ (k' = k) := fun e => h.1 e.symm
    simp [dictSet, hne, ih h.2]

/-- with distinct keys the loop appends one entry per item, in order -/
theorem lemma_maskItems_nodup (mask : List Char) : ∀ (items out : List (PyKey × PyVal)),
    (items.map Prod.fst).Nodup → (∀ k ∈ items.map Prod.fst, k ∉ out.map Prod.fst) →
    maskItems mask items out = out ++ items.map (fun kv => (kv.1, maskValue mask kv.1 kv.2)) := by
  intro items
  induction items with
  | nil => intro out _ _; simp [maskItems]
  | cons kv items ih =>
    intro out hnd hdis
    obtain ⟨k, v⟩ := kv
    simp only [List.map_cons, List.nodup_cons] at hnd
    rw [maskItems, lemma_dictSet_fresh k _ out (hdis k (by simp))]
    rw [ih _ hnd.2]
    · simp
    · intro k' hk' hmem
      simp only [List.map_append, List.map_cons, List.map_nil, List.mem_append, List.mem_cons,
        List.not_mem_nil, or_false] at hmem
      rcases hmem with hmem | hmem
      · exact hdis k' (by simp [hk']) hmem
      · subst hmem; exact hnd.1 hk'

theorem lemma_keyHit_str (ks : List Char) : KeyHit (.str ks) ↔ keyMatches Gen.sanitizeKeys ks = true := by
  constructor
  · rintro ⟨ks', h, hm⟩; cases h; exact hm
  · intro h; exact ⟨ks, rfl, h⟩

theorem lemma_keyHit_other (i : Nat) : ¬ KeyHit (.other i) := by
  rintro ⟨ks, h, _⟩; cases h

mutual
theorem lemma_maskValue_spec (mask : List Char) (k : PyKey) :
    (v : PyVal) → WFVal v → MaskedVal mask k v (maskValue mask k v)
  | .map items, h => by
    cases h with
    | map _ hi hn =>
      rw [maskValue, lemma_maskItems_nodup mask items [] hn (by simp)]
      exact .map k items _ (by simpa using lemma_maskItems_spec mask items hi)
  | .str s, _ => by
    cases k with
    | str ks =>
      by_cases hm : keyMatches Gen.sanitizeKeys ks = true
      · simp only [maskValue, hm, if_true]; exact .hitStr _ _ ((lemma_keyHit_str ks).2 hm)
      · simp only [maskValue, hm]; exact .pass _ _ (fun h => hm ((lemma_keyHit_str ks).1 h))
    | other i => simp only [maskValue]; exact .pass _ _ (lemma_keyHit_other i)
  | .opaque i, _ => by
    cases k with
    | str ks =>
      by_cases hm : keyMatches Gen.sanitizeKeys ks = true
      · simp only [maskValue, hm, if_true]; exact .hitOther _ _ ((lemma_keyHit_str ks).2 hm)
      · simp only [maskValue, hm]; exact .keep _ _ (fun h => hm ((lemma_keyHit_str ks).1 h))
    | other j => simp only [maskValue]; exact .keep _ _ (lemma_keyHit_other j)
theorem lemma_maskItems_spec (mask : List Char) :
    (items : List (PyKey × PyVal)) → WFItems items →
      MaskedItems mask items (items.map (fun kv => (kv.1, maskValue mask kv.1 kv.2)))
  | [], _ => .nil
  | (k, v) :: rest, h => by
    cases h with
    | cons _ _ _ hv hr =>
      exact .cons k v _ rest _ (lemma_maskValue_spec mask k v hv) (lemma_maskItems_spec mask rest hr)
end

/-! ### the property -/

/-- for every mapping (any depth, any width) the result satisfies the specification `Masked`:
    same keys in the same order at every level, mapping values recursed, a non-mapping value under a string
    key containing a sanitize key (case-insensitively) replaced by the mask, other strings passed through
    `mask_password`, everything else the same object -/
theorem maskdict_spec (items : List (PyKey × PyVal)) (mask : List Char) (h : WFVal (.map items)) :
    ∃ r, maskDict (.map items) mask = .ok r ∧ Masked mask (.map items) r := by
  cases h with
  | map _ hi hn =>
    refine ⟨.map (maskItems mask items []), rfl, items, _, rfl, rfl, ?_⟩
    rw [lemma_maskItems_nodup mask items [] hn (by simp)]
    simpa using lemma_maskItems_spec mask items hi

theorem lemma_masked_keys (mask : List Char) : ∀ (items items' : List (PyKey × PyVal)),
    MaskedItems mask items items' → items'.map Prod.fst = items.map Prod.fst := by
  intro items items' h
  induction items generalizing items' with
  | nil => cases h; rfl
  | cons kv items ih =>
    cases h with
    | cons k v v' rest rest' _ hr => simp [ih rest' hr]

/-- the result has exactly the argument's keys, in the argument's order -/
theorem maskdict_keys_preserved (items : List (PyKey × PyVal)) (mask : List Char) (h : WFVal (.map items)) :
    ∃ items', maskDict (.map items) mask = .ok (.map items') ∧ items'.map Prod.fst = items.map Prod.fst := by
  obtain ⟨r, hr, its, its', h1, h2, hm⟩ := maskdict_spec items mask h
  cases h1
  subst h2
  exact ⟨its', hr, lemma_masked_keys mask _ _ hm⟩

/-- a non-mapping argument raises TypeError, and only a non-mapping argument does -/
theorem maskdict_non_mapping_typeerror (v : PyVal) (mask : List Char) :
    (∀ items, v ≠ .map items) ↔ maskDict v mask = .error .typeError := by
  cases v <;> simp [maskDict]

/-! ### closed form, and corollaries read off it -/

/-- closed form: on a mapping with distinct keys the result is the argument's item list with each value
    replaced by `maskValue` of its own key and value -- one output entry per input entry, in order, no entry
    depending on any other entry -/
theorem maskdict_closed_form (items : List (PyKey × PyVal)) (mask : List Char) (h : WFVal (.map items)) :
    maskDict (.map items) mask = .ok (.map (items.map (fun kv => (kv.1, maskValue mask kv.1 kv.2)))) := by
  cases h with
  | map _ hi hn => simp only [maskDict]; rw [lemma_maskItems_nodup mask items [] hn (by simp)]; simp

/-- every entry of the argument has its counterpart in the result, and the result holds nothing else -/
theorem maskdict_entries (items : List (PyKey × PyVal)) (mask : List Char) (h : WFVal (.map items)) :
    ∃ items', maskDict (.map items) mask = .ok (.map items') ∧ items'.length = items.length ∧
      (∀ k v, (k, v) ∈ items → (k, maskValue mask k v) ∈ items') ∧
      (∀ k r, (k, r) ∈ items' → ∃ v, (k, v) ∈ items ∧ r = maskValue mask k v) := by
  refine ⟨_, maskdict_closed_form items mask h, by simp, ?_, ?_⟩
  · intro k v hm; exact List.mem_map.2 ⟨(k, v), hm, rfl⟩
  · intro k r hm
    obtain ⟨⟨k', v'⟩, hm', he⟩ := List.mem_map.1 hm
    cases he
    exact ⟨v', hm', rfl⟩

/-- a non-mapping value under a str key containing a sanitize key is replaced by the mask, whatever it was -/
theorem maskdict_hit_replaces (mask ks : List Char) (v : PyVal) (hk : keyMatches Gen.sanitizeKeys ks = true)
    (hv : ∀ items, v ≠ .map items) : maskValue mask (.str ks) v = .str mask := by
  match v, hv with
  | .map items, hv => exact absurd rfl (hv items)
  | .str s, _ => simp [maskValue, hk]
  | .opaque i, _ => simp [maskValue, hk]

/-- feeding a result to a further call (same or another mask): what was masked under a sanitize key is
    masked again with the new mask, never unmasked and never passed through `mask_password` -/
theorem maskdict_remask_hit (mask mask' ks : List Char) (v : PyVal) (hk : keyMatches Gen.sanitizeKeys ks = true)
    (hv : ∀ items, v ≠ .map items) :
    maskValue mask' (.str ks) (maskValue mask (.str ks) v) = .str mask' := by
  rw [maskdict_hit_replaces mask ks v hk hv]
  exact maskdict_hit_replaces mask' ks _ hk (by intro items h; cases h)

/-- a mapping value is recursed into whatever its key is -- also under a sanitize key, where it is NOT
    replaced by the mask -/
theorem maskdict_mapping_always_recursed (mask : List Char) (k : PyKey) (items : List (PyKey × PyVal)) :
    maskValue mask k (.map items) = .map (maskItems mask items []) := by
  rw [maskValue]

/-- the key plays no part for a mapping value -/
theorem maskdict_mapping_key_irrelevant (mask : List Char) (k k' : PyKey) (items : List (PyKey × PyVal)) :
    maskValue mask k (.map items) = maskValue mask k' (.map items) := by
  rw [maskValue, maskValue]

/-- a key that is not a `str` never causes masking: an object is returned as it is, a string goes through
    `mask_password` -/
theorem maskdict_nonstr_key (mask : List Char) (i j : Nat) (s : List Char) :
    maskValue mask (.other i) (.opaque j) = .opaque j ∧
    maskValue mask (.other i) (.str s) = .str (maskPassword s mask) := by
  constructor <;> simp [maskValue]

/-- a str key containing no sanitize key behaves like a non-str key -/
theorem maskdict_miss_key (mask ks : List Char) (j : Nat) (s : List Char)
    (hk : keyMatches Gen.sanitizeKeys ks = false) :
    maskValue mask (.str ks) (.opaque j) = .opaque j ∧
    maskValue mask (.str ks) (.str s) = .str (maskPassword s mask) := by
  constructor <;> simp [maskValue, hk]

/-- objects that are neither `str` nor mapping are never looked into: the result for such a value does not
    depend on which object it is beyond its identity (it is the same object or the mask) -/
theorem maskdict_opaque_same_or_mask (mask : List Char) (k : PyKey) (j : Nat) :
    maskValue mask k (.opaque j) = .opaque j ∨ maskValue mask k (.opaque j) = .str mask := by
  cases k with
  | other i => left; simp [maskValue]
  | str ks => by_cases hk : keyMatches Gen.sanitizeKeys ks = true <;> simp [maskValue, hk]

mutual
theorem lemma_maskValue_wf (mask : List Char) (k : PyKey) :
    (v : PyVal) → WFVal v → WFVal (maskValue mask k v)
  | .map items, h => by
    cases h with
    | map _ hi hn =>
      rw [maskValue, lemma_maskItems_nodup mask items [] hn (by simp)]
      refine .map _ (by simpa using lemma_maskItems_wf mask items hi) ?_
      simpa [List.map_map, Function.comp_def] using hn
  | .str s, _ => by
    cases k with
    | str ks => by_cases hk : keyMatches Gen.sanitizeKeys ks = true <;> simp only [maskValue, hk] <;> constructor
    | other i => simp only [maskValue]; constructor
  | .opaque i, _ => by
    cases k with
    | str ks => by_cases hk : keyMatches Gen.sanitizeKeys ks = true <;> simp only [maskValue, hk] <;> constructor
    | other j => simp only [maskValue]; constructor
theorem lemma_maskItems_wf (mask : List Char) :
    (items : List (PyKey × PyVal)) → WFItems items →
      WFItems (items.map (fun kv => (kv.1, maskValue mask kv.1 kv.2)))
  | [], _ => .nil
  | (k, v) :: rest, h => by
    cases h with
    | cons _ _ _ hv hr =>
      exact .cons k _ _ (lemma_maskValue_wf mask k v hv) (lemma_maskItems_wf mask rest hr)
end

/-- the result is again a well-formed nested mapping (distinct keys at every level): it can be the argument
    of a further call, to which all of the above applies -/
theorem maskdict_result_wf (items : List (PyKey × PyVal)) (mask : List Char) (h : WFVal (.map items)) :
    ∃ r, maskDict (.map items) mask = .ok r ∧ WFVal r := by
  refine ⟨_, maskdict_closed_form items mask h, ?_⟩
  have := lemma_maskValue_wf mask (.other 0) (.map items) h
  cases h with
  | map _ hi hn => rwa [maskValue, lemma_maskItems_nodup mask items [] hn (by simp), List.nil_append] at this

/-- the answer is a function of the argument and the mask only: two calls (in any order, with anything in
    between) on equal arguments give equal results -/
theorem maskdict_deterministic (v v' : PyVal) (mask mask' : List Char) (hv : v = v') (hm : mask = mask') :
    maskDict v mask = maskDict v' mask' := by subst hv; subst hm; rfl

/-- non-vacuity: a three-level mapping with str and non-str keys meets the invariant -/
example : WFVal (.map [(.str "Password".toList, .str "x".toList),
                       (.other 3, .map [(.str "n".toList, .opaque 0),
                                        (.str "auth_token".toList, .map [(.other 1, .str "token=abc".toList)])]),
                       (.str "user".toList, .str "password=abc".toList)]) := by
  repeat (first | constructor | decide)

example : keyMatches Gen.sanitizeKeys "X-Auth_Token-2".toList = true ∧
          keyMatches Gen.sanitizeKeys "ſecret".toList = false := by decide

end Oslo.MaskDict
