import OsloModel.Proto
import OsloModel.Wrapper
import OsloProofs.Lemmas.LocalityDefs
open Oslo Oslo.Insp Oslo.Proto

/-! Line-protocol driver for the inspector group (C01, C02, C03, C05, C06, C07). -/

def adler32 (b : Bytes) : Nat :=
  let (a, s) := b.foldl (fun (p : Nat × Nat) x =>
    let a := (p.1 + x.toNat) % 65521
    (a, (p.2 + a) % 65521)) (1, 0)
  s * 65536 + a

def showErr : Err → String
  | .imageFormat => "ImageFormatError" | .struct => "error" | .key => "KeyError"
  | .runtime => "RuntimeError" | .value => "ValueError" | .fuel => "FUEL"

def showOptErr : Option Err → String
  | none => "-" | some e => showErr e

def showB (b : Bool) : String := if b then "1" else "0"

def showRegion (p : String × Region) : String :=
  let r := p.2
  s!"{p.1}:{r.offset}:{r.length}:{match r.minLength with | some m => toString m | none => "N"}:{r.data.length}:{adler32 r.data}:{showB r.complete}"

def showState (s : Insp) : String :=
  s!"total={s.total} regions=[{String.intercalate "," (s.regions.map showRegion)}]"

def showExB : Except Err Bool → String
  | .ok b => showB b | .error e => "EXC:" ++ showErr e
def showExI : Except Err Int → String
  | .ok v => toString v | .error e => "EXC:" ++ showErr e

def showSafety : Safety → String
  | .ok => "ok" | .refused => "refused"
  | .failed ns => "failed:" ++ String.intercalate "+" ns
  | .raised e => "EXC:" ++ showErr e

def showVerdict (s : Insp) (e : Option Err) : String :=
  s!"match={showExB (formatMatch s)} complete={showB s.complete} vsize={showExI (virtualSize s)} safety={showSafety (safetyCheck s)} raised={showOptErr e} ctx={s.retained}"

def parseNats (s : String) : Option (List Nat) :=
  if s = "-" then some [] else (s.splitOn ",").mapM String.toNat?

def cut (b : Bytes) : List Nat → List Bytes
  | [] => []
  | n :: ns => b.take n :: cut (b.drop n) ns

/-- content field: either hex bytes or `z<N>` (N zero bytes) or several joined with `+` -/
def parsePart (part : String) : Option Bytes :=
  match part.toList with
  | 'z' :: rest => (String.ofList rest).toNat?.map (fun n => List.replicate n 0)
  | 'r' :: rest =>   -- r<N>x<HH>: N copies of byte HH
    match (String.ofList rest).splitOn "x" with
    | [n, h] => do
      let n ← n.toNat?
      let hb ← unhex h
      match hb with
      | [x] => some (List.replicate n x)
      | _ => none
    | _ => none
  | _ => unhex part

/-- `+`-separated parts, each hex, `z<N>` (N zero bytes) or `r<N>x<HH>`; the parts are collected
    and flattened once (linear in the content length) -/
def parseContent (s : String) : Option Bytes :=
  if s = "-" then some [] else
  ((s.splitOn "+").mapM parsePart).map List.flatten

/-! ### explicit chunk lists with huge zero runs (sparse streams)

`inspx` names every chunk separately; a chunk written `Z<N>` is a run of N zero bytes that is NOT
materialised: it is skipped with `eatSkip` when `skippable` holds (sound by `eatSkip_sound` /
`eat_ignores_bytes_outside_windows` in Props/C01Locality.lean: the result equals `eatChunk` on any
chunk of that length, and every state reached this way satisfies the invariant the theorem needs by
`reachable_good2`); when it does not hold the run is materialised if it is small, otherwise the
driver answers `unmodelled-zero-run`. -/

inductive ChunkX
  | lit (b : Bytes)
  | zeros (n : Nat)

def parseChunkX (s : String) : Option ChunkX :=
  match s.toList with
  | 'Z' :: rest => (String.ofList rest).toNat?.map ChunkX.zeros
  | _ => (parseContent s).map ChunkX.lit

def zeroRunCap : Nat := 4 * 1024 * 1024

def eatX (s : Insp) : ChunkX → Option (Insp × Option Err)
  | .lit b => some (eatChunk s b)
  | .zeros n =>
    match eatSkip s n with
    | some s' => some (s', none)
    | none => if n ≤ zeroRunCap then some (eatChunk s (List.replicate n 0)) else none

/-- feed with a trace after every chunk; `none` = a zero run that can be neither skipped nor materialised -/
def feedTraceX : Insp → List ChunkX → List String → Option (Insp × Option Err × List String)
  | s, [], tr => some (s, none, tr.reverse)
  | s, c :: cs, tr =>
    match eatX s c with
    | none => none
    | some (s1, some e) => some (s1, some e, ((showState s1 ++ " err=" ++ showErr e) :: tr).reverse)
    | some (s1, none) => feedTraceX s1 cs (showState s1 :: tr)

/-- feed with a trace after every chunk -/
def feedTrace : Insp → List Bytes → List String → Insp × Option Err × List String
  | s, [], tr => (s, none, tr.reverse)
  | s, c :: cs, tr =>
    match eatChunk s c with
    | (s1, some e) => (s1, some e, ((showState s1 ++ " err=" ++ showErr e) :: tr).reverse)
    | (s1, none) => feedTrace s1 cs (showState s1 :: tr)

/-- feed with a trace after every chunk, CONTINUING after an error with the state `eatChunk` left
    (a caller that catches the exception and keeps feeding the same inspector); the error reported at
    the end is the first one -/
def feedTraceK : Insp → List Bytes → Option Err → List String → Insp × Option Err × List String
  | s, [], first, tr => (s, first, tr.reverse)
  | s, c :: cs, first, tr =>
    match eatChunk s c with
    | (s1, some e) => feedTraceK s1 cs (first.orElse (fun _ => some e)) ((showState s1 ++ " err=" ++ showErr e) :: tr)
    | (s1, none) => feedTraceK s1 cs first (showState s1 :: tr)

def showFmtRes : Except Err (Option Insp) → String
  | .error e => "EXC:" ++ showErr e
  | .ok none => "None"
  | .ok (some i) => i.fmt.name

def showFmtsRes : Except Err (Option (List Insp)) → String
  | .error e => "EXC:" ++ showErr e
  | .ok none => "None"
  | .ok (some l) => "[" ++ String.intercalate "," (l.map (·.fmt.name)) ++ "]"

def showPOut : POut → String
  | .done => "done" | .raised e => "raised:" ++ showErr e | .mismatch => "mismatch"

/-- wrapper with injected faults: inspector `name` raises on its `k`-th feed (0-based) without
    touching its state -/
structure FI where
  insp : Insp
  feeds : Nat
  log : List Nat          -- indices (global chunk numbers) of the chunks this inspector was handed

def faultOps (faults : List (String × Nat)) (chunkNo : Nat) : IOps FI where
  name s := s.insp.fmt.name
  eat s c :=
    if faults.contains (s.insp.fmt.name, s.feeds) then
      ({ s with feeds := s.feeds + 1, log := s.log ++ [chunkNo] }, some .runtime)
    else
      let (i, e) := eatChunk s.insp c
      ({ insp := i, feeds := s.feeds + 1, log := s.log ++ [chunkNo] }, e)
  complete s := s.insp.complete
  fmatch s := formatMatch s.insp
  finish s := { s with insp := s.insp.finish }

def faultPipe (faults : List (String × Nat)) :
    Wrap FI → List Bytes → Nat → List Bytes → (List Bytes × Wrap FI × POut)
  | w, [], _, out => (out.reverse, w.finish (faultOps faults 0), .done)
  | w, c :: cs, n, out =>
    match w.processChunk (faultOps faults n) c with
    | (w', .done) => faultPipe faults w' cs (n + 1) (c :: out)
    | (w', o) => (out.reverse, w', o)

def parseFaults (s : String) : Option (List (String × Nat)) :=
  if s = "-" then some [] else
  (s.splitOn ",").mapM (fun p => match p.splitOn "@" with
    | [n, k] => k.toNat?.map (fun k => (n, k))
    | _ => none)

def parseNames (s : String) : List String := if s = "-" then [] else s.splitOn ","

def handle : List String → String
  -- inspx <fmt> <chunk;chunk;...> <trace 0|1>: every chunk given explicitly, `Z<N>` = skippable zero run
  | ["inspx", f, chunks, tr] =>
    match Fmt.ofName? f, (if chunks = "-" then some [] else (chunks.splitOn ";").mapM parseChunkX) with
    | some f, some cs =>
      match Insp.init f with
      | none => "init-error"
      | some s0 =>
        match feedTraceX s0 cs [] with
        | none => "unmodelled-zero-run"
        | some (s1, e, trace) =>
          (if tr = "1" then String.intercalate "|" trace ++ "\t" else "") ++
            showState s1.finish ++ "\t" ++ showVerdict s1.finish e
    | _, _ => "bad-request"
  -- inspk <fmt> <content> <sizes> <trace 0|1>: like insp, but feeding continues after an error
  | ["inspk", f, content, sizes, tr] =>
    match Fmt.ofName? f, parseContent content, parseNats sizes with
    | some f, some b, some sz =>
      match Insp.init f with
      | none => "init-error"
      | some s0 =>
        let (s1, e, trace) := feedTraceK s0 (cut b sz) none []
        (if tr = "1" then String.intercalate "|" trace ++ "\t" else "") ++
          showState s1.finish ++ "\t" ++ showVerdict s1.finish e
    | _, _, _ => "bad-request"
  -- insp <fmt> <content> <sizes> <trace 0|1>
  | ["insp", f, content, sizes, tr] =>
    match Fmt.ofName? f, parseContent content, parseNats sizes with
    | some f, some b, some sz =>
      match Insp.init f with
      | none => "init-error"
      | some s0 =>
        let chunks := cut b sz
        if tr = "1" then
          let (s1, e, trace) := feedTrace s0 chunks []
          String.intercalate "|" trace ++ "\t" ++ showState s1.finish ++ "\t" ++ showVerdict s1.finish e
        else
          let (s1, e) := runChunks s0 chunks
          showState s1 ++ "\t" ++ showVerdict s1 e
    | _, _, _ => "bad-request"
  -- wrap <allowed> <expected> <content> <sizes>: decision after every read, final per-inspector verdicts
  | ["wrap", allowed, expected, content, sizes] =>
    match parseContent content, parseNats sizes with
    | some b, some sz =>
      let w0 := Wrap.mk' (if expected = "-" then none else some expected) (parseNames allowed)
      let rec go (w : Wrap Insp) (cs : List Bytes) (acc : List String) : Wrap Insp × POut × List String :=
        match cs with
        | [] => (w, .done, acc.reverse)
        | c :: cs =>
          match w.processChunk realOps c with
          | (w', .done) => go w' cs (s!"{showFmtRes (w'.format realOps)}/{showFmtsRes (w'.formats realOps)}" :: acc)
          | (w', o) => (w', o, acc.reverse)
      let (w1, o, decisions) := go w0 (cut b sz) []
      let w2 := w1.finish realOps
      String.intercalate "|" decisions ++ "\t" ++ showPOut o ++ "\t" ++
        s!"{showFmtRes (w2.format realOps)}/{showFmtsRes (w2.formats realOps)}" ++ "\t" ++
        String.intercalate ";" (w2.insps.map (fun i =>
          i.fmt.name ++ (if w2.errored.contains i.fmt.name then "!" else "") ++ " " ++ showVerdict i none))
    | _, _ => "bad-request"
  -- fault <allowed> <expected> <content> <sizes> <faults name@k,...>
  | ["fault", allowed, expected, content, sizes, faults] =>
    match parseContent content, parseNats sizes, parseFaults faults with
    | some b, some sz, some fl =>
      let w0 := Wrap.mk' (if expected = "-" then none else some expected) (parseNames allowed)
      let wf : Wrap FI := { insps := w0.insps.map (fun i => { insp := i, feeds := 0, log := [] }),
                            errored := [], expected := w0.expected, finished := false }
      let (out, w1, o) := faultPipe fl wf (cut b sz) 0 []
      s!"out={(out.map (·.length)).sum}:{adler32 out.flatten} chunks={out.length} end={showPOut o}" ++ "\t" ++
        String.intercalate ";" (w1.insps.map (fun i =>
          s!"{i.insp.fmt.name}{if w1.errored.contains i.insp.fmt.name then "!" else ""}:{String.intercalate "," (i.log.map toString)}"))
    | _, _, _ => "bad-request"
  -- detect <content>: detect_file_format + CLI exit status
  | ["detect", content] =>
    match parseContent content with
    | some b =>
      match detectFileFormat b with
      | .error e => s!"EXC:{showErr e}\texit={cliExit b}"
      | .ok i => s!"{i.fmt.name} {showVerdict i none}\texit={cliExit b}"
    | none => "bad-request"
  -- region <offset> <length> <min|N> <isEnd> <content> <sizes>: the capture engine alone
  | ["region", off, len, ml, isEnd, content, sizes] =>
    match off.toNat?, len.toNat?, parseContent content, parseNats sizes with
    | some off, some len, some b, some sz =>
      let mlv := if ml = "N" then none else ml.toNat?
      let r0 : Region := { rid := 0, offset := off, length := len, minLength := mlv, data := [],
                           isEnd := isEnd = "1", endDone := false }
      let r := (r0.feed 0 (cut b sz)).finish
      s!"{r.offset}:{r.length}:{hex r.data}:{showB r.complete}"
    | _, _, _, _ => "bad-request"
  | _ => "bad-request"

def main : IO Unit := serve handle
