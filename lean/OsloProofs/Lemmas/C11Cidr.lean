/-
Helper lemmas for C11: the model of netaddr.IPNetwork / parse_ip_network.
-/
import OsloProofs.Lemmas.C11Int
namespace Oslo.Net

/-- netaddr accepts the text as an address of the family: `IPAddress(a, version, INET_PTON)` returns -/
def AddrOK (v : Ver) (a : List Char) : Prop := ∃ x, ipAddress v a = .ok x

/-- the text is an address of the family whose value is a netmask or a hostmask -/
def MaskOK (v : Ver) (p : List Char) : Prop :=
  ∃ m, ipAddress v p = .ok m ∧ (isNetmask v m = true ∨ isHostmask m = true)

/-- what the implementation accepts after the '/': a Python `int()` literal in range, or a mask -/
def PrefixOK (v : Ver) (p : List Char) : Prop :=
  (∃ n : Int, pyInt p = some n ∧ 0 ≤ n ∧ n ≤ (width v : Int)) ∨ (pyInt p = none ∧ MaskOK v p)

theorem lemma_prefixOK_iff (v : Ver) (p : List Char) : prefixOK v p = .ok () ↔ PrefixOK v p := by
  unfold prefixOK PrefixOK MaskOK
  cases hp : pyInt p with
  | some n => simp
  | none =>
    cases hm : ipAddress v p with
    | error e => simp
    | ok m => simp; cases isNetmask v m <;> simp

theorem lemma_parseNetwork_slash (v : Ver) (a p : List Char) (h : '/' ∉ a) :
    parseNetwork v (a ++ '/' :: p) =
      (match ipAddress v a with
       | .error e => .error e
       | .ok _ => prefixOK v p) := by
  simp only [parseNetwork, lemma_splitFirst_append '/' a p h]
  cases ipAddress v a <;> rfl

theorem lemma_parseNetwork_noslash (v : Ver) (s : List Char) (h : '/' ∉ s) :
    parseNetwork v s =
      (match ipAddress v s with
       | .error e => .error e
       | .ok _ => .ok ()) := by
  simp only [parseNetwork, lemma_splitFirst_notin '/' s h]
  cases ipAddress v s <;> rfl

theorem lemma_v4_valueError (x : List Char) (h : ipAddress .v4 x = .error .valueError) :
    ipAddress .v6 x = .error .valueError := by
  by_cases hs : '/' ∈ x
  · simp [ipAddress, hs]
  · have hn : nul ∈ x := by
      apply Classical.byContradiction; intro h3
      by_cases h1 : ':' ∈ x
      · simp [ipAddress, strToInt4, hs, h1] at h
      · by_cases h2 : (splitOn '.' x).any leadingZero = true
        · simp [ipAddress, strToInt4, hs, h1, h2] at h
        · simp [ipAddress, strToInt4, hs, h1, h2, h3] at h
          split at h <;> cases h
    simp [ipAddress, strToInt6, hs, hn]

theorem lemma_prefix_valueError (p : List Char) (h : prefixOK .v4 p = .error .valueError) :
    prefixOK .v6 p = .error .valueError := by
  unfold prefixOK at h ⊢
  cases hp : pyInt p with
  | some n => rw [hp] at h; simp only at h; split at h <;> cases h
  | none =>
    rw [hp] at h; simp only at h ⊢
    cases hm : ipAddress .v4 p with
    | error e =>
      rw [hm] at h; simp only at h
      cases h
      rw [lemma_v4_valueError p hm]
    | ok m => rw [hm] at h; simp only at h; split at h <;> cases h

theorem lemma_parse_valueError (s : List Char) (h : parseNetwork .v4 s = .error .valueError) :
    parseNetwork .v6 s ≠ .ok () := by
  unfold parseNetwork at h ⊢
  simp only at h ⊢
  cases ha : ipAddress .v4 (splitFirst '/' s).1 with
  | error e =>
    rw [ha] at h; simp only at h; cases h
    rw [lemma_v4_valueError _ ha]; simp
  | ok x =>
    rw [ha] at h; simp only at h
    cases hp : (splitFirst '/' s).2 with
    | none => rw [hp] at h; cases h
    | some p =>
      rw [hp] at h; simp only at h
      cases hb : ipAddress .v6 (splitFirst '/' s).1 with
      | error e => simp
      | ok y => simp [lemma_prefix_valueError p h]

theorem lemma_ipNetwork_ok (s : List Char) :
    ipNetwork s = .ok () ↔ parseNetwork .v4 s = .ok () ∨ parseNetwork .v6 s = .ok () := by
  unfold ipNetwork
  cases h4 : parseNetwork .v4 s with
  | ok u => simp
  | error e =>
    cases e with
    | addrFormat => simp
    | valueError => simp; exact lemma_parse_valueError s h4

theorem lemma_first_split (sep : Char) (s : List Char) (h : sep ∈ s) :
    ∃ a p, s = a ++ sep :: p ∧ sep ∉ a := by
  induction s with
  | nil => simp at h
  | cons c cs ih =>
    by_cases hc : c = sep
    · exact ⟨[], cs, by simp [hc], by simp⟩
    · simp at h
      rcases h with h | h
      · exact absurd h.symm hc
      · obtain ⟨a, p, e, ha⟩ := ih h
        exact ⟨c :: a, p, by simp [e], by simp [ha]; intro e; exact hc e.symm⟩

theorem lemma_split_unique (sep : Char) (a p a' p' : List Char) (ha : sep ∉ a) (ha' : sep ∉ a')
    (h : a ++ sep :: p = a' ++ sep :: p') : a = a' ∧ p = p' := by
  have h1 := lemma_splitFirst_append sep a p ha
  have h2 := lemma_splitFirst_append sep a' p' ha'
  rw [h, h2] at h1
  simp at h1
  exact ⟨h1.1.symm, h1.2.symm⟩

theorem lemma_ipAddress_ok_noslash (v : Ver) (p : List Char) (m : Nat) (h : ipAddress v p = .ok m) :
    '/' ∉ p := by
  unfold ipAddress at h
  split at h
  · cases h
  · rename_i hs; simpa using hs

theorem lemma_ipAddress_nil (v : Ver) : ipAddress v [] = .error .addrFormat := by
  cases v <;> rfl

/-- an accepted prefix is not empty and contains no '/' -/
theorem lemma_prefix_shape (v : Ver) (p : List Char) (h : PrefixOK v p) : p ≠ [] ∧ '/' ∉ p := by
  rcases h with ⟨n, hn, _⟩ | ⟨_, m, hm, _⟩
  · constructor
    · intro e; subst e
      have : pyInt [] = none := by decide
      rw [this] at hn; cases hn
    · intro hs
      rw [lemma_pyInt_notin p '/' lemma_slash_not_intChar hs] at hn; cases hn
  · constructor
    · intro e; subst e; rw [lemma_ipAddress_nil] at hm; cases hm
    · exact lemma_ipAddress_ok_noslash v p m hm

/-- full characterisation of `is_valid_cidr` in the model (the prefix text with Python `int()` semantics) -/
theorem lemma_cidr_iff (s : List Char) :
    isValidCidr s = true ↔
      ∃ a p, s = a ++ '/' :: p ∧ '/' ∉ a ∧
        ((AddrOK .v4 a ∧ PrefixOK .v4 p) ∨ (AddrOK .v6 a ∧ PrefixOK .v6 p)) := by
  have key : ∀ v a p, '/' ∉ a →
      (parseNetwork v (a ++ '/' :: p) = .ok () ↔ AddrOK v a ∧ PrefixOK v p) := by
    intro v a p ha
    rw [lemma_parseNetwork_slash v a p ha, ← lemma_prefixOK_iff]
    unfold AddrOK
    cases ipAddress v a <;> simp
  constructor
  · intro h
    unfold isValidCidr at h
    cases hn : ipNetwork s with
    | error e => rw [hn] at h; cases h
    | ok u =>
      rw [hn] at h; simp only at h
      have hmem : '/' ∈ s := by
        apply Classical.byContradiction; intro hno
        rw [lemma_splitOn_notin '/' s hno] at h; cases h
      obtain ⟨a, p, rfl, ha⟩ := lemma_first_split '/' s hmem
      refine ⟨a, p, rfl, ha, ?_⟩
      rcases (lemma_ipNetwork_ok _).1 hn with h4 | h6
      · exact Or.inl ((key _ a p ha).1 h4)
      · exact Or.inr ((key _ a p ha).1 h6)
  · rintro ⟨a, p, rfl, ha, h⟩
    have hn : ipNetwork (a ++ '/' :: p) = .ok () := by
      rw [lemma_ipNetwork_ok]
      rcases h with h | h
      · exact Or.inl ((key _ a p ha).2 h)
      · exact Or.inr ((key _ a p ha).2 h)
    have hp : p ≠ [] ∧ '/' ∉ p := by
      rcases h with h | h
      · exact lemma_prefix_shape _ p h.2
      · exact lemma_prefix_shape _ p h.2
    unfold isValidCidr
    rw [hn, lemma_splitOn_append '/' a p ha, lemma_splitOn_notin '/' p hp.2]
    simp [hp.1]

theorem lemma_cidr6_iff (s : List Char) :
    isValidIPv6Cidr s = true ↔
      ('/' ∉ s ∧ AddrOK .v6 s) ∨
      ∃ a p, s = a ++ '/' :: p ∧ '/' ∉ a ∧ AddrOK .v6 a ∧ PrefixOK .v6 p := by
  unfold isValidIPv6Cidr
  by_cases hmem : '/' ∈ s
  · obtain ⟨a, p, rfl, ha⟩ := lemma_first_split '/' s hmem
    rw [lemma_parseNetwork_slash _ a p ha]
    constructor
    · intro h
      refine Or.inr ⟨a, p, rfl, ha, ?_⟩
      unfold AddrOK
      rw [← lemma_prefixOK_iff]
      cases hx : ipAddress .v6 a with
      | error e => rw [hx] at h; cases h
      | ok x => rw [hx] at h; simp only at h; cases hq : prefixOK .v6 p <;> simp_all [isOk]
    · rintro (⟨hno, _⟩ | ⟨a', p', e, ha', ⟨x, hx⟩, hp⟩)
      · exact absurd hmem hno
      · obtain ⟨rfl, rfl⟩ := lemma_split_unique '/' a p a' p' ha ha' e
        rw [hx]; simp only
        rw [(lemma_prefixOK_iff _ _).2 hp]; rfl
  · rw [lemma_parseNetwork_noslash _ s hmem]
    constructor
    · intro h
      refine Or.inl ⟨hmem, ?_⟩
      unfold AddrOK
      cases hx : ipAddress .v6 s with
      | error e => rw [hx] at h; cases h
      | ok x => exact ⟨x, rfl⟩
    · rintro (⟨_, x, hx⟩ | ⟨a', p', e, _⟩)
      · rw [hx]; rfl
      · exact absurd (by rw [e]; simp) hmem

end Oslo.Net
