/-
C04 — mask_password hides every supported secret and changes nothing else.

Property theorems only (helper lemmas live in OsloProofs/Lemmas/C04*.lean).
The model is OsloModel/Mask.lean over the *generated* tables
(OsloModel/Generated/Mask.lean, written from the live strutils on every run).
-/
import OsloModel.Mask
import OsloProofs.Lemmas.C04Flat
import OsloProofs.Lemmas.C04Mask
namespace Oslo.Mask
open Oslo.Flat

/-! ### the tables -/

/-- the 35 keys named by the property (strutils.py:69-79 at the pinned commit) -/
def specKeys : List String :=
  ["adminpass", "admin_pass", "password", "admin_password", "auth_token", "new_pass", "auth_password",
   "secret_uuid", "secret", "sys_pswd", "token", "configdrive", "chappassword", "encrypted_key",
   "private_key", "fernetkey", "sslkey", "passphrase", "cephclusterfsid", "octaviaheartbeatkey",
   "rabbitcookie", "cephmanilaclientkey", "pacemakerremoteauthkey", "designaterndckey", "cephadminkey",
   "heatauthencryptionkey", "cephclientkey", "keystonecredential", "barbicansimplecryptokek", "cephrgwkey",
   "swifthashsuffix", "migrationsshkey", "cephmdskey", "cephmonkey", "chapsecret"]

/-- every key the property names is in the list the code uses -/
theorem sanitize_keys_cover_spec : ∀ k ∈ specKeys, k.toList ∈ Gen.sanitizeKeys := by decide

/-! The reviewed templates: what the twelve patterns of strutils.py:91-108 compile to, with the key
abstracted, case-insensitivity folded in and `\s` = `Gen.wsRanges`. -/

def digitC : Cls := cls [(48, 57)]                                   -- [0-9]
def wsC : Cls := cls Gen.wsRanges                                     -- \s
def eqC : Cls := cls [(61, 61)]                                       -- [=]
def quoteC : Cls := cls [(34, 34), (39, 39)]                          -- ["']
def dqC : Cls := cls [(34, 34)]
def sqC : Cls := cls [(39, 39)]
def nquoteC : Cls := ncls [(34, 34), (39, 39)]                        -- [^"']
def bareC : Cls := ncls (Gen.wsRanges ++ [(34, 34), (39, 39)])        -- [^\s'"]
def dashValC : Cls := ncls (Gen.wsRanges ++ [(34, 34), (39, 39), (61, 61)])  -- [^'"=\s]
def dashC : Cls := cls [(45, 45)]
def uC : Cls := cls [(85, 85), (117, 117)]                            -- u under IGNORECASE
def flagC : Cls := cls [(65, 122), (304, 305), (383, 383), (8490, 8490)]  -- [A-z] under IGNORECASE
def colonC : Cls := cls [(58, 58)]
def commaC : Cls := cls [(44, 44)]
def ltC : Cls := cls [(60, 60)]
def gtC : Cls := cls [(62, 62)]
def slashC : Cls := cls [(47, 47)]

def tplEqQuoted : Template := ⟨[.key, star digitC, star wsC, one eqC, star wsC, one quoteC], [star nquoteC], [one quoteC]⟩
def tplEqDq : Template := ⟨[.key, star digitC, star wsC, one eqC, star wsC, one dqC], [star (ncls [(34, 34)])], [one dqC]⟩
def tplEqSq : Template := ⟨[.key, star digitC, star wsC, one eqC, star wsC, one sqC], [star (ncls [(39, 39)])], [one sqC]⟩
def tplKeyQuoted : Template := ⟨[.key, star digitC, plus wsC, one quoteC], [star nquoteC], [one quoteC]⟩
def tplDashDash : Template := ⟨[rep dashC 2 (some 2), .key, star digitC, plus wsC], [plus dashValC], [star wsC]⟩
def tplXml : Template := ⟨[one ltC, .key, star digitC, one gtC], [star (ncls [(60, 60)])],
                          [one ltC, one slashC, .key, star digitC, one gtC]⟩
def tplColonQuoted : Template :=
  ⟨[one quoteC, .key, star digitC, one quoteC, star wsC, one colonC, star wsC, one quoteC], [star nquoteC], [one quoteC]⟩
def tplColonPrefixed : Template :=
  ⟨[one quoteC, star nquoteC, .key, star digitC, one quoteC, star wsC, one colonC, star wsC, opt uC, one quoteC],
   [star nquoteC], [one quoteC]⟩
def tplCmdList : Template :=
  ⟨[one quoteC, star nquoteC, .key, star digitC, one quoteC, star wsC, one commaC, star wsC, one sqC, one dashC,
    opt dashC, plus flagC, one sqC, star wsC, one commaC, star wsC, opt uC, one quoteC],
   [star nquoteC], [one quoteC]⟩
def tplCmdFlag : Template :=
  ⟨[.key, star digitC, star wsC, one dashC, opt dashC, plus flagC, star wsC], [plus (ncls Gen.wsRanges)], [star wsC]⟩
def tplEqBare : Template := ⟨[.key, star digitC, star wsC, one eqC, star wsC], [plus bareC], []⟩
def tplWildcard : Template :=
  ⟨[one quoteC, star nquoteC, .key, star digitC, one quoteC, star wsC, one colonC, star wsC, opt uC, one quoteC,
    star (ncls []), one quoteC],
   [star nquoteC], [one quoteC]⟩

/-- the generated templates (from the live compiled patterns) are the reviewed ones, in the code's order;
    an edited, added, removed or reordered pattern breaks this -/
theorem templates_as_reviewed :
    Gen.patterns2 = [tplEqQuoted, tplEqDq, tplEqSq, tplKeyQuoted, tplDashDash, tplXml, tplColonQuoted,
                     tplColonPrefixed, tplCmdList, tplCmdFlag] ∧
    Gen.patterns1 = [tplEqBare] ∧ Gen.patternsWildcard = [tplWildcard] ∧
    Gen.ignoreCase = true ∧ Gen.foldExtra = [(105, [304, 305]), (107, [8490]), (115, [383])] := by
  decide

/-! ### no key, no change -/

theorem lemma_maskWith_nokey (mask msg : List Char) : ∀ (keys : List (List Char)),
    (∀ key ∈ keys, isInfix key (pyLower msg) = false) → maskWith keys mask msg = msg := by
  intro keys
  induction keys with
  | nil => intro _; rfl
  | cons k keys ih =>
    intro h
    have hk : isInfix k (pyLower msg) = false := h k (by simp)
    have : maskStep mask msg k = msg := by simp [maskStep, hk]
    simp only [maskWith, List.foldl_cons, this]
    exact ih (fun key hkey => h key (by simp [hkey]))

/-- a message in whose lower-casing no sanitize key occurs is returned unchanged (every message, every mask) -/
theorem mask_nokey_id (msg mask : List Char)
    (h : ∀ key ∈ Gen.sanitizeKeys, isInfix key (pyLower msg) = false) : maskPassword msg mask = msg :=
  lemma_maskWith_nokey mask msg Gen.sanitizeKeys h

example : ∀ key ∈ Gen.sanitizeKeys, isInfix key (pyLower "user=bob pass word=1 ſecret=2".toList) = false := by
  decide

/-! ### rendering `key=value` (bare): the pattern of `_FORMAT_PATTERNS_1` -/

theorem lemma_inRanges_append (n : Nat) : ∀ (a b : List (Nat × Nat)), inRanges n (a ++ b) = (inRanges n a || inRanges n b) := by
  intro a
  induction a with
  | nil => intro b; simp [inRanges]
  | cons x a ih => intro b; obtain ⟨lo, hi⟩ := x; simp [inRanges, ih, Bool.or_assoc]

theorem lemma_ws_not_digit (c : Char) (h : wsC.test c = true) : digitC.test c = false := by
  simp only [wsC, digitC, cls, Cls.test, Gen.wsRanges, inRanges] at h ⊢
  simp at h ⊢
  omega

theorem lemma_bare_not_ws (c : Char) (h : bareC.test c = true) : wsC.test c = false := by
  simp only [bareC, wsC, ncls, cls, Cls.test, lemma_inRanges_append] at h ⊢
  simp at h ⊢
  exact h.1

theorem lemma_matchPat_eq_bare (K K' ds w1 w2 secret post : List Char)
    (hK : keyMatch K K' = true) (hds : ∀ c ∈ ds, digitC.test c = true) (hw1 : ∀ c ∈ w1, wsC.test c = true)
    (hw2 : ∀ c ∈ w2, wsC.test c = true) (hsec : secret ≠ []) (hsecV : ∀ c ∈ secret, bareC.test c = true)
    (hpost : ∀ c, post.head? = some c → bareC.test c = false) :
    matchPat (tplEqBare.inst (keyItems K)) (K' ++ (ds ++ (w1 ++ ('=' :: (w2 ++ (secret ++ post)))))) =
      some ⟨(secret ++ post).length, post.length, post.length⟩ := by
  unfold matchPat
  simp only [tplEqBare, Template.inst, instItems, star, one, plus]
  rw [matchSeq_keyItems, keyPrefix_of_keyMatch K K' _ hK, if_pos rfl]
  rw [← keyMatch_length K K' hK, List.drop_left]
  -- [0-9]*
  apply matchSeq_cons_greedy _ _ _ ds _ _ rfl (Nat.zero_le _) hds
  · apply head_append_of_all _ w1 _ (fun c hc => lemma_ws_not_digit c (hw1 c hc))
    intro c hc; simp at hc; subst hc; decide
  -- \s*
  apply matchSeq_cons_greedy _ _ _ w1 _ _ rfl (Nat.zero_le _) hw1
  · intro c hc; simp at hc; subst hc; decide
  -- [=]
  rw [matchSeq_one]
  simp only [show eqC.test '=' = true by decide, if_true]
  -- \s*
  apply matchSeq_cons_greedy _ _ _ w2 _ _ rfl (Nat.zero_le _) hw2
  · intro c hc
    cases secret with
    | nil => exact absurd rfl hsec
    | cons x xs => simp at hc; subst hc; exact lemma_bare_not_ws _ (hsecV _ (by simp))
  -- [^\s'"]+ , end of pattern
  apply matchSeq_cons_greedy _ _ _ secret post _ rfl _ hsecV hpost
  · simp [matchSeq]
  · cases secret with
    | nil => exact absurd rfl hsec
    | cons x xs => simp

/-- **Rendering `key = value` (bare), one pattern.**  For every key `K`, every spelling `K'` of it that the
compiled pattern accepts (any letter case, and the non-ASCII characters IGNORECASE equates), every digit
suffix, any whitespace around `=`, every non-empty secret over the value class of the generated template
(`[^\s'"]`, so regex metacharacters, `=`, `^`, non-ASCII … included), every mask, every prefix in which the
key does not start before the rendering, every suffix that does not continue the value and does not contain
the key: `re.sub` of the `_FORMAT_PATTERNS_1` pattern of `K` replaces exactly the value by the mask.

This is the statement about the *one* substitution that is responsible for the rendering, at full generality
in key, spelling, secret, mask and surroundings (greedy-first lemma for the match, leftmost lemma for the
prefix, no-key lemma for the suffix).  `mask_rendering_eq_bare_partial` below lifts it to `mask_password` as a
whole. -/
theorem sub_rendering_eq_bare (K K' ds w1 w2 secret pre post mask : List Char)
    (hK : keyMatch K K' = true) (hds : ∀ c ∈ ds, digitC.test c = true) (hw1 : ∀ c ∈ w1, wsC.test c = true)
    (hw2 : ∀ c ∈ w2, wsC.test c = true) (hsec : secret ≠ []) (hsecV : ∀ c ∈ secret, bareC.test c = true)
    (hpost : ∀ c, post.head? = some c → bareC.test c = false)
    (hpre : ∀ j, j < pre.length →
      keyPrefix K (pre.drop j ++ (K' ++ ds ++ w1 ++ ['='] ++ w2 ++ secret ++ post)) = false)
    (hpostK : occursCI K post = false) :
    subPat (tplEqBare.inst (keyItems K)) rep1 mask (pre ++ (K' ++ ds ++ w1 ++ ['='] ++ w2 ++ secret ++ post))
      = pre ++ (K' ++ ds ++ w1 ++ ['='] ++ w2 ++ mask ++ post) := by
  have hkey : TItem.key ∈ tplEqBare.g1 := by simp [tplEqBare]
  unfold subPat
  rw [subAux_prefix]
  · congr 1
    -- the match at the rendering
    have hassoc : K' ++ ds ++ w1 ++ ['='] ++ w2 ++ secret ++ post
        = (K' ++ ds ++ w1 ++ ['='] ++ w2 ++ secret) ++ post := by simp
    have hm := lemma_matchPat_eq_bare K K' ds w1 w2 secret post hK hds hw1 hw2 hsec hsecV hpost
    have hflat : K' ++ (ds ++ (w1 ++ ('=' :: (w2 ++ (secret ++ post)))))
        = (K' ++ ds ++ w1 ++ ['='] ++ w2 ++ secret) ++ post := by simp
    rw [hflat] at hm
    rw [hassoc, subAux_match _ (K' ++ ds ++ w1 ++ ['='] ++ w2 ++ secret) post (K' ++ ds ++ w1 ++ ['='] ++ w2 ++ mask)]
    · have := subPat_noKey tplEqBare rep1 K mask post hkey hpostK
      unfold subPat at this
      rw [this]
    · simp
    · simp only [matchRepl, hm]
      have h1 : (K' ++ ds ++ w1 ++ ['='] ++ w2 ++ secret ++ post).length - post.length
          = (K' ++ ds ++ w1 ++ ['='] ++ w2 ++ secret).length := by
        simp only [List.length_append, List.length_cons, List.length_nil]; omega
      have h2 : K' ++ ds ++ w1 ++ ['='] ++ w2 ++ secret ++ post
          = (K' ++ ds ++ w1 ++ ['='] ++ w2) ++ (secret ++ post) := by simp
      rw [h1]
      congr 2
      rw [h2, take_length_sub]
      simp [rep1, expand]
  · intro j hj
    apply matchRepl_none
    unfold matchPat
    simp only [tplEqBare, Template.inst, instItems]
    rw [matchSeq_keyItems, hpre j hj]
    simp

/-- non-vacuity: a concrete instance of every hypothesis (mixed-case key with a digit suffix, a secret made of
    regex metacharacters and a non-ASCII case-fold character, neutral surroundings) -/
example :
    let K := "password".toList; let K' := "PassWord".toList; let ds := "12".toList
    let w1 := " ".toList; let w2 : List Char := []; let secret := "a^b$c.*ſ=".toList
    let pre := "user=x pass ".toList; let post := " and more".toList
    keyMatch K K' = true ∧ (∀ c ∈ ds, digitC.test c = true) ∧ (∀ c ∈ w1, wsC.test c = true) ∧
    (∀ c ∈ w2, wsC.test c = true) ∧ secret ≠ [] ∧ (∀ c ∈ secret, bareC.test c = true) ∧
    (∀ c, post.head? = some c → bareC.test c = false) ∧
    (∀ j, j < pre.length → keyPrefix K (pre.drop j ++ (K' ++ ds ++ w1 ++ ['='] ++ w2 ++ secret ++ post)) = false) ∧
    occursCI K post = false := by
  decide

/-- … and the whole model on that message (all patterns of all keys) -/
example : maskPassword "user=x pass PassWord12 =a^b$c.*ſ= and more".toList "***".toList
    = "user=x pass PassWord12 =*** and more".toList := by decide +kernel

/-- the same substitution applied to an already masked `key=value` message changes nothing, for every
    non-empty mask over the value class -/
theorem sub_idempotent_on_masked_eq_bare (K K' ds w1 w2 pre post mask : List Char)
    (hK : keyMatch K K' = true) (hds : ∀ c ∈ ds, digitC.test c = true) (hw1 : ∀ c ∈ w1, wsC.test c = true)
    (hw2 : ∀ c ∈ w2, wsC.test c = true) (hmask : mask ≠ []) (hmaskV : ∀ c ∈ mask, bareC.test c = true)
    (hpost : ∀ c, post.head? = some c → bareC.test c = false)
    (hpre : ∀ j, j < pre.length →
      keyPrefix K (pre.drop j ++ (K' ++ ds ++ w1 ++ ['='] ++ w2 ++ mask ++ post)) = false)
    (hpostK : occursCI K post = false) :
    subPat (tplEqBare.inst (keyItems K)) rep1 mask (pre ++ (K' ++ ds ++ w1 ++ ['='] ++ w2 ++ mask ++ post))
      = pre ++ (K' ++ ds ++ w1 ++ ['='] ++ w2 ++ mask ++ post) :=
  sub_rendering_eq_bare K K' ds w1 w2 mask pre post mask hK hds hw1 hw2 hmask hmaskV hpost hpre hpostK

/-! ### helper lemmas for the lift from one substitution to `mask_password` -/

theorem lemma_instItems_mem (ki : List Item) (i : Item) : ∀ (ts : List TItem), TItem.it i ∈ ts → i ∈ instItems ki ts := by
  intro ts
  induction ts with
  | nil => intro h; simp at h
  | cons t ts ih =>
    intro h
    cases t with
    | key =>
      have : TItem.it i ∈ ts := by simpa using h
      simp [instItems, ih this]
    | it i' =>
      rcases List.mem_cons.1 h with h | h
      · cases h; simp [instItems]
      · simp [instItems, ih h]

/-- a template with a mandatory quote item in its first group cannot match a text without quotes -/
theorem lemma_sub_noquote (t : Template) (qc : Cls) (rep : List RepTok) (ki : List Item) (mask M : List Char)
    (hq : one qc ∈ t.g1) (hqc : ∀ c, quoteC.test c = false → qc.test c = false)
    (hM : ∀ c ∈ M, quoteC.test c = false) : subPat (t.inst ki) rep mask M = M := by
  unfold subPat
  apply subAux_none
  intro j _
  apply matchRepl_none
  apply matchPat_none_of_missing _ _ ⟨qc, 1, some 1⟩
  · simp only [Template.inst]
    exact List.mem_append_left _ (lemma_instItems_mem ki _ t.g1 hq)
  · exact Nat.le_refl 1
  · intro c hc
    exact hqc c (hM c (List.mem_of_mem_drop hc))

theorem lemma_Consumes_keyItems_inv (rest : List Item) : ∀ (K s s' : List Char),
    Consumes (keyItems K ++ rest) s s' → keyPrefix K s = true ∧ Consumes rest (s.drop K.length) s' := by
  intro K
  induction K with
  | nil => intro s s' h; exact ⟨rfl, by simpa [keyItems] using h⟩
  | cons c K ih =>
    intro s s' h
    have hki : keyItems (c :: K) = ⟨keyCls c, 1, some 1⟩ :: keyItems K := by simp [keyItems]
    rw [hki, List.cons_append] at h
    obtain ⟨a, t, hs, ha, hr⟩ := h.one_inv
    obtain ⟨h1, h2⟩ := ih t s' hr
    subst hs
    exact ⟨by simp [keyPrefix, ha, h1], by simpa using h2⟩

/-- the key occurs (as `re` reads it) at exactly one place of `M`: after `n` characters -/
def UniqueAt (K M : List Char) (n : Nat) : Prop :=
  ∀ a b, M = a ++ b → keyPrefix K b = true → a.length = n

theorem lemma_uniqueAt_of_drop (K M : List Char) (n : Nat)
    (h : ∀ j, j ≤ M.length → keyPrefix K (M.drop j) = true → j = n) : UniqueAt K M n := by
  intro a b hM hk
  have := h a.length (by rw [hM]; simp) (by rw [hM]; simpa using hk)
  exact this


/-- `--KEY value` cannot match when the only occurrence of the key is not preceded by `-` -/
theorem lemma_nomatch_dashdash (K M pre R : List Char) (hM : M = pre ++ R)
    (hu : UniqueAt K M pre.length) (hlast : ∀ c, pre.getLast? = some c → dashC.test c = false)
    (a b : List Char) (hab : M = a ++ b) : matchPat (tplDashDash.inst (keyItems K)) b = none := by
  cases hm : matchPat (tplDashDash.inst (keyItems K)) b with
  | none => rfl
  | some bd =>
    exfalso
    obtain ⟨s1, s2, s3, c1, _, _, _⟩ := matchPat_some _ _ _ hm
    simp only [tplDashDash, Template.inst, instItems, rep, star, plus] at c1
    cases c1 with
    | cons _ _ seg t _ hseg hlo hhi hrest =>
      obtain ⟨hk, _⟩ := lemma_Consumes_keyItems_inv _ K t s1 hrest
      have hlen : (a ++ seg).length = pre.length := hu (a ++ seg) t (by rw [hab]; simp) hk
      have hpre : pre = a ++ seg := by
        have h1 : pre ++ R = (a ++ seg) ++ t := by rw [← hM, hab]; simp
        exact (List.append_inj_left h1 hlen.symm)
      have h2 : seg.length = 2 := by have := hhi 2 rfl; simp at hlo; omega
      match seg, h2 with
      | [x, y], _ =>
        have := hlast y (by rw [hpre]; simp)
        rw [hseg y (by simp)] at this
        cases this

/-- `<KEY>…</KEY>` needs the key twice -/
theorem lemma_nomatch_xml (K M : List Char) (n : Nat) (hu : UniqueAt K M n)
    (a b : List Char) (hab : M = a ++ b) : matchPat (tplXml.inst (keyItems K)) b = none := by
  cases hm : matchPat (tplXml.inst (keyItems K)) b with
  | none => rfl
  | some bd =>
    exfalso
    obtain ⟨s1, s2, s3, c1, c2, c3, _⟩ := matchPat_some _ _ _ hm
    simp only [tplXml, Template.inst, instItems, one, star] at c1 c3
    obtain ⟨x, b', hb, _, c1'⟩ := c1.one_inv
    obtain ⟨hk1, c1''⟩ := lemma_Consumes_keyItems_inv _ K b' s1 c1'
    obtain ⟨y, t1, ht1, _, c3'⟩ := c3.one_inv
    obtain ⟨z, t2, ht2, _, c3''⟩ := c3'.one_inv
    obtain ⟨hk2, _⟩ := lemma_Consumes_keyItems_inv _ K t2 s3 c3''
    obtain ⟨u, hu1⟩ := c1''.suffix
    obtain ⟨v, hv⟩ := c2.suffix
    have e1 : (a ++ [x]).length = n := hu (a ++ [x]) b' (by rw [hab, hb]; simp) hk1
    have hb' : b' = b'.take K.length ++ (u ++ (v ++ (y :: z :: t2))) := by
      conv => lhs; rw [← List.take_append_drop K.length b', hu1, hv, ht1, ht2]
    have e2 : (a ++ [x] ++ b'.take K.length ++ u ++ v ++ [y, z]).length = n :=
      hu _ t2 (by rw [hab, hb]; (conv => lhs; rw [hb']); simp [List.append_assoc]) hk2
    simp at e1 e2
    omega

theorem lemma_ws_not_dash (c : Char) (h : wsC.test c = true) : dashC.test c = false := by
  simp only [wsC, dashC, cls, Cls.test, Gen.wsRanges, inRanges] at h ⊢
  simp at h ⊢
  omega

theorem lemma_digit_not_dash (c : Char) (h : digitC.test c = true) : dashC.test c = false := by
  simp only [digitC, dashC, cls, Cls.test, inRanges] at h ⊢
  simp at h ⊢
  omega

theorem lemma_digit_not_ws (c : Char) (h : digitC.test c = true) : wsC.test c = false := by
  simp only [wsC, digitC, cls, Cls.test, Gen.wsRanges, inRanges] at h ⊢
  simp at h ⊢
  omega

/-- after `KEY digits ws*` comes `=`, not the `-` of `key --flag value` -/
theorem lemma_nomatch_cmdflag_eq (K K' ds w1 X s1 : List Char) (hK : keyMatch K K' = true)
    (hds : ∀ c ∈ ds, digitC.test c = true) (hw1 : ∀ c ∈ w1, wsC.test c = true) :
    ¬ Consumes (instItems (keyItems K) tplCmdFlag.g1) (K' ++ (ds ++ (w1 ++ ('=' :: X)))) s1 := by
  intro c1
  simp only [tplCmdFlag, instItems, one, star, plus, opt] at c1
  obtain ⟨_, c2⟩ := lemma_Consumes_keyItems_inv _ K _ s1 c1
  rw [← keyMatch_length K K' hK, List.drop_left] at c2
  obtain ⟨j, _, _, c3⟩ := c2.star_inv (by
    apply head_append_of_all _ w1 _ (fun c hc => lemma_ws_not_digit c (hw1 c hc))
    intro c hc; simp at hc; subst hc; decide)
  cases hd : ds.drop j with
  | nil =>
    rw [hd, List.nil_append] at c3
    obtain ⟨j2, _, _, c4⟩ := c3.star_inv (by intro c hc; simp at hc; subst hc; decide)
    obtain ⟨x, t, hx, hxd, _⟩ := c4.one_inv
    cases hw : w1.drop j2 with
    | nil =>
      rw [hw, List.nil_append] at hx
      have hxe : x = '=' := (List.cons.inj hx).1.symm
      subst hxe
      revert hxd; decide
    | cons y ys =>
      rw [hw, List.cons_append] at hx
      have hxe : x = y := (List.cons.inj hx).1.symm
      subst hxe
      have hmem : x ∈ w1.drop j2 := by rw [hw]; simp
      rw [lemma_ws_not_dash _ (hw1 _ (List.mem_of_mem_drop hmem))] at hxd; cases hxd
  | cons d ds' =>
    have hdm' : d ∈ ds.drop j := by rw [hd]; simp
    have hdm : d ∈ ds := List.mem_of_mem_drop hdm'
    rw [hd] at c3
    obtain ⟨j2, _, hj2, c4⟩ := Consumes.star_inv (r := []) (t := d :: ds' ++ (w1 ++ '=' :: X)) c3 (by
      intro c hc; simp at hc; subst hc; exact lemma_digit_not_ws _ (hds _ hdm))
    have : j2 = 0 := by simpa using hj2
    subst this
    obtain ⟨x, t, hx, hxd, _⟩ := c4.one_inv
    simp at hx
    rw [← hx.1, lemma_digit_not_dash _ (hds _ hdm)] at hxd; cases hxd


theorem lemma_ws_not_quote (c : Char) (h : wsC.test c = true) : quoteC.test c = false := by
  simp only [wsC, quoteC, cls, Cls.test, Gen.wsRanges, inRanges] at h ⊢
  simp at h ⊢
  omega

theorem lemma_digit_not_quote (c : Char) (h : digitC.test c = true) : quoteC.test c = false := by
  simp only [digitC, quoteC, cls, Cls.test, inRanges] at h ⊢
  simp at h ⊢
  omega

theorem lemma_bare_not_quote (c : Char) (h : bareC.test c = true) : quoteC.test c = false := by
  simp only [bareC, quoteC, ncls, cls, Cls.test, lemma_inRanges_append] at h ⊢
  simp at h ⊢
  simp [inRanges] at h ⊢
  omega

theorem lemma_noquote_dq (c : Char) (h : quoteC.test c = false) : dqC.test c = false := by
  simp only [dqC, quoteC, cls, Cls.test, inRanges] at h ⊢
  simp at h ⊢
  omega

theorem lemma_noquote_sq (c : Char) (h : quoteC.test c = false) : sqC.test c = false := by
  simp only [sqC, quoteC, cls, Cls.test, inRanges] at h ⊢
  simp at h ⊢
  omega

theorem lemma_occursCI_exists (K : List Char) : ∀ (s : List Char), occursCI K s = true →
    ∃ j, j ≤ s.length ∧ keyPrefix K (s.drop j) = true := by
  intro s
  induction s with
  | nil => intro h; exact ⟨0, by simp, by simpa [occursCI] using h⟩
  | cons c s ih =>
    intro h
    simp only [occursCI, Bool.or_eq_true] at h
    rcases h with h | h
    · exact ⟨0, by simp, by simpa using h⟩
    · obtain ⟨j, hj, hk⟩ := ih h
      exact ⟨j + 1, by simp; omega, by simpa using hk⟩

/-- the whole `if key in message.lower():` body on a bare `key=value` message: only the
    `_FORMAT_PATTERNS_1` pattern fires -/
theorem lemma_applyKey_eq_bare (K K' ds w1 w2 secret pre post mask : List Char)
    (hK : keyMatch K K' = true) (hds : ∀ c ∈ ds, digitC.test c = true) (hw1 : ∀ c ∈ w1, wsC.test c = true)
    (hw2 : ∀ c ∈ w2, wsC.test c = true) (hsec : secret ≠ []) (hsecV : ∀ c ∈ secret, bareC.test c = true)
    (hpost : ∀ c, post.head? = some c → bareC.test c = false)
    (hKq : ∀ c ∈ K', quoteC.test c = false)
    (hpreq : ∀ c ∈ pre, quoteC.test c = false) (hpostq : ∀ c ∈ post, quoteC.test c = false)
    (hmaskq : ∀ c ∈ mask, quoteC.test c = false)
    (hlast : ∀ c, pre.getLast? = some c → dashC.test c = false)
    (hu : ∀ j, j ≤ (pre ++ (K' ++ ds ++ w1 ++ ['='] ++ w2 ++ secret ++ post)).length →
      keyPrefix K ((pre ++ (K' ++ ds ++ w1 ++ ['='] ++ w2 ++ secret ++ post)).drop j) = true → j = pre.length) :
    applyKey K mask (pre ++ (K' ++ ds ++ w1 ++ ['='] ++ w2 ++ secret ++ post))
      = pre ++ (K' ++ ds ++ w1 ++ ['='] ++ w2 ++ mask ++ post) := by
  have hU := lemma_uniqueAt_of_drop K _ _ hu
  -- no quote anywhere in the message, nor in the masked message
  have hMq : ∀ c ∈ pre ++ (K' ++ ds ++ w1 ++ ['='] ++ w2 ++ secret ++ post), quoteC.test c = false := by
    intro c hc
    simp only [List.mem_append, List.mem_cons, List.not_mem_nil, or_false] at hc
    rcases hc with h | ((((((h | h) | h) | h) | h) | h) | h)
    · exact hpreq c h
    · exact hKq c h
    · exact lemma_digit_not_quote c (hds c h)
    · exact lemma_ws_not_quote c (hw1 c h)
    · subst h; decide
    · exact lemma_ws_not_quote c (hw2 c h)
    · exact lemma_bare_not_quote c (hsecV c h)
    · exact hpostq c h
  have hM'q : ∀ c ∈ pre ++ (K' ++ ds ++ w1 ++ ['='] ++ w2 ++ mask ++ post), quoteC.test c = false := by
    intro c hc
    simp only [List.mem_append, List.mem_cons, List.not_mem_nil, or_false] at hc
    rcases hc with h | ((((((h | h) | h) | h) | h) | h) | h)
    · exact hpreq c h
    · exact hKq c h
    · exact lemma_digit_not_quote c (hds c h)
    · exact lemma_ws_not_quote c (hw1 c h)
    · subst h; decide
    · exact lemma_ws_not_quote c (hw2 c h)
    · exact hmaskq c h
    · exact hpostq c h
  -- positional patterns
  have hdash : subPat (tplDashDash.inst (keyItems K)) rep2 mask
      (pre ++ (K' ++ ds ++ w1 ++ ['='] ++ w2 ++ secret ++ post))
      = pre ++ (K' ++ ds ++ w1 ++ ['='] ++ w2 ++ secret ++ post) := by
    unfold subPat
    apply subAux_none
    intro j _
    apply matchRepl_none
    exact lemma_nomatch_dashdash K _ pre _ rfl hU hlast _ _ (List.take_append_drop j _).symm
  have hxml : subPat (tplXml.inst (keyItems K)) rep2 mask
      (pre ++ (K' ++ ds ++ w1 ++ ['='] ++ w2 ++ secret ++ post))
      = pre ++ (K' ++ ds ++ w1 ++ ['='] ++ w2 ++ secret ++ post) := by
    unfold subPat
    apply subAux_none
    intro j _
    apply matchRepl_none
    exact lemma_nomatch_xml K _ _ hU _ _ (List.take_append_drop j _).symm
  have hflag : subPat (tplCmdFlag.inst (keyItems K)) rep2 mask
      (pre ++ (K' ++ ds ++ w1 ++ ['='] ++ w2 ++ secret ++ post))
      = pre ++ (K' ++ ds ++ w1 ++ ['='] ++ w2 ++ secret ++ post) := by
    unfold subPat
    apply subAux_none
    intro j hj
    apply matchRepl_none
    cases hm : matchPat (tplCmdFlag.inst (keyItems K)) (List.drop j (pre ++ (K' ++ ds ++ w1 ++ ['='] ++ w2 ++ secret ++ post))) with
    | none => rfl
    | some bd =>
      exfalso
      obtain ⟨s1, s2, s3, c1, _, _, _⟩ := matchPat_some _ _ _ hm
      have c1' := c1
      simp only [Template.inst] at c1
      have hkp : keyPrefix K (List.drop j (pre ++ (K' ++ ds ++ w1 ++ ['='] ++ w2 ++ secret ++ post))) = true := by
        have c1'' := c1
        simp only [tplCmdFlag, instItems] at c1''
        exact (lemma_Consumes_keyItems_inv _ K _ s1 c1'').1
      have hjp := hu j hj hkp
      subst hjp
      rw [List.drop_left] at c1
      have hflat : K' ++ ds ++ w1 ++ ['='] ++ w2 ++ secret ++ post
          = K' ++ (ds ++ (w1 ++ ('=' :: (w2 ++ secret ++ post)))) := by simp
      rw [hflat] at c1
      exact lemma_nomatch_cmdflag_eq K K' ds w1 _ s1 hK hds hw1 c1
  -- the bare pattern
  have hbare := sub_rendering_eq_bare K K' ds w1 w2 secret pre post mask hK hds hw1 hw2 hsec hsecV hpost
    (by
      intro j hj
      cases hk : keyPrefix K (List.drop j pre ++ (K' ++ ds ++ w1 ++ ['='] ++ w2 ++ secret ++ post)) with
      | false => rfl
      | true =>
        exfalso
        have := hu j (by simp; omega) (by rw [List.drop_append_of_le_length (by omega)]; exact hk)
        omega)
    (by
      cases ho : occursCI K post with
      | false => rfl
      | true =>
        exfalso
        obtain ⟨j, hj, hk⟩ := lemma_occursCI_exists K post ho
        have hd : List.drop (pre.length + ((K' ++ ds ++ w1 ++ ['='] ++ w2 ++ secret).length + j))
            (pre ++ (K' ++ ds ++ w1 ++ ['='] ++ w2 ++ secret ++ post)) = post.drop j := by
          have e : pre ++ (K' ++ ds ++ w1 ++ ['='] ++ w2 ++ secret ++ post)
              = pre ++ ((K' ++ ds ++ w1 ++ ['='] ++ w2 ++ secret) ++ post) := by simp
          rw [e, ← List.drop_drop, List.drop_left, ← List.drop_drop, List.drop_left]
        have := hu (pre.length + ((K' ++ ds ++ w1 ++ ['='] ++ w2 ++ secret).length + j))
          (by simp only [List.length_append, List.length_cons, List.length_nil] at hj ⊢; omega)
          (by rw [hd]; exact hk)
        simp only [List.length_append, List.length_cons, List.length_nil] at this
        omega)
  unfold applyKey
  rw [templates_as_reviewed.1, templates_as_reviewed.2.1, templates_as_reviewed.2.2.1]
  simp only [subAll, List.foldl]
  rw [lemma_sub_noquote tplEqQuoted quoteC _ _ _ _ (by simp [tplEqQuoted]) (fun _ h => h) hMq,
      lemma_sub_noquote tplEqDq dqC _ _ _ _ (by simp [tplEqDq]) lemma_noquote_dq hMq,
      lemma_sub_noquote tplEqSq sqC _ _ _ _ (by simp [tplEqSq]) lemma_noquote_sq hMq,
      lemma_sub_noquote tplKeyQuoted quoteC _ _ _ _ (by simp [tplKeyQuoted]) (fun _ h => h) hMq,
      hdash, hxml,
      lemma_sub_noquote tplColonQuoted quoteC _ _ _ _ (by simp [tplColonQuoted]) (fun _ h => h) hMq,
      lemma_sub_noquote tplColonPrefixed quoteC _ _ _ _ (by simp [tplColonPrefixed]) (fun _ h => h) hMq,
      lemma_sub_noquote tplCmdList quoteC _ _ _ _ (by simp [tplCmdList]) (fun _ h => h) hMq,
      hflag, hbare,
      lemma_sub_noquote tplWildcard quoteC _ _ _ _ (by simp [tplWildcard]) (fun _ h => h) hM'q]


/-! ### from one key to the loop over all keys -/

theorem lemma_pyLower_append : ∀ (a b : List Char), pyLower (a ++ b) = pyLower a ++ pyLower b := by
  intro a
  induction a with
  | nil => intro b; rfl
  | cons c a ih => intro b; simp [pyLower, ih]

theorem lemma_isInfix_append_left (K : List Char) : ∀ (a s : List Char), isInfix K s = true → isInfix K (a ++ s) = true := by
  intro a
  induction a with
  | nil => intro s h; exact h
  | cons c a ih => intro s h; simp [isInfix, ih s h]

theorem lemma_isInfix_self_append (K B : List Char) : isInfix K (K ++ B) = true := by
  have hp : K.isPrefixOf (K ++ B) = true := by
    rw [List.isPrefixOf_iff_prefix]; exact List.prefix_append K B
  cases h : K ++ B with
  | nil =>
    have : K = [] := by
      cases K with
      | nil => rfl
      | cons x xs => simp at h
    subst this; simp [isInfix]
  | cons c s => rw [h] at hp; simp [isInfix, hp]

theorem lemma_keytest (K K' pre rest : List Char) (hlow : pyLower K' = K) :
    isInfix K (pyLower (pre ++ (K' ++ rest))) = true := by
  rw [lemma_pyLower_append, lemma_pyLower_append, hlow]
  exact lemma_isInfix_append_left K _ _ (lemma_isInfix_self_append K _)

theorem lemma_fold_others (mask M : List Char) : ∀ (keys : List (List Char)),
    (∀ k ∈ keys, maskStep mask M k = M) → keys.foldl (maskStep mask) M = M := by
  intro keys
  induction keys with
  | nil => intro _; rfl
  | cons k keys ih =>
    intro h
    simp only [List.foldl_cons, h k (by simp)]
    exact ih (fun k' hk' => h k' (by simp [hk']))

/-- exactly one key of the list acts on the message -/
theorem lemma_fold_single (mask M M' K : List Char) : ∀ (keys : List (List Char)),
    keys.Nodup → K ∈ keys → maskStep mask M K = M' →
    (∀ k ∈ keys, k ≠ K → maskStep mask M k = M ∧ maskStep mask M' k = M') →
    keys.foldl (maskStep mask) M = M' := by
  intro keys
  induction keys with
  | nil => intro _ h; simp at h
  | cons k keys ih =>
    intro hnd hmem hK hoth
    simp only [List.nodup_cons] at hnd
    simp only [List.foldl_cons]
    by_cases hk : k = K
    · subst hk
      rw [hK]
      apply lemma_fold_others
      intro k' hk'
      exact (hoth k' (by simp [hk']) (fun e => hnd.1 (e ▸ hk'))).2
    · rw [(hoth k (by simp) hk).1]
      have hmem' : K ∈ keys := by
        rcases List.mem_cons.1 hmem with h | h
        · exact absurd h.symm hk
        · exact h
      exact ih hnd.2 hmem' hK (fun k' hk' hne => hoth k' (by simp [hk']) hne)

/-- no character class of a sanitize-key character accepts a quote -/
def keyNoQuote (k : Char) : Bool :=
  !(keyCls k).neg && !inRanges 34 (keyCls k).ranges && !inRanges 39 (keyCls k).ranges

theorem lemma_keys_no_quote : ∀ K ∈ Gen.sanitizeKeys, ∀ k ∈ K, keyNoQuote k = true := by decide

theorem lemma_keyMatch_no_quote : ∀ (K K' : List Char), (∀ k ∈ K, keyNoQuote k = true) → keyMatch K K' = true →
    ∀ c ∈ K', quoteC.test c = false := by
  intro K
  induction K with
  | nil => intro K' _ h c hc; cases K' <;> simp_all [keyMatch]
  | cons k K ih =>
    intro K' hq h c hc
    cases K' with
    | nil => simp at hc
    | cons x xs =>
      simp only [keyMatch, Bool.and_eq_true] at h
      rcases List.mem_cons.1 hc with hc | hc
      · subst hc
        have hk := hq k (by simp)
        simp only [keyNoQuote, Bool.and_eq_true, Bool.not_eq_true'] at hk
        have ht := h.1
        simp only [Cls.test, hk.1.1] at ht
        cases hq' : quoteC.test c with
        | false => rfl
        | true =>
          exfalso
          simp only [quoteC, cls, Cls.test, inRanges] at hq'
          simp at hq' ht
          rcases hq' with e | e
          · have : c.toNat = 34 := by omega
            rw [this, hk.1.2] at ht; cases ht
          · have : c.toNat = 39 := by omega
            rw [this, hk.2] at ht; cases ht
      · exact ih xs (fun k' hk' => hq k' (by simp [hk'])) h.2 c hc

theorem lemma_keys_nodup : Gen.sanitizeKeys.Nodup := by decide


/-! ### rendering `key=value` (bare): `mask_password` as a whole -/

/-- **`mask_password` on a bare `key = value` rendering.**  For every key `K` of the generated list, every
spelling `K'` of it whose lower-casing is `K` (any mix of letter cases, U+212A for `k`) with any digit suffix,
any whitespace around `=`, every non-empty secret over the value class of the generated template
(`[^\s'"]`: regex metacharacters, `=`, `^`, `-`, `<`, non-ASCII … included), every mask without quote
characters, and neutral surroundings: `mask_password` returns the message with exactly the value replaced
by the mask.  All twelve patterns of `K` and the loop over all 35 keys are accounted for.

`_partial` — what is missing with respect to the property:
* *single key*: no other sanitize key occurs in the lower-cased message, before or after masking (so keys
  that contain another key — `admin_password`, `auth_password`, `chappassword` ⊃ `password`, `auth_token` ⊃
  `token`, `secret_uuid`, `chapsecret` ⊃ `secret`, `admin_password` ⊃ `admin_pass` — and messages with several
  secrets are not covered by this theorem);
* the key (as the patterns read it) occurs only at the rendering: in particular not inside the secret
  (`hu`; this is the exclusion of the listed class KF_C04_NESTED);
* neutral surroundings are stronger than the patterns need: no quote character in prefix, suffix or mask, the
  prefix does not end with `-`, the suffix does not continue the value. -/
theorem mask_rendering_eq_bare_partial (K K' ds w1 w2 secret pre post mask : List Char)
    (hKmem : K ∈ Gen.sanitizeKeys) (hK : keyMatch K K' = true) (hlow : pyLower K' = K)
    (hds : ∀ c ∈ ds, digitC.test c = true) (hw1 : ∀ c ∈ w1, wsC.test c = true)
    (hw2 : ∀ c ∈ w2, wsC.test c = true) (hsec : secret ≠ []) (hsecV : ∀ c ∈ secret, bareC.test c = true)
    (hpost : ∀ c, post.head? = some c → bareC.test c = false)
    (hpreq : ∀ c ∈ pre, quoteC.test c = false) (hpostq : ∀ c ∈ post, quoteC.test c = false)
    (hmaskq : ∀ c ∈ mask, quoteC.test c = false)
    (hlast : ∀ c, pre.getLast? = some c → dashC.test c = false)
    (hu : ∀ j, j ≤ (pre ++ (K' ++ ds ++ w1 ++ ['='] ++ w2 ++ secret ++ post)).length →
      keyPrefix K ((pre ++ (K' ++ ds ++ w1 ++ ['='] ++ w2 ++ secret ++ post)).drop j) = true → j = pre.length)
    (hother : ∀ k ∈ Gen.sanitizeKeys, k ≠ K →
      isInfix k (pyLower (pre ++ (K' ++ ds ++ w1 ++ ['='] ++ w2 ++ secret ++ post))) = false ∧
      isInfix k (pyLower (pre ++ (K' ++ ds ++ w1 ++ ['='] ++ w2 ++ mask ++ post))) = false) :
    maskPassword (pre ++ (K' ++ ds ++ w1 ++ ['='] ++ w2 ++ secret ++ post)) mask
      = pre ++ (K' ++ ds ++ w1 ++ ['='] ++ w2 ++ mask ++ post) := by
  unfold maskPassword maskWith
  apply lemma_fold_single mask _ _ K Gen.sanitizeKeys lemma_keys_nodup hKmem
  · have hkt : isInfix K (pyLower (pre ++ (K' ++ ds ++ w1 ++ ['='] ++ w2 ++ secret ++ post))) = true := by
      have e : K' ++ ds ++ w1 ++ ['='] ++ w2 ++ secret ++ post
          = K' ++ (ds ++ w1 ++ ['='] ++ w2 ++ secret ++ post) := by simp
      rw [e]; exact lemma_keytest K K' pre _ hlow
    simp only [maskStep, hkt, if_true]
    exact lemma_applyKey_eq_bare K K' ds w1 w2 secret pre post mask hK hds hw1 hw2 hsec hsecV hpost
      (lemma_keyMatch_no_quote K K' (lemma_keys_no_quote K hKmem) hK) hpreq hpostq hmaskq hlast hu
  · intro k hk hne
    obtain ⟨h1, h2⟩ := hother k hk hne
    exact ⟨by simp only [maskStep, h1, Bool.false_eq_true, if_false],
           by simp only [maskStep, h2, Bool.false_eq_true, if_false]⟩

/-- non-vacuity of `mask_rendering_eq_bare_partial`: every hypothesis holds of a concrete message (mixed-case key
    with digit suffix, secret of regex metacharacters with `=`, `^`, `<`, `-` and a non-ASCII case-fold character) -/
example :
    let K := "password".toList; let K' := "PassWord".toList; let ds := "12".toList
    let w1 := " ".toList; let w2 : List Char := []; let secret := "a^b$c.*ſ=<-x".toList
    let pre := "user=x pass ".toList; let post := " and more".toList; let mask := "***".toList
    K ∈ Gen.sanitizeKeys ∧ keyMatch K K' = true ∧ pyLower K' = K ∧
    (∀ c ∈ ds, digitC.test c = true) ∧ (∀ c ∈ w1, wsC.test c = true) ∧
    (∀ c ∈ w2, wsC.test c = true) ∧ secret ≠ [] ∧ (∀ c ∈ secret, bareC.test c = true) ∧
    (∀ c, post.head? = some c → bareC.test c = false) ∧
    (∀ c ∈ pre, quoteC.test c = false) ∧ (∀ c ∈ post, quoteC.test c = false) ∧ (∀ c ∈ mask, quoteC.test c = false) ∧
    (∀ c, pre.getLast? = some c → dashC.test c = false) ∧
    (∀ j, j ≤ (pre ++ (K' ++ ds ++ w1 ++ ['='] ++ w2 ++ secret ++ post)).length →
      keyPrefix K ((pre ++ (K' ++ ds ++ w1 ++ ['='] ++ w2 ++ secret ++ post)).drop j) = true → j = pre.length) ∧
    (∀ k ∈ Gen.sanitizeKeys, k ≠ K →
      isInfix k (pyLower (pre ++ (K' ++ ds ++ w1 ++ ['='] ++ w2 ++ secret ++ post))) = false ∧
      isInfix k (pyLower (pre ++ (K' ++ ds ++ w1 ++ ['='] ++ w2 ++ mask ++ post))) = false) := by
  decide +kernel

/-- masking an already masked bare `key=value` message changes nothing (`mask_password` as a whole; same
    restrictions as `mask_rendering_eq_bare_partial`, mask non-empty and over the value class) -/
theorem mask_idempotent_on_masked_eq_bare_partial (K K' ds w1 w2 pre post mask : List Char)
    (hKmem : K ∈ Gen.sanitizeKeys) (hK : keyMatch K K' = true) (hlow : pyLower K' = K)
    (hds : ∀ c ∈ ds, digitC.test c = true) (hw1 : ∀ c ∈ w1, wsC.test c = true)
    (hw2 : ∀ c ∈ w2, wsC.test c = true) (hmask : mask ≠ []) (hmaskV : ∀ c ∈ mask, bareC.test c = true)
    (hpost : ∀ c, post.head? = some c → bareC.test c = false)
    (hpreq : ∀ c ∈ pre, quoteC.test c = false) (hpostq : ∀ c ∈ post, quoteC.test c = false)
    (hlast : ∀ c, pre.getLast? = some c → dashC.test c = false)
    (hu : ∀ j, j ≤ (pre ++ (K' ++ ds ++ w1 ++ ['='] ++ w2 ++ mask ++ post)).length →
      keyPrefix K ((pre ++ (K' ++ ds ++ w1 ++ ['='] ++ w2 ++ mask ++ post)).drop j) = true → j = pre.length)
    (hother : ∀ k ∈ Gen.sanitizeKeys, k ≠ K →
      isInfix k (pyLower (pre ++ (K' ++ ds ++ w1 ++ ['='] ++ w2 ++ mask ++ post))) = false) :
    maskPassword (pre ++ (K' ++ ds ++ w1 ++ ['='] ++ w2 ++ mask ++ post)) mask
      = pre ++ (K' ++ ds ++ w1 ++ ['='] ++ w2 ++ mask ++ post) :=
  mask_rendering_eq_bare_partial K K' ds w1 w2 mask pre post mask hKmem hK hlow hds hw1 hw2 hmask hmaskV hpost
    hpreq hpostq (fun c hc => lemma_bare_not_quote c (hmaskV c hc)) hlast hu
    (fun k hk hne => ⟨hother k hk hne, hother k hk hne⟩)

end Oslo.Mask
