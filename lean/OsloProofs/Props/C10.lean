/-
C10 — string_to_bytes computes the exact byte quantity or raises ValueError;
QemuImgInfo size fields.

Property theorems only (helpers are `lemma_…` or live in Lemmas/C10.lean).  The
documented grammar and arithmetic (`Sys`, `specExp`, `Text`, `render`, `Text.num`,
`Text.den`) are written here by hand; the code's tables enter through
`OsloModel/Generated/C10.lean` and are tied to the documented ones by
`s2b_tables_complete` (kernel evaluation over the complete tables).
-/
import OsloProofs.Lemmas.C10
namespace Oslo.Units
open Oslo.Generated.C10

/-! ### the documented grammar -/

inductive Sys | iec | si | mixed
  deriving DecidableEq, Repr

def Sys.key : Sys → List Char
  | .iec => ['I', 'E', 'C']
  | .si => ['S', 'I']
  | .mixed => ['m', 'i', 'x', 'e', 'd']

/-- first letters of the prefixes a system admits (in code-point order, as the translator emits
    the character class of the compiled regex) -/
def Sys.letters : Sys → List Char
  | .iec => ['E', 'G', 'K', 'M', 'P', 'Q', 'R', 'T', 'Y', 'Z']
  | .si => ['E', 'G', 'M', 'P', 'Q', 'R', 'T', 'Y', 'Z', 'k']
  | .mixed => ['E', 'G', 'K', 'M', 'P', 'Q', 'R', 'T', 'Y', 'Z', 'k']

/-- whether the binary spelling `Ki`, `Mi`, … is admitted -/
def Sys.optI : Sys → Bool
  | .iec => true
  | .si => false
  | .mixed => true

/-- the base stored in UNIT_SYSTEM_INFO (mixed: None) -/
def Sys.tableBase : Sys → Option Nat
  | .iec => some 1024
  | .si => some 1000
  | .mixed => none

/-- every prefix text a system admits -/
def Sys.prefixes (s : Sys) : List (List Char) :=
  s.letters.flatMap fun c => if s.optI then [[c], [c, 'i']] else [[c]]

/-- base: 1024 for IEC, 1000 for SI, in mixed mode 1024 for prefixes ending in `i` and 1000 otherwise -/
def Sys.base (s : Sys) (pfx : List Char) : Nat :=
  match s with
  | .iec => 1024
  | .si => 1000
  | .mixed => if pfx.getLast? = some 'i' then 1024 else 1000

/-- exponent of a prefix, by its first letter -/
def specExp : Char → Option Nat
  | 'k' => some 1 | 'K' => some 1 | 'M' => some 2 | 'G' => some 3 | 'T' => some 4 | 'P' => some 5
  | 'E' => some 6 | 'Z' => some 7 | 'Y' => some 8 | 'R' => some 9 | 'Q' => some 10
  | _ => none

/-- `base ^ exponent` of an admitted prefix, 1 without a prefix -/
def specMult (s : Sys) (pfx : List Char) : Option Nat :=
  if pfx = [] then some 1 else (pfx.head?.bind specExp).map fun e => s.base pfx ^ e

/-- a text `[sign]number[prefix]unit` -/
structure Text where
  sign : Option Bool            -- none, `+` (some false), `-` (some true)
  ip : List Char                -- integer digits
  fp : Option (List Char)       -- fraction digits after a dot
  pfx : List Char
  unit : UnitText

def signChars : Option Bool → List Char
  | none => []
  | some false => ['+']
  | some true => ['-']

def Text.neg (t : Text) : Bool := t.sign = some true

/-- nothing, or the single newline that a `$` anchor would let through -/
def nlChars (nl : Bool) : List Char := if nl then ['\n'] else []

/-- the text, optionally followed by one newline -/
def renderNl (t : Text) (nl : Bool) : List Char :=
  signChars t.sign ++ (t.ip ++ dotFrac t.fp ++ (t.pfx ++ (t.unit.chars ++ nlChars nl)))

/-- the text itself (`nlChars false = []`) -/
def render (t : Text) : List Char := renderNl t false

theorem lemma_render_newline (t : Text) : render t ++ ['\n'] = renderNl t true := by
  simp [render, renderNl, nlChars, List.append_assoc]

/-- digits well formed (`\d*\.?\d+`) and prefix admitted by the system (or absent) -/
def Text.Admitted (s : Sys) (t : Text) : Prop :=
  NumWF t.ip t.fp ∧ (t.pfx = [] ∨ t.pfx ∈ s.prefixes)

/-- the digits read as a natural number; the magnitude is `±mant / 10^scale` -/
def Text.mant (t : Text) : Nat := natOfDigits (t.ip ++ fracDigits t.fp)
def Text.scale (t : Text) : Nat := (fracDigits t.fp).length

/-- exact quantity `num/den`: ±mant · base^exponent / (10^scale · (8 for bit units)) -/
def Text.num (t : Text) (mult : Nat) : Int := (if t.neg then -1 else 1) * ((t.mant * mult : Nat) : Int)
def Text.den (t : Text) : Nat := 10 ^ t.scale * unitDiv t.unit.kind

/-- inside binary64: neither the magnitude nor the quantity rounds to infinity, and the
    magnitude (divided by 8 for bit units) is zero or at least the smallest normal number -/
def Text.InRange (t : Text) (mult : Nat) : Prop :=
  isHuge t.mant (10 ^ t.scale) = false ∧ isHuge (t.num mult) t.den = false ∧ isTiny t.mant t.den = false

/-! ### the code's tables against the documented ones -/

/-- **Tables** — for each of the three systems the table entry (base, regex prefix class, end
    anchor `\Z`: no trailing newline) is the documented one, and every prefix the regex admits has an exponent in UNIT_PREFIX_EXPONENT
    (finding D5: `ki` was missing) which, with the base rule, gives the documented multiplier. -/
theorem s2b_tables_complete (s : Sys) :
    lookupSys s.key = some (s.tableBase, s.letters, s.optI, false) ∧
    ∀ p ∈ s.prefixes, (multiplier s.key s.tableBase p).toOption = specMult s p ∧
                      (specMult s p).isSome = true := by
  cases s <;> decide

/-- **Exactly three unit systems** — the live table `UNIT_SYSTEM_INFO`, read after the whole package
    has been imported (any module may touch the public table at import), has the keys `IEC`, `SI`, `mixed`
    and no other: a sibling module registering a further name would make that name a known system. -/
theorem s2b_systems_are_exactly_three :
    unitSystemInfo.map (·.1) = [Sys.iec.key, Sys.si.key, Sys.mixed.key] := by decide

/-- no other key is a unit system -/
theorem lemma_lookupSys_some (key : List Char) (x : Option Nat × List Char × Bool × Bool)
    (h : lookupSys key = some x) : ∃ s : Sys, key = s.key ∧ x = (s.tableBase, s.letters, s.optI, false) := by
  have h1 := (s2b_tables_complete .iec).1
  have h2 := (s2b_tables_complete .si).1
  have h3 := (s2b_tables_complete .mixed).1
  by_cases k1 : key = Sys.key .iec
  · subst k1; rw [h1] at h; exact ⟨.iec, rfl, by simpa using h.symm⟩
  by_cases k2 : key = Sys.key .si
  · subst k2; rw [h2] at h; exact ⟨.si, rfl, by simpa using h.symm⟩
  by_cases k3 : key = Sys.key .mixed
  · subst k3; rw [h3] at h; exact ⟨.mixed, rfl, by simpa using h.symm⟩
  exfalso
  simp only [Sys.key] at k1 k2 k3
  have e1 : (['I', 'E', 'C'] == key) = false := beq_eq_false_iff_ne.mpr (Ne.symm k1)
  have e2 : (['S', 'I'] == key) = false := beq_eq_false_iff_ne.mpr (Ne.symm k2)
  have e3 : (['m', 'i', 'x', 'e', 'd'] == key) = false := beq_eq_false_iff_ne.mpr (Ne.symm k3)
  simp [lookupSys, unitSystemInfo, List.find?, e1, e2, e3] at h

/-! ### the parser on rendered texts -/

def headOk : List Char → Bool
  | [] => true
  | c :: _ => !isDigit c && c != '.'

theorem lemma_numEnd_of_headOk (rest : List Char) (h : headOk rest = true) : NumEnd rest := by
  intro c r hr; subst hr
  simp [headOk] at h
  exact ⟨h.1, h.2⟩

/-- what follows the number: prefix (possibly empty), unit, optional newline -/
def tail (p : List Char) (u : UnitText) (nl : Bool) : List Char := p ++ (u.chars ++ nlChars nl)

/-- finite check over the documented prefixes, the three units, with and without newline -/
theorem lemma_tail (s : Sys) (p : List Char) (hp : p = [] ∨ p ∈ s.prefixes) (u : UnitText) (nl : Bool) :
    headOk (tail p u nl) = true ∧
    parsePrefix s.letters s.optI (tail p u nl) = (p, u.chars ++ nlChars nl) := by
  have : ∀ p ∈ [] :: s.prefixes, headOk (tail p u nl) = true ∧
      parsePrefix s.letters s.optI (tail p u nl) = (p, u.chars ++ nlChars nl) := by
    cases s <;> cases u <;> cases nl <;> decide
  exact this p (by simpa using hp)

theorem lemma_splitSign_render (sg : Option Bool) (ip : List Char) (fp : Option (List Char))
    (rest : List Char) (hwf : NumWF ip fp) :
    splitSign (signChars sg ++ (ip ++ dotFrac fp ++ rest)) = (decide (sg = some true), ip ++ dotFrac fp ++ rest) := by
  cases sg with
  | some b => cases b <;> simp [signChars, splitSign]
  | none =>
    simp only [signChars, List.nil_append]
    obtain ⟨hip, hfp⟩ := hwf
    cases ip with
    | cons c cs =>
      have hc : isDigit c = true := hip c (by simp)
      have h1 : c ≠ '-' := by rintro rfl; revert hc; decide
      have h2 : c ≠ '+' := by rintro rfl; revert hc; decide
      simp only [List.cons_append]
      unfold splitSign
      split
      · next heq => simp at heq; exact absurd heq.1 h1
      · next heq => simp at heq; exact absurd heq.1 h2
      · simp
    | nil =>
      cases fp with
      | none => simp at hfp
      | some f => simp [dotFrac, splitSign]

theorem lemma_parseUnit_tail (u : UnitText) (nl : Bool) :
    parseUnit false (u.chars ++ nlChars nl) = if nl then none else some u.kind := by
  cases u <;> cases nl <;> rfl

/-- the model on a rendered, admitted text (with or without a trailing newline): number and prefix
    are parsed as intended, the unit is matched against the strict end anchor -/
theorem lemma_s2b_renderNl (s : Sys) (t : Text) (ha : t.Admitted s) (ri nl : Bool) :
    stringToBytes s.key (renderNl t nl) ri =
      if nl then .error .valueError
      else compute s.key s.tableBase ri t.neg t.ip t.fp t.pfx t.unit.kind := by
  obtain ⟨hwf, hp⟩ := ha
  obtain ⟨h1, h2⟩ := lemma_tail s t.pfx hp t.unit nl
  have hnum := lemma_parseNumber_render t.ip t.fp (tail t.pfx t.unit nl) hwf
    (lemma_numEnd_of_headOk _ h1)
  have hs := lemma_splitSign_render t.sign t.ip t.fp (tail t.pfx t.unit nl) hwf
  unfold stringToBytes renderNl
  rw [(s2b_tables_complete s).1]
  simp only [tail] at hs hnum h2
  simp only [hs, hnum, h2, lemma_parseUnit_tail, Text.neg]
  cases nl <;> rfl

/-- the model on a rendered, admitted text: the parse is the intended one -/
theorem lemma_s2b_render (s : Sys) (t : Text) (ha : t.Admitted s) (ri : Bool) :
    stringToBytes s.key (render t) ri =
      compute s.key s.tableBase ri t.neg t.ip t.fp t.pfx t.unit.kind := by
  unfold render
  rw [lemma_s2b_renderNl s t ha ri false]
  rfl

theorem lemma_toOption_some {ε α : Type} (x : Except ε α) (a : α) (h : x.toOption = some a) : x = .ok a := by
  cases x <;> simp_all [Except.toOption]

theorem lemma_multiplier (s : Sys) (p : List Char) (hp : p = [] ∨ p ∈ s.prefixes) (mult : Nat)
    (hm : specMult s p = some mult) : multiplier s.key s.tableBase p = .ok mult := by
  rcases hp with rfl | hp
  · simp [specMult] at hm; subst hm; simp [multiplier]
  · have := ((s2b_tables_complete s).2 p hp).1
    rw [hm] at this
    exact lemma_toOption_some _ _ this

/-- the model on a rendered, admitted text is `finish` applied to the documented exact quantity -/
theorem lemma_s2b_finish (s : Sys) (t : Text) (ha : t.Admitted s) (mult : Nat)
    (hm : specMult s t.pfx = some mult) (ri : Bool) :
    stringToBytes s.key (render t) ri =
      finish ri t.neg t.mant (10 ^ t.scale) (t.num mult) t.den := by
  rw [lemma_s2b_render s t ha ri]
  unfold compute
  rw [lemma_multiplier s t.pfx ha.2 mult hm]
  rfl

theorem lemma_den_pos (t : Text) : 0 < t.den := by
  unfold Text.den
  have : 0 < unitDiv t.unit.kind := by cases t.unit <;> decide
  exact Nat.mul_pos (Nat.pow_pos (by decide)) this

theorem lemma_ceilDiv (num : Int) (den : Nat) (h : 0 < den) :
    (den : Int) * (ceilDiv num den - 1) < num ∧ num ≤ (den : Int) * ceilDiv num den := by
  unfold ceilDiv
  have hd : (0 : Int) < (den : Int) := by exact_mod_cast h
  have h1 := Int.ediv_mul_le (-num) (Int.ne_of_gt hd)
  have h2 := Int.lt_ediv_add_one_mul_self (-num) hd
  generalize (-num) / (den : Int) = f at *
  have e1 : (den : Int) * (-f - 1) = -(f * den) - den := by
    rw [Int.mul_sub, Int.mul_neg, Int.mul_one, Int.mul_comm]
  have e2 : (den : Int) * (-f) = -(f * den) := by rw [Int.mul_neg, Int.mul_comm]
  have e3 : (f + 1) * (den : Int) = f * den + den := by rw [Int.add_mul, Int.one_mul]
  rw [e1, e2]
  rw [e3] at h2
  generalize f * (den : Int) = x at *
  omega

/-! ### the property -/

/-- **Value** — for every unit system, every sign, every digit string `\d*\.?\d+`, every
    admitted prefix (or none), every unit: the result is the float whose exact value is
    `±mant · base^exponent / (10^scale · (8 for bit units))`.
    Partial: proved for quantities inside the binary64 range (`InRange`); outside it Python
    yields `inf` / a denormal, see `s2b_out_of_range` (known finding N3-float-range). -/
theorem s2b_value_partial (s : Sys) (t : Text) (ha : t.Admitted s) (mult : Nat)
    (hm : specMult s t.pfx = some mult) (hr : t.InRange mult) :
    stringToBytes s.key (render t) false = .ok (.float (t.num mult) t.den) := by
  rw [lemma_s2b_finish s t ha mult hm]
  obtain ⟨h1, h2, h3⟩ := hr
  simp [finish, h1, h2, h3]

/-- **return_int is the ceiling** of the same exact quantity: `den·(n−1) < num ≤ den·n`.
    Partial: inside the binary64 range, as above. -/
theorem s2b_int_is_ceil_partial (s : Sys) (t : Text) (ha : t.Admitted s) (mult : Nat)
    (hm : specMult s t.pfx = some mult) (hr : t.InRange mult) :
    ∃ n : Int, stringToBytes s.key (render t) true = .ok (.int n) ∧
      (t.den : Int) * (n - 1) < t.num mult ∧ t.num mult ≤ (t.den : Int) * n := by
  rw [lemma_s2b_finish s t ha mult hm]
  obtain ⟨h1, h2, h3⟩ := hr
  exact ⟨ceilDiv (t.num mult) t.den, by simp [finish, h1, h2, h3], lemma_ceilDiv _ _ (lemma_den_pos t)⟩

/-- **Outside binary64** (the code as it is; known finding N3-float-range) — when the magnitude
    or the quantity reaches 2^1024 − 2^970 the result is `±inf`, and with `return_int` the call
    raises OverflowError, not ValueError; a non-zero magnitude below 2^-1022 gives a denormal
    whose digits the model does not determine. -/
theorem s2b_out_of_range (s : Sys) (t : Text) (ha : t.Admitted s) (mult : Nat)
    (hm : specMult s t.pfx = some mult) :
    ((isHuge t.mant (10 ^ t.scale) = true ∨ isHuge (t.num mult) t.den = true) →
      stringToBytes s.key (render t) false = .ok (.inf t.neg) ∧
      stringToBytes s.key (render t) true = .error .overflowError) ∧
    ((isHuge t.mant (10 ^ t.scale) = false ∧ isHuge (t.num mult) t.den = false ∧
        isTiny t.mant t.den = true) →
      ∀ ri, stringToBytes s.key (render t) ri = .ok (.tiny (t.num mult) t.den)) := by
  constructor
  · intro h
    rw [lemma_s2b_finish s t ha mult hm, lemma_s2b_finish s t ha mult hm]
    rcases h with h | h <;> simp [finish, h]
  · rintro ⟨h1, h2, h3⟩ ri
    rw [lemma_s2b_finish s t ha mult hm]
    simp [finish, h1, h2, h3]

/-- **End anchor** — every compiled unit regex ends in `\Z`, not `$` (generated anchor table,
    kernel-checked): this is what `s2b_trailing_newline_rejected` and `s2b_rejects` rest on, and what
    fails to build if the `$` of the repaired finding N3-trailing-newline comes back. -/
theorem s2b_end_anchor_strict :
    ∀ e ∈ unitSystemInfo, e.2.2.2.2 = false := by decide

/-- **The trailing newline is rejected** (finding N3-trailing-newline, repaired): an admitted text
    followed by a newline raises ValueError, for every system, sign, digits, prefix and unit. -/
theorem s2b_trailing_newline_rejected (s : Sys) (t : Text) (ha : t.Admitted s) (ri : Bool) :
    stringToBytes s.key (render t ++ ['\n']) ri = .error .valueError := by
  rw [lemma_render_newline, lemma_s2b_renderNl s t ha ri true]
  rfl

/-! ### rejection and error kinds -/

theorem lemma_splitSign_inv (text : List Char) :
    ∃ sg, text = signChars sg ++ (splitSign text).2 ∧ (splitSign text).1 = decide (sg = some true) := by
  unfold splitSign
  split
  · exact ⟨some true, by simp [signChars], by simp⟩
  · exact ⟨some false, by simp [signChars], by simp⟩
  · exact ⟨none, by simp [signChars], by simp⟩

theorem lemma_mem_prefixes (s : Sys) (c : Char) (hc : s.letters.contains c = true) :
    [c] ∈ s.prefixes ∧ (s.optI = true → [c, 'i'] ∈ s.prefixes) := by
  have hc' : c ∈ s.letters := by simpa using hc
  unfold Sys.prefixes
  simp only [List.mem_flatMap]
  constructor
  · exact ⟨c, hc', by cases s.optI <;> simp⟩
  · intro h; exact ⟨c, hc', by simp [h]⟩

/-- a successful parse is the parse of a rendered, admitted text -/
theorem lemma_parse_inv (s : Sys) (text d1 : List Char) (d2 : Option (List Char)) (r1 : List Char)
    (k : UnitKind)
    (hn : parseNumber (splitSign text).2 = some (d1, d2, r1))
    (hu : parseUnit false (parsePrefix s.letters s.optI r1).2 = some k) :
    ∃ t : Text, t.Admitted s ∧ text = render t ∧ t.pfx = (parsePrefix s.letters s.optI r1).1 := by
  obtain ⟨sg, hsg, _⟩ := lemma_splitSign_inv text
  obtain ⟨hbody, hwf⟩ := lemma_parseNumber_inv _ _ _ _ hn
  generalize hpp : parsePrefix s.letters s.optI r1 = pr at hu ⊢
  obtain ⟨p, r2⟩ := pr
  obtain ⟨hr1, hp⟩ := lemma_parsePrefix_inv s.letters s.optI r1 p r2 hpp
  obtain ⟨u, hr2, _⟩ := lemma_parseUnit_inv _ _ hu
  simp only at hr2
  refine ⟨⟨sg, d1, d2, p, u⟩, ⟨hwf, ?_⟩, ?_, rfl⟩
  · rcases hp with hp | ⟨c, hc, hp | ⟨ho, hp⟩⟩
    · exact Or.inl hp
    · exact Or.inr (by simp only; rw [hp]; exact (lemma_mem_prefixes s c hc).1)
    · exact Or.inr (by simp only; rw [hp]; exact (lemma_mem_prefixes s c hc).2 ho)
  · unfold render renderNl
    simp only [nlChars, Bool.false_eq_true, ↓reduceIte, List.append_nil]
    rw [← hr2, ← hr1, ← hbody, ← hsg]

/-- **Rejects** — in a known unit system, every text that is not `[sign]number[prefix]unit` with a
    prefix the system admits raises ValueError (full strength: since the regexes end in `\Z` a
    trailing newline is no exception, see `s2b_trailing_newline_rejected`). -/
theorem s2b_rejects (s : Sys) (text : List Char) (ri : Bool)
    (h : ¬ ∃ t : Text, t.Admitted s ∧ text = render t) :
    stringToBytes s.key text ri = .error .valueError := by
  unfold stringToBytes
  rw [(s2b_tables_complete s).1]
  simp only
  cases hn : parseNumber (splitSign text).2 with
  | none => rfl
  | some num =>
    obtain ⟨d1, d2, r1⟩ := num
    simp only
    cases hu : parseUnit false (parsePrefix s.letters s.optI r1).2 with
    | none => rfl
    | some k =>
      obtain ⟨t, ha, ht, _⟩ := lemma_parse_inv s text d1 d2 r1 k hn hu
      exact absurd ⟨t, ha, ht⟩ h

/-- **Rejects, unknown unit system** — any key other than `IEC`, `SI`, `mixed` raises ValueError. -/
theorem s2b_rejects_unknown_system (key text : List Char) (ri : Bool) (h : ∀ s : Sys, key ≠ s.key) :
    stringToBytes key text ri = .error .valueError := by
  unfold stringToBytes
  cases hl : lookupSys key with
  | none => rfl
  | some x =>
    obtain ⟨s, hs, _⟩ := lemma_lookupSys_some key x hl
    exact absurd hs (h s)

theorem lemma_finish_error (ri neg : Bool) (a b : Nat) (c : Int) (d : Nat) (e : Err)
    (h : finish ri neg a b c d = .error e) : e = .overflowError ∧ ri = true := by
  unfold finish at h
  split at h
  · split at h
    · next hri => simp at h; exact ⟨h.symm, hri⟩
    · simp at h
  · split at h
    · simp at h
    · split at h <;> simp at h

/-- **Rejects, tuple-valued unit system** (repaired defect N6-tuple-unit-system) — a tuple of length
    other than 1 raises ValueError like every other unknown value: the live function, probed by the
    translator, builds its message without a TypeError (kernel-checked fact about the generated flag;
    fails to build if the unwrapped `% unit_system` comes back). -/
theorem s2b_tuple_system_rejected (text : List Char) (ri : Bool) :
    stringToBytesArg .badTuple text ri = .error .valueError := by
  have : tupleMessageFails = false := by decide
  simp [stringToBytesArg, this]

/-- **Rejects, any unit-system argument that is not one of the three names** — whether the argument
    is a str other than `IEC`, `SI`, `mixed` or a value that is not a str at all (`None`, `0`, `False`,
    `b'IEC'`, `('IEC',)`, `1.0`, …; passed by keyword or positionally, which the model does not
    distinguish), the call raises ValueError whatever the text.  Full strength: tuples of any length
    included (`s2b_tuple_system_rejected`). -/
theorem s2b_rejects_unknown_argument (a : SysArg) (text : List Char) (ri : Bool)
    (ho : a ≠ .omitted) (h : ∀ s : Sys, a ≠ .str s.key) :
    stringToBytesArg a text ri = .error .valueError := by
  cases a with
  | omitted => exact absurd rfl ho
  | badTuple => exact s2b_tuple_system_rejected text ri
  | other => rfl
  | str k =>
    exact s2b_rejects_unknown_system k text ri (fun s hk => h s (by rw [hk]))

/-- **Rejects, bytes-valued unit system** — ValueError.  Partial: in the default interpreter mode;
    under `python -bb` building the error message raises BytesWarning instead (second conjunct, the code
    as it is; proposed known finding N7-bytes-unit-system-bb). -/
theorem s2b_rejects_bytes_system_partial :
    stringToBytesBytesSys false = .error .valueError ∧ stringToBytesBytesSys true = .error .bytesWarning :=
  ⟨rfl, rfl⟩

/-- **Default** — leaving the argument out means IEC (the default of the live signature, extracted
    on every run): it is a unit-system *name*, so an explicit `None` is not a way to say "default". -/
theorem s2b_default_is_iec (text : List Char) (ri : Bool) :
    stringToBytesArg .omitted text ri = stringToBytes Sys.iec.key text ri := by
  have : defaultUnitSystem = some Sys.iec.key := by decide
  simp only [stringToBytesArg, this]

example : stringToBytesArg .other ['1', 'K', 'B'] false = .error .valueError ∧
    stringToBytesArg .omitted ['1', 'K', 'B'] false = .ok (.float 1024 1) ∧
    stringToBytesArg (.str ['i', 'e', 'c']) ['1', 'K', 'B'] true = .error .valueError := by decide +kernel

/-- **return_int is a truth value** — the call yields the ceiling (an int) exactly when the flag is
    truthy and the float otherwise, whatever object carries the flag: two flags with the same truth value
    give the same result, and for an admitted in-range text a truthy flag gives the int `n` with
    `den·(n−1) < num ≤ den·n`, a falsy one (or none: the default is False, live signature) the float
    `num/den`.  Partial only through the binary64 range hypothesis, as `s2b_value_partial`. -/
theorem s2b_flag_is_truth_value_partial (s : Sys) (t : Text) (ha : t.Admitted s) (mult : Nat)
    (hm : specMult s t.pfx = some mult) (hr : t.InRange mult) (f : FlagArg) :
    (flagTruth f = true →
      ∃ n : Int, stringToBytesCall (.str s.key) (render t) f = .ok (.int n) ∧
        (t.den : Int) * (n - 1) < t.num mult ∧ t.num mult ≤ (t.den : Int) * n) ∧
    (flagTruth f = false →
      stringToBytesCall (.str s.key) (render t) f = .ok (.float (t.num mult) t.den)) ∧
    flagTruth .omitted = false := by
  refine ⟨fun h => ?_, fun h => ?_, by decide⟩
  · simp only [stringToBytesCall, stringToBytesArg, h]
    exact s2b_int_is_ceil_partial s t ha mult hm hr
  · simp only [stringToBytesCall, stringToBytesArg, h]
    exact s2b_value_partial s t ha mult hm hr

example : stringToBytesCall (.str Sys.iec.key) ['1', '2', 'b'] (.obj true) = .ok (.int 2) ∧
    stringToBytesCall (.str Sys.iec.key) ['1', '2', 'b'] (.obj false) = .ok (.float 12 8) ∧
    stringToBytesCall (.str Sys.iec.key) ['1', '2', 'b'] .omitted = .ok (.float 12 8) := by decide +kernel

/-- **Total** — whatever the unit-system key and the text, the only errors are ValueError and, with
    `return_int`, OverflowError; in particular never KeyError (finding D5: a prefix admitted by a
    regex but missing from the exponent table) and never TypeError (mixed mode's `None` base).
    Partial: the property allows ValueError only; OverflowError occurs exactly for the out-of-range
    magnitudes of `s2b_out_of_range` (known finding N3-float-range). -/
theorem s2b_total_partial (key text : List Char) (ri : Bool) (e : Err)
    (h : stringToBytes key text ri = .error e) :
    e = .valueError ∨ (e = .overflowError ∧ ri = true) := by
  unfold stringToBytes at h
  cases hl : lookupSys key with
  | none => rw [hl] at h; simp at h; exact Or.inl h.symm
  | some x =>
    obtain ⟨s, rfl, rfl⟩ := lemma_lookupSys_some key x hl
    rw [hl] at h
    simp only at h
    cases hn : parseNumber (splitSign text).2 with
    | none => rw [hn] at h; simp at h; exact Or.inl h.symm
    | some num =>
      obtain ⟨d1, d2, r1⟩ := num
      rw [hn] at h
      simp only at h
      cases hu : parseUnit false (parsePrefix s.letters s.optI r1).2 with
      | none => rw [hu] at h; simp at h; exact Or.inl h.symm
      | some k =>
        rw [hu] at h
        simp only at h
        obtain ⟨t, ha, _, hp⟩ := lemma_parse_inv s text d1 d2 r1 k hn hu
        have hsome : (specMult s t.pfx).isSome = true := by
          rcases ha.2 with h0 | h1
          · simp [specMult, h0]
          · exact ((s2b_tables_complete s).2 _ h1).2
        obtain ⟨mult, hm⟩ := Option.isSome_iff_exists.mp hsome
        have hmul := lemma_multiplier s t.pfx ha.2 mult hm
        rw [hp] at hmul
        unfold compute at h
        rw [hmul] at h
        exact Or.inr (lemma_finish_error _ _ _ _ _ _ _ h)

/-- every prefix text of any of the three systems -/
def allPrefixes : List (List Char) := Sys.iec.prefixes ++ Sys.si.prefixes ++ Sys.mixed.prefixes

theorem lemma_foreign_tail (s : Sys) (p : List Char) (hp : p ∈ allPrefixes) (hn : p ∉ s.prefixes)
    (u : UnitText) (nl : Bool) :
    headOk (tail p u nl) = true ∧ parseUnit false (parsePrefix s.letters s.optI (tail p u nl)).2 = none := by
  have : ∀ p ∈ allPrefixes, p ∉ s.prefixes →
      headOk (tail p u nl) = true ∧ parseUnit false (parsePrefix s.letters s.optI (tail p u nl)).2 = none := by
    cases s <;> cases u <;> cases nl <;> decide
  exact this p hp hn

/-- **Rejects, foreign prefix** — a prefix of another unit system (`k`, `ki` in IEC; `K`, `Ki`, `Mi`, …
    in SI) raises ValueError, whatever the sign, digits and unit. -/
theorem s2b_rejects_foreign_prefix (s : Sys) (t : Text) (hwf : NumWF t.ip t.fp)
    (hp : t.pfx ∈ allPrefixes) (hn : t.pfx ∉ s.prefixes) (ri : Bool) :
    stringToBytes s.key (render t) ri = .error .valueError := by
  obtain ⟨h1, h2⟩ := lemma_foreign_tail s t.pfx hp hn t.unit false
  have hnum := lemma_parseNumber_render t.ip t.fp (tail t.pfx t.unit false) hwf
    (lemma_numEnd_of_headOk _ h1)
  have hs := lemma_splitSign_render t.sign t.ip t.fp (tail t.pfx t.unit false) hwf
  unfold stringToBytes render renderNl
  rw [(s2b_tables_complete s).1]
  simp only [tail] at hs hnum h2
  simp only [hs, hnum, h2]

/-! ### non-vacuity and the concrete witnesses of the findings -/

/-- `16.1kB`, SI: admitted, in range; exact quantity 161·1000/10 = 16100 (Python's binary64
    product gives 16100.000000000002 and, with return_int, 16101: known finding N3-float-rounding) -/
example :
    let t : Text := ⟨none, ['1', '6'], some ['1'], ['k'], .B⟩
    t.Admitted .si ∧ specMult .si t.pfx = some 1000 ∧ t.InRange 1000 ∧
    render t = ['1', '6', '.', '1', 'k', 'B'] ∧
    stringToBytes Sys.si.key (render t) false = .ok (.float 161000 10) ∧
    stringToBytes Sys.si.key (render t) true = .ok (.int 16100) := by
  refine ⟨⟨by decide, by decide⟩, by decide, ⟨by decide +kernel, by decide +kernel, by decide +kernel⟩,
    by decide, by decide +kernel, by decide +kernel⟩

/-- finding D5 (fixed): `1kib` in mixed mode is 1024 bits = 128 bytes -/
example : stringToBytes Sys.mixed.key ['1', 'k', 'i', 'b'] false = .ok (.float 1024 8) := by decide +kernel

/-- `-.5Gibit`, IEC -/
example : stringToBytes Sys.iec.key ['-', '.', '5', 'G', 'i', 'b', 'i', 't'] true = .ok (.int (-67108864)) := by
  decide +kernel

/-- finding N3-trailing-newline (repaired): `1KB\n` is rejected -/
example : stringToBytes Sys.iec.key ['1', 'K', 'B', '\n'] false = .error .valueError := by decide +kernel

/-- known finding N3-float-range: a 310-digit magnitude with return_int raises OverflowError
    (and is `inf` without), not ValueError -/
example :
    stringToBytes Sys.iec.key ('1' :: List.replicate 309 '0' ++ ['B']) true = .error .overflowError ∧
    stringToBytes Sys.iec.key ('1' :: List.replicate 309 '0' ++ ['B']) false = .ok (.inf false) := by
  decide +kernel

/-- rejected texts: foreign prefix, unknown system, malformed number, trailing text -/
example : stringToBytes Sys.iec.key ['1', 'k', 'B'] false = .error .valueError ∧
    stringToBytes ['s', 'i'] ['1', 'B'] false = .error .valueError ∧
    stringToBytes Sys.si.key ['1', '.', 'B'] true = .error .valueError ∧
    stringToBytes Sys.si.key ['1', 'B', '\n', '\n'] true = .error .valueError := by decide

example : (['k'] : List Char) ∈ allPrefixes ∧ (['k'] : List Char) ∉ Sys.iec.prefixes := by decide

/-! ### QemuImgInfo size fields -/

theorem lemma_magText_dec (ip : List Char) (fp : Option (List Char)) :
    magText (.dec ip fp) = some (ip ++ dotFrac fp) := by
  cases fp <;> simp [magText, dotFrac]

theorem lemma_parseBytesInfo_nil : parseBytesInfo [] = none := by
  simp [parseBytesInfo, dropP]

/-- **Precedence of the explicit figure** — a size field `<junk><number><ws><unit><ws>(<ws>N<ws>bytes<ws>)<anything>`
    (as qemu-img prints `1.5G (1610612736 bytes)`, `1 GiB (1073741824 bytes)`): whatever the
    human-readable number and unit say — even a unit string_to_bytes would reject — the result is `N`.
    `junk` contains no digit and no dot; `unit` is any run of word characters (possibly empty) that
    does not start with a digit when it touches the number; `bytes` in either case. -/
theorem qemu_bytes_precedence (pre ip : List Char) (fp : Option (List Char))
    (ws1 unit ws2 ws3 n ws4 : List Char) (b y t e s : Char) (ws5 tl : List Char)
    (hpre : ∀ c ∈ pre, isDigit c = false ∧ c ≠ '.') (hwf : NumWF ip fp)
    (h1 : AllSpace ws1) (hu : AllWord unit)
    (hud : ws1 = [] → ∀ c r, unit = c :: r → isDigit c = false)
    (h2 : AllSpace ws2) (h3 : AllSpace ws3) (hn : AllDigits n) (hne : n ≠ [])
    (h4 : AllSpace ws4) (h4ne : ws4 ≠ []) (hb : IsBytesWord b y t e s) (h5 : AllSpace ws5) :
    extractBytes (pre ++ (ip ++ dotFrac fp ++
        (ws1 ++ (unit ++ (ws2 ++ '(' :: bytesTail ws3 n ws4 b y t e s ws5 tl))))) =
      .ok (.int (natOfDigits n)) := by
  -- the text after the number
  generalize hR : ws1 ++ (unit ++ (ws2 ++ '(' :: bytesTail ws3 n ws4 b y t e s ws5 tl)) = R
  have hend : NumEnd R := by
    intro c r hc
    subst hR
    cases ws1 with
    | cons w ws =>
      simp at hc; rw [← hc.1]
      have := lemma_space_cases w (h1 w (by simp)); exact ⟨this.1, this.2.2.2.2⟩
    | nil =>
      cases unit with
      | cons u us =>
        simp at hc; rw [← hc.1]
        exact ⟨hud rfl u us rfl, (lemma_word_cases u (hu u (by simp))).2.2.2.1⟩
      | nil =>
        cases ws2 with
        | cons w ws =>
          simp at hc; rw [← hc.1]
          have := lemma_space_cases w (h2 w (by simp)); exact ⟨this.1, this.2.2.2.2⟩
        | nil => simp at hc; rw [← hc.1]; decide
  have hsci : NoSci R := by
    have e : R = (ws1 ++ (unit ++ (ws2 ++ ('(' :: (ws3 ++ n))))) ++
        (ws4 ++ (b :: y :: t :: e :: s :: (ws5 ++ ')' :: tl))) := by
      subst hR; simp [bytesTail, List.append_assoc]
    rw [e]
    apply lemma_noSci_of_prefix
    · intro c hc
      simp only [List.mem_append, List.mem_cons] at hc
      rcases hc with hc | hc | hc | hc | hc | hc
      · have := lemma_space_cases c (h1 c hc); exact ⟨this.2.2.1, this.2.2.2.1⟩
      · have := lemma_word_cases c (hu c hc); exact ⟨this.2.1, this.2.2.1⟩
      · have := lemma_space_cases c (h2 c hc); exact ⟨this.2.2.1, this.2.2.2.1⟩
      · subst hc; decide
      · have := lemma_space_cases c (h3 c hc); exact ⟨this.2.2.1, this.2.2.2.1⟩
      · have := lemma_word_cases c (lemma_digit_word c (hn c hc)); exact ⟨this.2.1, this.2.2.1⟩
    · obtain ⟨d, ds, rfl⟩ := List.exists_cons_of_ne_nil hne
      simp; omega
  have hfind : findMag (pre ++ (ip ++ dotFrac fp ++ R)) = some (.dec ip fp, R) := by
    rw [lemma_findMag_skip pre _ hpre]; exact lemma_findMag_dec ip fp R hwf hend hsci
  have hinfo : parseBytesInfo (dropP isWord (dropP isSpace R)) = some n := by
    subst hR
    rw [lemma_dropP_all isSpace ws1 _ h1]
    cases unit with
    | nil =>
      simp only [List.nil_append]
      rw [lemma_dropP_all isSpace ws2 _ h2, lemma_dropP_id isSpace '(' _ (by decide),
        lemma_dropP_id isWord '(' _ (by decide)]
      exact lemma_parseBytesInfo [] ws3 n ws4 b y t e s ws5 tl (by intro c hc; simp at hc) h3 hn hne h4 h4ne hb h5
    | cons u us =>
      have hus : isSpace u = false := (lemma_word_cases u (hu u (by simp))).1
      rw [List.cons_append, lemma_dropP_id isSpace u _ hus, ← List.cons_append]
      have : NoHead isWord (ws2 ++ '(' :: bytesTail ws3 n ws4 b y t e s ws5 tl) := by
        intro c r hc
        cases ws2 with
        | cons w ws => simp at hc; rw [← hc.1]; exact (lemma_space_cases w (h2 w (by simp))).2.1
        | nil => simp at hc; rw [← hc.1]; decide
      rw [(lemma_span_append isWord (u :: us) _ hu this).2]
      exact lemma_parseBytesInfo ws2 ws3 n ws4 b y t e s ws5 tl h2 h3 hn hne h4 h4ne hb h5
  unfold extractBytes extractStep
  rw [hfind]
  simp only [extractAfter, hinfo]

/-- **Plain number** — a field that is just digits (`cluster_size: 65536`) is that number. -/
theorem qemu_plain_number (ds : List Char) (hd : AllDigits ds) (hne : ds ≠ []) :
    extractBytes ds = .ok (.int (natOfDigits ds)) := by
  have hfind := lemma_findMag_dec ds none [] ⟨hd, hne⟩ (by intro c r h; simp at h)
    (by intro e sg r2 h; simp at h)
  simp only [dotFrac, List.append_nil] at hfind
  unfold extractBytes extractStep
  rw [hfind]
  have hall : ds.all isDigit = true := by rw [List.all_eq_true]; exact hd
  simp [extractAfter, dropP, takeP, lemma_parseBytesInfo_nil, magText, intOfText, hne, hall]

/-- **Same arithmetic** — a human-readable field `<number><ws><unit>` without an explicit byte figure is
    converted by `string_to_bytes(<number><unit>, 'IEC', return_int=True)` (so `s2b_int_is_ceil_partial`
    etc. apply), a one-letter unit other than `B` first getting a `B` appended (`1.5G` means `1.5GB`). -/
theorem qemu_human_same_arithmetic (ip : List Char) (fp : Option (List Char)) (ws unit : List Char)
    (hwf : NumWF ip fp) (h1 : AllSpace ws) (hu : AllWord unit) (hune : unit ≠ [])
    (hud : ws = [] → ∀ c r, unit = c :: r → isDigit c = false) :
    extractBytes (ip ++ dotFrac fp ++ (ws ++ unit)) =
      stringToBytes Sys.iec.key
        (ip ++ dotFrac fp ++ (if unit.length = 1 ∧ unit ≠ ['B'] then unit ++ ['B'] else unit)) true := by
  obtain ⟨u, us, rfl⟩ := List.exists_cons_of_ne_nil hune
  have huw := lemma_word_cases u (hu u (by simp))
  have hend : NumEnd (ws ++ u :: us) := by
    intro c r hc
    cases ws with
    | cons w ws' =>
      simp at hc; rw [← hc.1]
      have := lemma_space_cases w (h1 w (by simp)); exact ⟨this.1, this.2.2.2.2⟩
    | nil => simp at hc; rw [← hc.1]; exact ⟨hud rfl u us rfl, huw.2.2.2.1⟩
  have hsci : NoSci (ws ++ u :: us) := by
    apply lemma_noSci_all
    intro c hc
    simp only [List.mem_append] at hc
    rcases hc with hc | hc
    · have := lemma_space_cases c (h1 c hc); exact ⟨this.2.2.1, this.2.2.2.1⟩
    · have := lemma_word_cases c (hu c hc); exact ⟨this.2.1, this.2.2.1⟩
  have hfind := lemma_findMag_dec ip fp (ws ++ u :: us) hwf hend hsci
  have hsp : dropP isSpace (ws ++ u :: us) = u :: us := by
    rw [lemma_dropP_all isSpace ws _ h1]; exact lemma_dropP_id _ _ _ huw.1
  have hw := lemma_span_append isWord (u :: us) [] hu (by intro c r h; simp at h)
  simp only [List.append_nil] at hw
  unfold extractBytes extractStep
  rw [hfind]
  simp only [extractAfter, hsp, hw.1, hw.2, lemma_parseBytesInfo_nil, lemma_magText_dec]
  simp [Sys.key]

/-- non-vacuity: the three shapes on concrete fields -/
example :
    extractBytes "1.5G (1610612736 bytes)".toList = .ok (.int 1610612736) ∧
    extractBytes "64 KiB ( 5  BYTES )".toList = .ok (.int 5) ∧
    extractBytes "65536".toList = .ok (.int 65536) ∧
    extractBytes "196 KiB".toList = .ok (.int 200704) ∧
    extractBytes "1.5G".toList = .ok (.int 1610612736) ∧
    extractBytes "2k".toList = .error .valueError ∧
    sizeField "unavailable".toList = .ok (.int 0) := by
  decide +kernel

end Oslo.Units
