import OsloModel.Proto
import OsloModel.Time
open Oslo Oslo.Time Oslo.Proto

/-
Requests (TAB-separated fields):
  norm   <dt>                                   -> ok:<dt> | err:<Name>
  secs   <num>/<den>                            -> ok:<us> | err:<Name>
  run    <init: N | int>  <op;op;…  | ->        -> <out;out;…> TAB <state: N | int>
  marshall      <fields> <tz>                   -> <fields> TAB <tzentry>
  marshall_now  <state>  <fields of the override instant (the calendar, supplied by the caller)>
                                                -> real | <fields> TAB <tzentry>
  unmarshall    <fields> <tzentry> <lookup: ok | ZoneInfoNotFoundError | ValueError>
                                                -> ok TAB <fields> TAB <tz> | err:<Name>
  roundtrip     <fields> <tz> <leap 0|1> <lookup>     (marshall, second := 60 if leap, unmarshall)
  roundtrip_now <state> <fields of the override instant> <leap> <lookup>
                                                -> <fields> TAB <tzentry> TAB <unmarshall reply> TAB re:<fields> TAB <tzentry> | … TAB re:-
<dt>      = n:<loc> | a:<loc>:<off>         (microseconds)
<secs>    = <num>/<den>
<op>      = set <t> | advd <d> | advs <secs> | clear | now <0|1> | ts <0|1>
          | older <dt> <secs> | newer <dt> <secs> | soon <dt> <secs>
          | fxup <t> | fxdown | fxadvd <d> | fxadvs <secs>      (TimeFixture entry points, same cell)
<fields>  = year,month,day,hour,minute,second,microsecond
<tz>      = naive | none | name:<hex>       <tzentry> = absent | none | name:<hex>
-/

def errName : Err → String
  | .overflow => "OverflowError" | .assertion => "AssertionError" | .typeError => "TypeError"
  | .valueError => "ValueError" | .zoneNotFound => "ZoneInfoNotFoundError"

def parseDT (s : String) : Option DT :=
  match s.splitOn ":" with
  | ["n", l] => (l.toInt?).map .naive
  | ["a", l, o] => do let l ← l.toInt?; let o ← o.toInt?; pure (.aware l o)
  | _ => none

def showDT : DT → String
  | .naive l => s!"n:{l}"
  | .aware l o => s!"a:{l}:{o}"

def parseSecs (s : String) : Option Secs :=
  match s.splitOn "/" with
  | [n, d] => do
    let n ← n.toInt?
    let d ← d.toNat?
    if h : 0 < d then pure ⟨n, d, h⟩ else none
  | _ => none

def parseFlag (s : String) : Option Bool :=
  if s = "0" then some false else if s = "1" then some true else none

def parseOp (s : String) : Option Op :=
  match s.splitOn " " with
  | ["set", t] => (t.toInt?).map .set
  | ["advd", d] => (d.toInt?).map .advDelta
  | ["advs", q] => (parseSecs q).map .advSeconds
  | ["clear"] => some .clear
  | ["fxup", t] => (t.toInt?).map .fxSetUp
  | ["fxdown"] => some .fxCleanUp
  | ["fxadvd", d] => (d.toInt?).map .fxAdvDelta
  | ["fxadvs", q] => (parseSecs q).map .fxAdvSeconds
  | ["now", f] => (parseFlag f).map .utcnow
  | ["ts", f] => (parseFlag f).map .utcnowTs
  | ["older", d, q] => do let d ← parseDT d; let q ← parseSecs q; pure (.older d q)
  | ["newer", d, q] => do let d ← parseDT d; let q ← parseSecs q; pure (.newer d q)
  | ["soon", d, q] => do let d ← parseDT d; let q ← parseSecs q; pure (.soon d q)
  | _ => none

def showOut : Out → String
  | .none => "none"
  | .instant t => s!"dt:{t}"
  | .tsInt n => s!"int:{n}"
  | .tsMicro n => s!"us:{n}"
  | .bool b => if b then "bool:1" else "bool:0"
  | .err e => errName e
  | .real => "real"

def parseOps (s : String) : Option (List Op) :=
  if s = "-" then some [] else (s.splitOn ";").mapM parseOp

def parseFields (s : String) : Option Fields :=
  match (s.splitOn ",").mapM String.toInt? with
  | some [y, mo, d, h, mi, sec, us] => some ⟨y, mo, d, h, mi, sec, us⟩
  | _ => none

def showFields (f : Fields) : String :=
  s!"{f.year},{f.month},{f.day},{f.hour},{f.minute},{f.second},{f.microsecond}"

/-- `absentWord` is "naive" for a datetime's tz, "absent" for a dict entry -/
def parseTz (absentWord : String) (s : String) : Option (Option (Option (List Char))) :=
  if s = absentWord then some none
  else if s = "none" then some (some none)
  else match s.splitOn ":" with
    | ["name", h] => (unhexChars h).map (fun n => some (some n))
    | _ => none

def showTz (absentWord : String) : Option (Option (List Char)) → String
  | none => absentWord
  | some none => "none"
  | some (some n) => "name:" ++ hexChars n

def parseLookup (s : String) : Option (Option Err) :=
  if s = "ok" then some none
  else if s = "ZoneInfoNotFoundError" then some (some .zoneNotFound)
  else if s = "ValueError" then some (some .valueError)
  else none

def showMarshalled (m : Marshalled) : String :=
  showFields m.f ++ "\t" ++ showTz "absent" m.tzname

def showUnm : Except Err Stamp → String
  | .ok s => "ok\t" ++ showFields s.f ++ "\t" ++ showTz "naive" s.tz
  | .error e => "err:" ++ errName e

/-- marshall, optionally put a leap second into the record, unmarshall -/
def roundtrip (m : Marshalled) (leap : Bool) (lk : Option Err) : String :=
  let m' : Marshalled := if leap then { m with f := { m.f with second := 60 } } else m
  let r := unmarshall (fun _ => lk) m'
  -- … and marshall the result again (meaningful when the result's tzname(None) is its key: naive, UTC)
  let re := match r with
    | .ok s => "re:" ++ showMarshalled (marshall s)
    | .error _ => "re:-"
  showMarshalled m ++ "\t" ++ showUnm r ++ "\t" ++ re

def handle : List String → String
  | ["norm", d] =>
    match parseDT d with
    | some d =>
      match normalizeTime d with
      | .ok r => "ok:" ++ showDT r
      | .error e => "err:" ++ errName e
    | none => "bad-request"
  | ["secs", q] =>
    match parseSecs q with
    | some q =>
      match usOfSeconds q with
      | .ok r => s!"ok:{r}"
      | .error e => "err:" ++ errName e
    | none => "bad-request"
  | ["run", st, ops] =>
    match optInt st, parseOps ops with
    | some st, some ops =>
      let (st', outs) := run st ops
      String.intercalate ";" (outs.map showOut) ++ "\t" ++ showOptInt st'
    | _, _ => "bad-request"
  | ["marshall", f, tz] =>
    match parseFields f, parseTz "naive" tz with
    | some f, some tz => showMarshalled (marshall ⟨f, tz⟩)
    | _, _ => "bad-request"
  | ["marshall_now", st, f] =>
    match optInt st, parseFields f with
    | some st, some f =>
      match marshallNow (fun _ => f) st none with
      | some m => showMarshalled m
      | none => "real"
    | _, _ => "bad-request"
  | ["unmarshall", f, tz, lk] =>
    match parseFields f, parseTz "absent" tz, parseLookup lk with
    | some f, some tz, some lk =>
      showUnm (unmarshall (fun _ => lk) ⟨f, tz⟩)
    | _, _, _ => "bad-request"
  | ["roundtrip", f, tz, leap, lk] =>
    match parseFields f, parseTz "naive" tz, parseFlag leap, parseLookup lk with
    | some f, some tz, some leap, some lk => roundtrip (marshall ⟨f, tz⟩) leap lk
    | _, _, _, _ => "bad-request"
  | ["roundtrip_now", st, f, leap, lk] =>
    match optInt st, parseFields f, parseFlag leap, parseLookup lk with
    | some st, some f, some leap, some lk =>
      match marshallNow (fun _ => f) st none with
      | some m => roundtrip m leap lk
      | none => "real"
    | _, _, _, _ => "bad-request"
  | _ => "bad-request"

def main : IO Unit := serve handle
