/-
The expected inspector's run (`xrun`, Lemmas/WrapRunExp.lean) for the model inspectors: how the
read through a wrapper with an expected format ends, as a function of the bytes.

* fixed-region formats: the run ends the way the inspector fed the WHOLE stream decides
  (`lemma_xrun_static`) — `complete` is monotone and what `_process_chunk` reads of a complete
  inspector is frozen (`lemma_good_step`), so the first chunk boundary at which the inspector is
  complete decides as the end of the stream does;
* VMDK in sparse-header mode and on streams it cannot match: `lemma_xrun_vmdk_sparse`,
  `lemma_xrun_vmdk_nomatch`.
Used by Props/C01WrapExp.lean.
-/
import OsloProofs.Lemmas.WrapRunExp
import OsloProofs.Lemmas.WrapRunVmdk
import OsloProofs.Props.C03Stable
namespace Oslo.Insp

/-- the decision `_process_chunk` reads off the expected inspector's state after a chunk it ate
    without raising -/
def decI (st : Insp) : POut := if st.complete then ofMatch (formatMatch st) else .done

theorem lemma_decOf_none (st : Insp) : decOf realOps (st, none) = decI st := rfl

theorem lemma_decOf_some (st : Insp) (e : Err) : decOf realOps (st, some e) = .raised e := rfl

theorem lemma_decI_view (a b : Insp) (h : view a = view b) : decI a = decI b := by
  have h1 : a.complete = b.complete := congrArg (fun v => v.2.1) h
  have h2 : formatMatch a = formatMatch b := congrArg (fun v => v.2.2) h
  simp only [decI, h1, h2]

theorem lemma_good_feed : ∀ (cs : List Bytes) (s : Insp), Good s →
    (feed s cs).2 = none ∧ Good (feed s cs).1 ∧ (s.complete = true → view (feed s cs).1 = view s) := by
  intro cs
  induction cs with
  | nil => intro s hg; exact ⟨rfl, hg, fun _ => rfl⟩
  | cons c cs ih =>
    intro s hg
    obtain ⟨hne, hg', hfr⟩ := lemma_good_step s c hg
    have hfeed : feed s (c :: cs) = feed (eatChunk s c).1 cs := by
      simp only [feed]
      cases he : eatChunk s c with
      | mk s1 e =>
        rw [he] at hne
        simp only at hne
        subst hne
        rfl
    rw [hfeed]
    obtain ⟨i1, i2, i3⟩ := ih (eatChunk s c).1 hg'
    refine ⟨i1, i2, fun hc => ?_⟩
    have hv := hfr hc
    have hc' : (eatChunk s c).1.complete = true := by
      have : (eatChunk s c).1.complete = s.complete := congrArg (fun v => v.2.1) hv
      rw [this]; exact hc
    rw [i3 hc', hv]

theorem lemma_xdec_good (s : Insp) (c : Bytes) (hg : Good s) :
    xdec realOps s c = decI (eatChunk s c).1 := by
  obtain ⟨hne, _, _⟩ := lemma_good_step s c hg
  unfold xdec
  have : realOps.eat s c = eatChunk s c := rfl
  rw [this]
  cases he : eatChunk s c with
  | mk s1 e =>
    rw [he] at hne
    simp only at hne
    subst hne
    rfl

theorem lemma_feed_cons_good (s : Insp) (c : Bytes) (cs : List Bytes) (hg : Good s) :
    feed s (c :: cs) = feed (eatChunk s c).1 cs := by
  obtain ⟨hne, _, _⟩ := lemma_good_step s c hg
  simp only [feed]
  cases he : eatChunk s c with
  | mk s1 e =>
    rw [he] at hne
    simp only at hne
    subst hne
    rfl

/-- a fixed-region inspector's run over a non-empty chunk list ends the way its state after the
    whole list decides -/
theorem lemma_xrun_good : ∀ (cs : List Bytes) (s : Insp) (c : Bytes), Good s →
    (xrun realOps s (c :: cs)).2 = decI (feed s (c :: cs)).1 := by
  intro cs
  induction cs with
  | nil =>
    intro s c hg
    have hx := lemma_xdec_good s c hg
    rw [lemma_feed_cons_good s c [] hg]
    by_cases hd : xdec realOps s c = .done
    · rw [lemma_xrun_cons_done realOps s c [] hd]
      simp only [xrun, feed]
      rw [← hx, hd]
    · rw [lemma_xrun_cons_stop realOps s c [] hd]
      simp only [feed]
      exact hx
  | cons c2 cs ih =>
    intro s c hg
    have hx := lemma_xdec_good s c hg
    obtain ⟨_, hg', _⟩ := lemma_good_step s c hg
    rw [lemma_feed_cons_good s c (c2 :: cs) hg]
    by_cases hd : xdec realOps s c = .done
    · rw [lemma_xrun_cons_done realOps s c (c2 :: cs) hd]
      exact ih (eatChunk s c).1 c2 hg'
    · rw [lemma_xrun_cons_stop realOps s c (c2 :: cs) hd]
      simp only
      rw [hx]
      have hc : (eatChunk s c).1.complete = true := by
        rw [hx] at hd
        by_cases hc : (eatChunk s c).1.complete = true
        · exact hc
        · simp [decI, hc] at hd
      exact (lemma_decI_view _ _ ((lemma_good_feed (c2 :: cs) _ hg').2.2 hc)).symm

theorem lemma_feed_static_eq (f : Fmt) (hf : f.static = true) (s0 : Insp) (h0 : Insp.init f = some s0)
    (c1 c2 : List Bytes) (h : c1.flatten = c2.flatten) : feed s0 c1 = feed s0 c2 := by
  by_cases hq : f = .qcow2
  · subst hq
    rw [feed_qcow_eq_spec s0 h0, feed_qcow_eq_spec s0 h0, h]
  · have hp : f.plain = true := by simp [Fmt.plain, hf, hq]
    rw [feed_plain_eq_spec f hp s0 h0, feed_plain_eq_spec f hp s0 h0, h]

/-- a freshly initialised inspector never makes `_process_chunk` stop -/
theorem lemma_decI_init (f : Fmt) (s0 : Insp) (h0 : Insp.init f = some s0) : decI s0 = .done := by
  have hall : Fmt.all.all (fun f => match Insp.init f with
      | some s => decide (decI s = .done) | none => true) = true := by decide
  have := List.all_eq_true.mp hall f (by cases f <;> decide)
  rw [h0] at this
  simpa using this

/-- **fixed-region formats**: for every chunking the expected inspector's run ends the way the
    inspector fed the whole stream in one chunk decides -/
theorem lemma_xrun_static (f : Fmt) (hf : f.static = true) (s0 : Insp) (h0 : Insp.init f = some s0)
    (cs : List Bytes) : (xrun realOps s0 cs).2 = decI (feed s0 [cs.flatten]).1 := by
  cases cs with
  | nil =>
    have : feed s0 [([] : List Bytes).flatten] = feed s0 [] :=
      lemma_feed_static_eq f hf s0 h0 _ _ (by simp)
    rw [this]
    simp only [xrun, feed]
    exact (lemma_decI_init f s0 h0).symm
  | cons c cs =>
    rw [lemma_xrun_good cs s0 c (init_good f hf s0 h0)]
    rw [lemma_feed_static_eq f hf s0 h0 (c :: cs) [(c :: cs).flatten] (by simp)]

/-! ### VMDK -/

theorem lemma_snoc_cases {α : Type} : ∀ (l : List α), l ≠ [] → ∃ pre c, l = pre ++ [c] := by
  intro l
  induction l with
  | nil => intro h; exact absurd rfl h
  | cons a l ih =>
    intro _
    cases l with
    | nil => exact ⟨[], a, rfl⟩
    | cons b l =>
      obtain ⟨pre, c, h⟩ := ih (by simp)
      exact ⟨a :: pre, c, by rw [h]; rfl⟩

theorem lemma_vPre_dec (n : Nat) (hd d0 : Bytes) (dt : Option Bytes) (vt : Bytes) (h : hd.length < 64) :
    decI (vPreG n hd d0 dt vt) = .done := by
  have hc : (vHdrR hd).complete = false := by
    simp [Region.complete, vHdrR, Nat.not_le.mpr h]
  simp [decI, Insp.complete, vPreG, hc]

/-- sparse-header mode, one prefix of the chunk list: what `_process_chunk` reads off the VMDK
    inspector after it -/
theorem lemma_vmdk_sparse_prefix (s0 : Insp) (h0 : Insp.init .vmdk = some s0) (L : List Bytes) (r : Bytes)
    (hs : VmdkSparse (L.flatten ++ r)) :
    decOf realOps (gfeed realOps s0 L) =
      if L.flatten.length < 64 then .done
      else if (hdrOf (L.flatten ++ r)).descSec * 512 = Gen.vmdkDescOffset then .done else .raised .imageFormat := by
  obtain ⟨hlen, hsig, hver, _⟩ := hs
  have h5s : NulAt5 (L.flatten ++ r) := lemma_nulAt5_of_ver _ hlen (by
    have : (hdrOf (L.flatten ++ r)).ver = leNat (slice (L.flatten ++ r) 4 8) := rfl
    rw [← this]; omega)
  have h5 : NulAt5 L.flatten := lemma_nulAt5_prefix (List.prefix_append _ _) h5s
  rw [lemma_gfeed_real]
  by_cases hlt : L.flatten.length < 64
  · rw [if_pos hlt, lemma_vmdk_init s0 h0]
    obtain ⟨d0', dt', hf⟩ := lemma_pre_feed_short L [] [] none (by simpa using hlt) lemma_vmdk_plainInv_init
      (by simpa using h5)
    rw [hf]
    simp only [List.nil_append]
    rw [lemma_decOf_none]
    exact lemma_vPre_dec _ _ d0' dt' formatNotFound (by rw [lemma_sliceOf_length]; omega)
  · rw [if_neg hlt]
    have hge : 64 ≤ L.flatten.length := by omega
    have hpar : parseSparseHeader L.flatten 0 = .ok (hdrOf (L.flatten ++ r)) := by
      rw [← lemma_vmdk_parse_append L.flatten r hge]
      exact lemma_vmdk_parse_hdrOf _ hlen
    have hok : HdrOK (hdrOf (L.flatten ++ r)) := ⟨hsig, hver⟩
    have hout := lemma_vmdk_feed _ _ (hdrOf (L.flatten ++ r)) hok rfl rfl s0 h0 L h5 hge hpar
    rcases hout with ⟨hds, hd, fo, fd, dt, vt, hr, hp, hl, _, _⟩ | ⟨hds, n, hd, d0, dt, hr, _, _, _⟩
    · rw [hr, if_pos hds, lemma_decOf_none]
      have hm := lemma_vmdk_startsWith_kdmv hd _ hp hok.sig
      simp only [decI, lemma_post_formatMatch, hm, ofMatch, ite_self]
    · rw [hr, if_neg hds, lemma_decOf_some]

/-- **VMDK, sparse-header mode**: the run ends normally when the descriptor is at sector 1, and with
    the inspector's ImageFormatError (at the chunk that completes the 64-byte header) otherwise -/
theorem lemma_xrun_vmdk_sparse (s0 : Insp) (h0 : Insp.init .vmdk = some s0) (cs : List Bytes)
    (hs : VmdkSparse cs.flatten) :
    (xrun realOps s0 cs).2 =
      if (hdrOf cs.flatten).descSec * 512 = Gen.vmdkDescOffset then .done else .raised .imageFormat := by
  have hpre : ∀ pre c post, cs = pre ++ c :: post →
      decOf realOps (gfeed realOps s0 (pre ++ [c])) =
        if (pre ++ [c]).flatten.length < 64 then .done
        else if (hdrOf cs.flatten).descSec * 512 = Gen.vmdkDescOffset then .done else .raised .imageFormat := by
    intro pre c post hcs
    have hfl : cs.flatten = (pre ++ [c]).flatten ++ post.flatten := by
      rw [hcs]; simp
    rw [hfl] at hs ⊢
    exact lemma_vmdk_sparse_prefix s0 h0 (pre ++ [c]) post.flatten hs
  by_cases hds : (hdrOf cs.flatten).descSec * 512 = Gen.vmdkDescOffset
  · rw [if_pos hds]
    apply lemma_xrun_all_done
    intro pre c post hcs
    rw [hpre pre c post hcs, if_pos hds]
    simp
  · rw [if_neg hds]
    apply lemma_xrun_two realOps cs s0 (.raised .imageFormat) (by simp)
    · intro pre c post hcs
      rw [hpre pre c post hcs, if_neg hds]
      by_cases hlt : (pre ++ [c]).flatten.length < 64
      · exact Or.inl (by rw [if_pos hlt])
      · exact Or.inr (by rw [if_neg hlt])
    · have hne : cs ≠ [] := by
        intro he
        have := hs.1
        rw [he] at this
        simp at this
      obtain ⟨pre, c, hcs⟩ := lemma_snoc_cases cs hne
      refine ⟨pre, c, [], hcs, ?_⟩
      rw [hpre pre c [] hcs, if_neg hds, ← hcs, if_neg (by have := hs.1; omega)]

/-- feeding chunks that together leave fewer than 64 bytes streamed (any content) -/
theorem lemma_preG_feed_short (chunks : List Bytes) : ∀ (p d0 : Bytes) (dt : Option Bytes) (vt : Bytes),
    (p ++ chunks.flatten).length < 64 → PlainInv (vDesc0R d0) p →
    ∃ d0' dt' vt', feed (vPreG p.length (sliceOf p 0 512) d0 dt vt) chunks =
      (vPreG (p ++ chunks.flatten).length (sliceOf (p ++ chunks.flatten) 0 512) d0' dt' vt', none) := by
  induction chunks with
  | nil =>
    intro p d0 dt vt _ _
    exact ⟨d0, dt, vt, by simp [feed]⟩
  | cons c cs ih =>
    intro p d0 dt vt hlt hinv
    have hassoc : p ++ (c :: cs).flatten = (p ++ c) ++ cs.flatten := by simp
    rw [hassoc] at hlt ⊢
    have hlt' : (p ++ c).length < 64 := by
      rw [List.length_append] at hlt; omega
    obtain ⟨d0', dt', vt', heat, hinv'⟩ := lemma_preG_step p c d0 dt vt hlt' hinv
    rw [← List.length_append] at heat
    simp only [feed, heat]
    exact ih (p ++ c) d0' dt' vt' hlt hinv'

theorem lemma_vmdk_nomatch_prefix (s0 : Insp) (h0 : Insp.init .vmdk = some s0) (L : List Bytes) (r : Bytes)
    (h : VmdkNoMatch (L.flatten ++ r)) :
    decOf realOps (gfeed realOps s0 L) =
      if L.flatten.length < 64 then .done else .raised .imageFormat := by
  rw [lemma_gfeed_real, lemma_vmdk_init s0 h0]
  have hinit : vPre ([] : Bytes).length (sliceOf [] 0 512) [] none =
      vPreG ([] : Bytes).length (sliceOf [] 0 512) [] none formatNotFound := rfl
  rw [hinit]
  by_cases hlt : L.flatten.length < 64
  · rw [if_pos hlt]
    obtain ⟨d0', dt', vt', hf⟩ := lemma_preG_feed_short L [] [] none formatNotFound (by simpa using hlt)
      lemma_vmdk_plainInv_init
    rw [hf]
    simp only [List.nil_append]
    rw [lemma_decOf_none]
    exact lemma_vPre_dec _ _ d0' dt' vt' (by rw [lemma_sliceOf_length]; omega)
  · rw [if_neg hlt]
    have hge : 64 ≤ L.flatten.length := by omega
    have hl4 : kdmv.length = 4 := by decide
    have hyp : (([] : Bytes) ++ L.flatten).length < 64 ∨
        (startsWith ([] ++ L.flatten) kdmv = false ∧ isTextHeader (([] ++ L.flatten).take 64) = false) := by
      right
      simp only [List.nil_append]
      constructor
      · rw [← h.1]
        simp only [startsWith, hl4]
        rw [List.take_append_of_le_length (by omega)]
      · rcases h.2 with h2 | h2
        · rw [List.length_append] at h2; omega
        · rw [← h2, List.take_append_of_le_length hge]
    obtain ⟨n, hd, d0', dt', vt', hf, _⟩ := lemma_preG_feed L [] [] none formatNotFound (by simp)
      lemma_vmdk_plainInv_init hyp
    simp only [List.nil_append, if_neg hlt] at hf
    rw [hf, lemma_decOf_some]

/-- **VMDK on a stream it cannot match**: the run ends normally when fewer than 64 bytes are
    streamed, and with the inspector's ImageFormatError otherwise -/
theorem lemma_xrun_vmdk_nomatch (s0 : Insp) (h0 : Insp.init .vmdk = some s0) (cs : List Bytes)
    (h : VmdkNoMatch cs.flatten) :
    (xrun realOps s0 cs).2 = if cs.flatten.length < 64 then .done else .raised .imageFormat := by
  have hpre : ∀ pre c post, cs = pre ++ c :: post →
      decOf realOps (gfeed realOps s0 (pre ++ [c])) =
        if (pre ++ [c]).flatten.length < 64 then .done else .raised .imageFormat := by
    intro pre c post hcs
    have hfl : cs.flatten = (pre ++ [c]).flatten ++ post.flatten := by
      rw [hcs]; simp
    rw [hfl] at h
    exact lemma_vmdk_nomatch_prefix s0 h0 (pre ++ [c]) post.flatten h
  by_cases hlt : cs.flatten.length < 64
  · rw [if_pos hlt]
    apply lemma_xrun_all_done
    intro pre c post hcs
    rw [hpre pre c post hcs]
    have : (pre ++ [c]).flatten.length < 64 := by
      have hfl : cs.flatten = (pre ++ [c]).flatten ++ post.flatten := by rw [hcs]; simp
      rw [hfl, List.length_append] at hlt
      omega
    rw [if_pos this]
  · rw [if_neg hlt]
    apply lemma_xrun_two realOps cs s0 (.raised .imageFormat) (by simp)
    · intro pre c post hcs
      rw [hpre pre c post hcs]
      by_cases hl : (pre ++ [c]).flatten.length < 64
      · exact Or.inl (by rw [if_pos hl])
      · exact Or.inr (by rw [if_neg hl])
    · have hne : cs ≠ [] := by
        intro he
        rw [he] at hlt
        simp at hlt
      obtain ⟨pre, c, hcs⟩ := lemma_snoc_cases cs hne
      refine ⟨pre, c, [], hcs, ?_⟩
      rw [hpre pre c [] hcs, ← hcs, if_neg hlt]

end Oslo.Insp
