/-
Helper lemmas for C11: `str.split` / `rsplit` model functions and joining.
-/
import OsloModel.Net
namespace Oslo.Net

/-- `sep.join(tokens)` -/
def joinSep (sep : Char) : List (List Char) → List Char
  | [] => []
  | [t] => t
  | t :: u :: ts => t ++ sep :: joinSep sep (u :: ts)

theorem lemma_splitOn_ne_nil (sep : Char) (s : List Char) : splitOn sep s ≠ [] := by
  induction s with
  | nil => simp [splitOn]
  | cons c cs ih =>
    unfold splitOn; split
    · simp
    · cases h : splitOn sep cs <;> simp [consHead]

theorem lemma_joinSep_consHead (sep c : Char) (ts : List (List Char)) (h : ts ≠ []) :
    joinSep sep (consHead c ts) = c :: joinSep sep ts := by
  match ts, h with
  | [t], _ => simp [consHead, joinSep]
  | t :: u :: r, _ => simp [consHead, joinSep]

theorem lemma_joinSep_cons (sep : Char) (t : List Char) (ts : List (List Char)) (h : ts ≠ []) :
    joinSep sep (t :: ts) = t ++ sep :: joinSep sep ts := by
  match ts, h with
  | u :: r, _ => simp [joinSep]

/-- splitting and joining again gives the text back -/
theorem lemma_join_splitOn (sep : Char) (s : List Char) : joinSep sep (splitOn sep s) = s := by
  induction s with
  | nil => simp [splitOn, joinSep]
  | cons c cs ih =>
    unfold splitOn; split
    · rename_i h; rw [lemma_joinSep_cons _ _ _ (lemma_splitOn_ne_nil sep cs), ih]; simp [h]
    · rw [lemma_joinSep_consHead _ _ _ (lemma_splitOn_ne_nil sep cs), ih]

theorem lemma_splitOn_notin (sep : Char) (t : List Char) (h : sep ∉ t) : splitOn sep t = [t] := by
  induction t with
  | nil => simp [splitOn]
  | cons c cs ih =>
    simp at h
    unfold splitOn
    rw [if_neg (by intro e; exact h.1 e.symm), ih h.2]; simp [consHead]

theorem lemma_splitOn_append (sep : Char) (t rest : List Char) (h : sep ∉ t) :
    splitOn sep (t ++ sep :: rest) = t :: splitOn sep rest := by
  induction t with
  | nil => simp [splitOn]
  | cons c cs ih =>
    simp at h
    have hne : ¬ c = sep := by intro e; exact h.1 e.symm
    simp only [List.cons_append, splitOn, if_neg hne, ih h.2, consHead]

/-- no token of a split contains the separator -/
theorem lemma_splitOn_mem (sep : Char) (s t : List Char) (h : t ∈ splitOn sep s) : sep ∉ t := by
  induction s generalizing t with
  | nil => simp [splitOn] at h; simp [h]
  | cons c cs ih =>
    unfold splitOn at h; split at h
    · simp at h; rcases h with h | h
      · simp [h]
      · exact ih _ h
    · rename_i hc
      cases hs : splitOn sep cs with
      | nil => exact absurd hs (lemma_splitOn_ne_nil sep cs)
      | cons u r =>
        rw [hs] at h; simp [consHead] at h
        rcases h with h | h
        · subst h; simp; exact ⟨fun e => hc e.symm, ih u (by simp [hs])⟩
        · exact ih t (by simp [hs, h])

/-- splitting a join of separator-free tokens gives the tokens back -/
theorem lemma_splitOn_joinSep (sep : Char) (ts : List (List Char)) (hne : ts ≠ [])
    (h : ∀ t ∈ ts, sep ∉ t) : splitOn sep (joinSep sep ts) = ts := by
  induction ts with
  | nil => exact absurd rfl hne
  | cons t r ih =>
    cases r with
    | nil => simp [joinSep]; exact lemma_splitOn_notin sep t (h t (by simp))
    | cons u r' =>
      simp only [joinSep]
      rw [lemma_splitOn_append sep t _ (h t (by simp)), ih (by simp) (fun x hx => h x (by simp [hx]))]

/-! ### splitFirst / rsplitLast -/

theorem lemma_splitFirst_notin (sep : Char) (s : List Char) (h : sep ∉ s) :
    splitFirst sep s = (s, none) := by
  induction s with
  | nil => simp [splitFirst]
  | cons c cs ih =>
    simp at h
    unfold splitFirst
    rw [if_neg (by intro e; exact h.1 e.symm), ih h.2]

theorem lemma_splitFirst_append (sep : Char) (a p : List Char) (h : sep ∉ a) :
    splitFirst sep (a ++ sep :: p) = (a, some p) := by
  induction a with
  | nil => simp [splitFirst]
  | cons c cs ih =>
    simp at h
    have hne : ¬ c = sep := by intro e; exact h.1 e.symm
    simp only [List.cons_append, splitFirst, if_neg hne, ih h.2]

theorem lemma_rsplitLast_notin (sep : Char) (s : List Char) (h : sep ∉ s) :
    rsplitLast sep s = (s, none) := by
  induction s with
  | nil => simp [rsplitLast]
  | cons c cs ih =>
    simp at h
    unfold rsplitLast
    rw [ih h.2]; simp; intro e; exact absurd e.symm h.1

theorem lemma_rsplitLast_append (sep : Char) (a sc : List Char) (h : sep ∉ sc) :
    rsplitLast sep (a ++ sep :: sc) = (a, some sc) := by
  induction a with
  | nil => simp [rsplitLast, lemma_rsplitLast_notin sep sc h]
  | cons c cs ih =>
    simp only [List.cons_append]
    unfold rsplitLast
    rw [ih]

end Oslo.Net
