"""Whole-stream specification functions for VHDX and VMDK verdicts (design-time reference).
verdict = (match, complete, vsize|'EXC:..', safety, raised)"""
import struct, uuid
G=lambda s: uuid.UUID(s).bytes_le
MR=G('8B7CA206-4790-4B9A-B8FE-575F050F886E'); VDS=G('2FA54224-CD1B-4876-B211-5DBED83BF4B8')
K64=65536; H=192*1024

def spec_vhdx(s):
    n=len(s)
    match = s[:8]==b'vhdxfile'
    ident_c = n>=32; header_c = n>=H+K64
    raised=None; meta=None; vds=None   # regions: (offset,length,held)
    complete = ident_c and header_c
    vsize=0
    if header_c:
        regi,ck,count,res=struct.unpack('<IIII',s[H:H+16])
        if regi!=0x69676572 or count>=2048:
            raised='ImageFormatError'
        else:
            mo=None
            for i in range(count):
                e=s[H+16+32*i:H+48+32*i]
                if e[:16]==MR: mo=struct.unpack('<Q',e[16:24])[0]; break
            if mo is not None:
                mb=s[mo:mo+K64]   # forward hypothesis: mo>=256K
                meta_c = len(mb)==K64
                if len(mb)>=32:
                    sig,_r,cnt=struct.unpack('<8sHH',mb[:12])
                    # hypothesis: sig == b'metadata' (else N4)
                    es=32+cnt*32
                    found=None
                    if len(mb)>=es:
                        for i in range(cnt):
                            e=mb[32+32*i:64+32*i]
                            if e[:16]==VDS:
                                io_,il,_=struct.unpack('<III',e[16:28]); found=(io_,min(il,K64)); break
                    if found:
                        meta_c=True   # truncated to what is held
                        vo=mo+found[0]; vl=found[1]
                        vd=s[vo:vo+vl]
                        vds_c = len(vd)==vl
                        complete = complete and vds_c
                        if vds_c:
                            vsize = struct.unpack('<Q',vd)[0] if vl==8 else 'EXC:error'
                    else:
                        complete = complete and meta_c
                else:
                    complete = complete and meta_c
    if not complete: safety='EXC:ImageFormatError'
    elif not match: safety='EXC:ImageFormatError'
    else: safety='ok'
    return (match, complete, vsize, safety, raised)

WS=(9,10,11,12,13,28,29,30,31,32)
def pystrip(t):
    w=''.join(map(chr,WS)); return t.strip(w)  # str.strip() on ASCII text
def parse_desc(data):
    i=data.find(b'\0')
    if i>=0: data=data[:i]
    try: text=data.decode('ascii').lower()
    except UnicodeDecodeError: return None
    k=text.find('createtype="')
    if k<0: typ='formatnotfound'
    else:
        a=k+len('createtype="'); b=text.find('"',a)
        typ=text[a:b] if b-a<64 else 'formatnotfound'
    return text,typ
def check_desc(text,typ):
    if not text: return False
    if typ not in ('monolithicsparse','streamoptimized'): return False
    ext=[]
    for line in [x.strip() for x in text.split('\n')]:
        if line.startswith('#') or not line: continue
        elif line.startswith('ddb'): pass
        elif '=' in line and ' ' not in line.split('=')[0]: pass
        elif line.split(' ')[0] in ('rw','rdonly','noaccess'): ext.append(line)
        else: return False
    if any('/' in e for e in ext): return False
    return bool(ext)
def hdr(b): 
    sig,ver,_f,sec,_g,dsec,dnum,_n,_r,gd=struct.unpack('<4sIIQQQQIQQ',b[:64]); return sig,ver,sec,dsec,dnum,gd
def check_footer(s,foot):
    hs,hv,_,hds,hdn,hg=hdr(s); fs,fv,_,fds,fdn,fg=hdr(foot[512:])
    if hs!=fs or hv!=fv or hds!=fds or hdn!=fdn or fg==0xffffffffffffffff: return False
    val,size,typ,zero=struct.unpack('<QII496s',foot[:512])
    if size!=0 or typ!=3 or zero!=bytes(496): return False
    val,size,typ,zero=struct.unpack('<QII496s',foot[-512:])
    if val!=0 or size!=0 or typ!=0 or zero!=bytes(496): return False
    return True
def spec_vmdk(s):
    """under VmdkSparse: len>=64, KDMV, ver in 1..3, footer-length condition"""
    n=len(s); sig,ver,sec,dsec,dnum,gd=hdr(s)
    match=True; raised=None
    footer = gd==0xffffffffffffffff
    if dsec*512!=512:
        # post_process raises after adding the (empty, never fed) footer region
        if footer: return (True, False, 0, 'EXC:ImageFormatError', 'ImageFormatError')
        return (True, True, 0, 'failed:descriptor', 'ImageFormatError')
    dl=min(dnum*512,(1<<20)-1)
    dd=s[512:512+dl]; desc_c=len(dd)==dl
    text=typ=None
    if desc_c:
        p=parse_desc(dd)
        if p: text,typ=p
    foot_c=True; foot=None
    if footer:
        foot=s[-1536:]; foot_c = n>=1599 or False
        if n<1536: foot_c=False
    complete=desc_c and foot_c
    if not text or typ not in ('monolithicsparse','streamoptimized'): vsize=0
    else: vsize=sec*512
    if not complete: safety='EXC:ImageFormatError'
    else:
        fails=[]
        if not check_desc(text,typ): fails.append('descriptor')
        if footer and not check_footer(s,foot): fails.append('footer')
        safety='ok' if not fails else 'failed:'+','.join(sorted(fails))
    return (match,complete,vsize,safety,raised)
