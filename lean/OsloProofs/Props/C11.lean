import OsloModel.Net
namespace Oslo.Net
theorem placeholder_partial : isValidMac [] = false := by decide
end Oslo.Net
