/-
Model of oslo_utils.strutils.split_path (strutils.py:540-586) and
split_by_commas (strutils.py:589-608), over `List Char`.

Part 1  Python's `str.split(sep, maxsplit)` for a one-character separator and
        `maxsplit ≥ 0` (`pySplit`), the unlimited split (`splitAll`) and
        `sep.join` (`joinSep`).  These are the modelled CPython primitives.
Part 2  `splitPath`: line-by-line transcription of split_path.
Part 3  `splitPathSpec`: the declarative reading of DESIGN.md §5-C19 (used only by
        the theorems and, re-stated in Python, by the failing-input search).
Part 4  `splitByCommas`: hand parser for the pyparsing grammar
          word    = QuotedString(quoteChar='"', escChar='\\') | Word(printables, excludeChars='",')
          grammar = stringStart + delimitedList(word) + stringEnd
        as pyparsing 3.x executes it (`parseString` expands tabs first; every element
        skips the default whitespace " \n\t\r" before matching).

Domain: `minsegs : Nat`, `maxsegs : Option Nat` (None or a non-negative int);
negative arguments are outside the model (stated in the evidence).
-/
namespace Oslo.Split

inductive Err
  | valueError
  | indexError      -- `segs[0]` / `segs[maxsegs]` on a too-short list: unreachable, see `split_path_no_indexError`
  | outOfFuel       -- parser fuel exhausted: unreachable, see `split_commas_fuel_sufficient`
  deriving DecidableEq, Repr

/-! ## Part 1 — `str.split(sep, maxsplit)`, `sep.join` -/

/-- put `c` in front of the first piece -/
def consHead (c : Char) : List (List Char) → List (List Char)
  | [] => [[c]]
  | h :: t => (c :: h) :: t

/-- `s.split(sep, maxsplit)` for `maxsplit ≥ 0`: at most `maxsplit` cuts, from the left;
    the empty string gives `['']`. -/
def pySplit (sep : Char) : Nat → List Char → List (List Char)
  | _, [] => [[]]
  | 0, c :: r => [c :: r]
  | n + 1, c :: r =>
    if c = sep then [] :: pySplit sep n r else consHead c (pySplit sep (n + 1) r)

/-- `s.split(sep)` (no limit) -/
def splitAll (sep : Char) : List Char → List (List Char)
  | [] => [[]]
  | c :: r => if c = sep then [] :: splitAll sep r else consHead c (splitAll sep r)

/-- `sep.join(pieces)` -/
def joinSep (sep : Char) : List (List Char) → List Char
  | [] => []
  | [a] => a
  | a :: b :: r => a ++ sep :: joinSep sep (b :: r)

/-! ## Part 2 — split_path as coded -/

abbrev Seg := Option (List Char)      -- `None` or a string

/-- Python slice `l[a:b]` for `0 ≤ a`, `0 ≤ b` -/
def slice {α} (l : List α) (a b : Nat) : List α := (l.take b).drop a

/-- lines 584-586: `segs = segs[1:maxsegs]; segs.extend([None] * (maxsegs - 1 - len(segs)))`
    (`[None] * k` is `[]` for `k ≤ 0`, which is what truncated subtraction gives). -/
def finish (segs : List (List Char)) (maxsegs : Nat) : List Seg :=
  let segs := slice segs 1 maxsegs
  segs.map some ++ List.replicate (maxsegs - 1 - segs.length) none

/-- `if not maxsegs: maxsegs = minsegs` (line 562): `None` and `0` are falsy -/
def effMax (minsegs : Nat) : Option Nat → Nat
  | none => minsegs
  | some 0 => minsegs
  | some (k + 1) => k + 1

def splitPath (path : List Char) (minsegs : Nat) (maxsegs : Option Nat) (restWithLast : Bool) :
    Except Err (List Seg) :=
  let maxsegs := effMax minsegs maxsegs
  if minsegs > maxsegs then .error .valueError                     -- 564
  else if restWithLast then
    let segs := pySplit '/' maxsegs path                           -- 568
    let minsegs := minsegs + 1
    let maxsegs := maxsegs + 1
    let count := segs.length
    match segs.head? with                                          -- segs[0]
    | none => .error .indexError
    | some s0 =>
      if s0 ≠ [] ∨ count < minsegs ∨ count > maxsegs ∨ [] ∈ slice segs 1 minsegs then   -- 572-573
        .error .valueError
      else .ok (finish segs maxsegs)
  else
    let minsegs := minsegs + 1
    let maxsegs := maxsegs + 1
    let segs := pySplit '/' maxsegs path                           -- 578
    let count := segs.length
    match segs.head? with
    | none => .error .indexError
    | some s0 =>
      if s0 ≠ [] ∨ count < minsegs ∨ count > maxsegs + 1 ∨ [] ∈ slice segs 1 minsegs then  -- 580-581
        .error .valueError
      else if count = maxsegs + 1 then                             -- 582: `and segs[maxsegs]`
        match segs[maxsegs]? with
        | none => .error .indexError
        | some last => if last ≠ [] then .error .valueError else .ok (finish segs maxsegs)
      else .ok (finish segs maxsegs)

/-! ## Part 3 — declarative specification (DESIGN.md §5-C19) -/

/-- The segments that count, given all `/`-separated segments after the leading slash:
    with `rest_with_last` everything from segment `m` on is folded into segment `m`;
    without it one empty trailing segment at position `m+1` is dropped and anything
    longer is rejected (`none`). -/
def specSegs (all : List (List Char)) (m : Nat) (restWithLast : Bool) : Option (List (List Char)) :=
  if restWithLast then
    if all.length > m then some (all.take (m - 1) ++ [joinSep '/' (all.drop (m - 1))])
    else some all
  else
    if all.length ≤ m then some all
    else if all.length = m + 1 ∧ all.getLast? = some [] then some (all.take m)
    else none

def splitPathSpec (path : List Char) (minsegs : Nat) (maxsegs : Option Nat) (restWithLast : Bool) :
    Except Err (List Seg) :=
  let m := effMax minsegs maxsegs
  if minsegs > m then .error .valueError
  else match path with
    | [] => .error .valueError
    | c :: rest =>
      if c = '/' then
        match specSegs (splitAll '/' rest) m restWithLast with
        | none => .error .valueError
        | some segs =>
          if segs.length < minsegs ∨ [] ∈ segs.take minsegs then .error .valueError
          else .ok (segs.map some ++ List.replicate (m - segs.length) none)
      else .error .valueError

/-! ## Part 4 — split_by_commas -/

/-- `str.expandtabs()` (tab size 8; the column restarts after `\n` and `\r`), applied by
    `ParserElement.parse_string` before parsing because `keepTabs` is off. -/
def expandTabs : Nat → List Char → List Char
  | _, [] => []
  | col, c :: r =>
    if c = '\t' then List.replicate (8 - col % 8) ' ' ++ expandTabs (col + (8 - col % 8)) r
    else if c = '\n' ∨ c = '\r' then c :: expandTabs 0 r
    else c :: expandTabs (col + 1) r

/-- pyparsing `DEFAULT_WHITE_CHARS` -/
def isWs (c : Char) : Bool := c = ' ' || c = '\n' || c = '\t' || c = '\r'

/-- `Word(printables, excludeChars='",')`, i.e. the regex `[!#-+\--~]+` -/
def isWordChar (c : Char) : Bool :=
  0x21 ≤ c.toNat && c.toNat ≤ 0x7e && c != '"' && c != ','

def skipWs : List Char → List Char
  | [] => []
  | c :: r => if isWs c then skipWs r else c :: r

/-- longest prefix of word characters, and the rest -/
def spanWord : List Char → List Char × List Char
  | [] => ([], [])
  | c :: r =>
    if isWordChar c then ((c :: (spanWord r).1), (spanWord r).2) else ([], c :: r)

def scanWord (s : List Char) : Option (List Char × List Char) :=
  match spanWord s with
  | ([], _) => none
  | (w, rest) => some (w, rest)

/-- After the opening quote: the regex `(?:(?:\\.)|(?:[^"\n\r\\]))*"` (no DOTALL, so `.`
    is anything but `\n`).  Returns the raw text between the quotes and what follows the
    closing quote.  The alternatives start with different characters, so there is nothing
    to backtrack over. -/
def scanQuoted : List Char → Option (List Char × List Char)
  | [] => none
  | [c] => if c = '"' then some ([], []) else none      -- a lone `\` or an unterminated body
  | c :: e :: r =>
    if c = '"' then some ([], e :: r)
    else if c = '\\' then
      if e = '\n' then none
      else match scanQuoted r with
        | none => none
        | some (b, rest) => some (c :: e :: b, rest)
    else if c = '\n' ∨ c = '\r' then none
    else match scanQuoted (e :: r) with
      | none => none
      | some (b, rest) => some (c :: b, rest)

def isOct (c : Char) : Bool := '0' ≤ c && c ≤ '7'
def isHex (c : Char) : Bool := ('0' ≤ c && c ≤ '9') || ('a' ≤ c && c ≤ 'f') || ('A' ≤ c && c ≤ 'F')
def hexDigit (c : Char) : Nat :=
  if c ≤ '9' then c.toNat - 48 else if c ≤ 'F' then c.toNat - 55 else c.toNat - 87

/-- `QuotedString.parseImpl` un-quoting with `convert_whitespace_escapes`, i.e. one pass of
    `(\\t|\\n|\\f|\\r)|(\\[0-7]3|\\0|\\x[0-9a-fA-F]2|\\u[0-9a-fA-F]4)|(\\.)|(\n|.)`
    (the installed pyparsing builds this pattern with an f-string, so its `{3}`, `{2}`, `{4}`
    repetition counts have become the literal characters 3, 2, 4 — reproduced as it is):
    group 1 ↦ the control character; group 2 ↦ `_convert_escaped_numerics_to_char`
    (`\0` ↦ NUL, `\xH2` / `\uH4` ↦ chr(0xH2) / chr(0xH4), `\D3` ↦ the two characters `D3`);
    group 3 ↦ the escaped character; group 4 ↦ the character. -/
def unquote : List Char → List Char
  | [] => []
  | [c] => [c]
  | c :: e :: r =>
    if c ≠ '\\' then c :: unquote (e :: r)
    else if e = 't' then '\t' :: unquote r
    else if e = 'n' then '\n' :: unquote r
    else if e = 'f' then '\x0c' :: unquote r
    else if e = 'r' then '\r' :: unquote r
    else if e = '\n' then c :: unquote (e :: r)     -- `\\.` cannot match; group 4 takes the `\`
    else
      have u := unquote r                            -- continuation after a two-character escape
      match r with
      | [] => if e = '0' then ['\x00'] else [e]
      | k :: r1 =>
        if isOct e ∧ k = '3' then e :: k :: unquote r1
        else if e = '0' then '\x00' :: u
        else if (e = 'x' ∨ e = 'u') ∧ isHex k then
          match r1 with
          | [] => e :: u
          | d :: r2 =>
            if (e = 'x' ∧ d = '2') ∨ (e = 'u' ∧ d = '4') then
              Char.ofNat (hexDigit k * 16 + hexDigit d) :: unquote r2
            else e :: u
        else e :: u

/-- `QuotedString | Word` at a position where whitespace has been skipped.  If the text
    starts with `"` and the quoted-string regex fails, `Word` fails too (`"` is excluded). -/
def parseItem (s : List Char) : Option (List Char × List Char) :=
  match s with
  | [] => none
  | c :: r =>
    if c = '"' then
      match scanQuoted r with
      | none => none
      | some (raw, rest) => some (unquote raw, rest)
    else scanWord (c :: r)

/-- `delimitedList(word) + stringEnd` from an item position: `word (',' word)*` with
    whitespace skipped before every element, then only whitespace up to the end.
    (`ZeroOrMore(',' + word)` stops, without consuming, at the first repetition that
    fails; `stringEnd` then fails unless only whitespace is left — so any failure after a
    comma, and any other character after an item, is an overall failure.) -/
def parseItems : Nat → List Char → Except Err (List (List Char))
  | 0, _ => .error .outOfFuel
  | fuel + 1, s =>
    match parseItem (skipWs s) with
    | none => .error .valueError
    | some (item, rest) =>
      match skipWs rest with
      | [] => .ok [item]
      | c :: r =>
        if c = ',' then
          match parseItems fuel r with
          | .ok l => .ok (item :: l)
          | .error e => .error e
        else .error .valueError

/-- the grammar on an already tab-expanded string -/
def parseAll (s : List Char) : Except Err (List (List Char)) := parseItems (s.length + 1) s

/-- `split_by_commas(value)`: `ParseException` ↦ `ValueError` (lines 606-608) -/
def splitByCommas (value : List Char) : Except Err (List (List Char)) :=
  parseAll (expandTabs 0 value)

/-! ### the encoder the round trip is stated for -/

/-- backslash-escape `"` and `\` -/
def escape : List Char → List Char
  | [] => []
  | c :: r => if c = '"' ∨ c = '\\' then '\\' :: c :: escape r else c :: escape r

def quote (item : List Char) : List Char := '"' :: (escape item ++ ['"'])

/-- an item must be quoted when it is empty or contains anything but word characters
    (comma, quote, space, control or non-ASCII characters); the property statement also
    quotes items containing a backslash -/
def needsQuote (item : List Char) : Bool :=
  item.isEmpty || item.any (fun c => !isWordChar c || c == '\\')

def quoteIfNeeded (item : List Char) : List Char :=
  if needsQuote item then quote item else item

end Oslo.Split
