/-
C15 — EUI-64, host:port and URL helpers round-trip (oslo_utils.netutils).

Property theorems only; helper facts are `lemma_…` (here, or in
OsloProofs/Lemmas/C15Arith.lean and C15Text.lean).  The models are
OsloModel/Eui64.lean and OsloModel/HostPort.lean.

Quantifiers: every 48-bit MAC, every network address (the integer
`netaddr.IPNetwork(prefix).first`), every host of the three classes below, every
string of port digits, every default port, every `parse_qsl` result, every
five-tuple the standard library's `urlsplit` may return.
-/
import OsloModel.Eui64
import OsloModel.HostPort
import OsloProofs.Lemmas.C15Arith
import OsloProofs.Lemmas.C15Text
namespace Oslo.C15
open Oslo.Eui64 Oslo.HostPort

deriving instance DecidableEq for Except

/-! ## EUI-64 -/

/-- for a 48-bit MAC and a network address with zero low 64 bits the computed integer is in the
    IPv6 range of `netaddr.IPAddress(int)` (never the IPv4 or the out-of-range outcome) -/
theorem lemma_combine_range (net mac : Nat) (hmac : mac < 2^48) (hnet : net % 2^64 = 0)
    (hlt : net < 2^128) :
    2^32 ≤ combine net (eui64Of48 mac) ∧ combine net (eui64Of48 mac) < 2^128 := by
  rw [lemma_combine_arith net mac hmac hnet]
  have hf := lemma_flip17_lt (mac / 2^24) (by omega)
  omega

/-- **Round trip.**  For every 48-bit MAC and every IPv6 network address whose low 64 bits are
    zero (every prefix of length ≤ 64; host bits of the prefix text never reach the model because
    the code uses `prefix.first`), get_ipv6_addr_by_EUI64 returns an IPv6 address and
    get_mac_addr_by_ipv6 recovers the MAC from it. -/
theorem mac_of_eui64_addr (net mac : Nat) (hmac : mac < 2^48) (hnet : net % 2^64 = 0)
    (hlt : net < 2^128) :
    ∃ a, addrByEUI64 (.net net) (.eui48 mac) = .ok (.v6 a) ∧ macOf (.v6 a) = .ok mac := by
  refine ⟨combine net (eui64Of48 mac), ?_, ?_⟩
  · have ⟨h1, h2⟩ := lemma_combine_range net mac hmac hnet hlt
    simp only [addrByEUI64, eui64Value, ipAddressOfInt]
    rw [if_neg (by omega), if_pos h2]
  · simp only [macOf]; rw [lemma_macOfNat_combine net mac hmac hnet]

example : (0x00163e334455 : Nat) < 2^48 ∧ (0x20010db8 <<< 96 : Nat) % 2^64 = 0 ∧
    (0x20010db8 <<< 96 : Nat) < 2^128 := by decide
/-- 2001:db8::/64 + 00:16:3e:33:44:55 = 2001:db8::216:3eff:fe33:4455, and back -/
example : addrByEUI64 (.net (0x20010db8 <<< 96)) (.eui48 0x00163e334455)
    = .ok (.v6 0x20010db80000000002163efffe334455) ∧
    macOf (.v6 0x20010db80000000002163efffe334455) = .ok 0x00163e334455 := by decide

/-- **Injectivity.**  Within one network (low 64 bits zero) two different 48-bit MACs never get the same
    address: if the addresses agree, so do the MACs (a consequence of the round trip) -/
theorem eui64_injective (net mac mac' : Nat) (hmac : mac < 2^48) (hmac' : mac' < 2^48)
    (hnet : net % 2^64 = 0) (hlt : net < 2^128)
    (h : addrByEUI64 (.net net) (.eui48 mac) = addrByEUI64 (.net net) (.eui48 mac')) : mac = mac' := by
  obtain ⟨a, ha, hm⟩ := mac_of_eui64_addr net mac hmac hnet hlt
  obtain ⟨a', ha', hm'⟩ := mac_of_eui64_addr net mac' hmac' hnet hlt
  rw [ha, ha'] at h
  have haa : a = a' := by injection h with h; injection h
  subst haa
  rw [hm] at hm'
  injection hm'

/-- the address is a function of the network and the MAC only (two calls agree), and it always succeeds on
    this domain: never an error for a 48-bit MAC and a ≤ /64 IPv6 network -/
theorem eui64_total_on_domain (net mac : Nat) (hmac : mac < 2^48) (hnet : net % 2^64 = 0) (hlt : net < 2^128) :
    ∃ a, addrByEUI64 (.net net) (.eui48 mac) = .ok (.v6 a) ∧ a / 2^64 = net / 2^64 := by
  obtain ⟨h1, h2⟩ := lemma_combine_range net mac hmac hnet hlt
  refine ⟨combine net (eui64Of48 mac), ?_, ?_⟩
  · simp only [addrByEUI64, eui64Value, ipAddressOfInt]
    rw [if_neg (by omega), if_pos h2]
  · rw [lemma_combine_arith net mac hmac hnet]
    have hf := lemma_flip17_lt (mac / 2^24) (by omega)
    omega

/-- The zero-low-64-bits hypothesis is needed: for the /128 "prefix" ::1 and the MAC
    00:00:00:00:00:00 the code adds the interface identifier onto the host part and the MAC that
    comes back is 00:00:00:00:00:01 (the real code returns ::200:ff:fe00:1 for `('::1', 0)`). -/
theorem mac_not_recovered_when_low64_nonzero :
    ∃ net mac a, mac < 2^48 ∧ net < 2^128 ∧ addrByEUI64 (.net net) (.eui48 mac) = .ok (.v6 a) ∧
      macOf (.v6 a) ≠ .ok mac :=
  ⟨1, 0, 0x020000fffe000001, by decide⟩

/-- **Layout.**  With `a` the produced address: the upper 64 bits are the network address; the
    interface identifier is [MAC octets 0-2 with bit 0x02 of octet 0 inverted] ff fe [MAC octets 3-5].
    In bit positions of the 128-bit address (bit 0 = least significant): bits 24..39 are 0xfffe,
    bits 0..23 are MAC bits 0..23, bits 40..63 are MAC bits 24..47 except that bit 57 (the
    universal/local bit, MAC bit 41) is inverted. -/
theorem eui64_layout (net mac : Nat) (hmac : mac < 2^48) (hnet : net % 2^64 = 0) :
    let a := combine net (eui64Of48 mac)
    a / 2^64 = net / 2^64 ∧
    a / 2^40 % 2^24 = (mac / 2^24) ^^^ 0x020000 ∧
    a / 2^24 % 2^16 = 0xFFFE ∧
    a % 2^24 = mac % 2^24 ∧
    a.testBit 57 = !mac.testBit 41 ∧
    (∀ i, i < 24 → i ≠ 17 → a.testBit (40 + i) = mac.testBit (24 + i)) := by
  intro a
  have ha : a = net + (flip17 (mac / 2^24) * 2^40 + 0xFFFE000000 + mac % 2^24) :=
    lemma_combine_arith net mac hmac hnet
  have hf := lemma_flip17_lt (mac / 2^24) (by omega)
  have hmid : a / 2^40 % 2^24 = (mac / 2^24) ^^^ 2^17 := by
    rw [← lemma_flip17_eq_xor, ha]
    exact lemma_mid _ (net / 2^64) _ (0xFFFE000000 + mac % 2^24) (by omega) hf (by omega)
  have hbits : ∀ i, i < 24 → a.testBit (40 + i) = (mac.testBit (24 + i) ^^ decide (17 = i)) := by
    intro i hi
    have : a.testBit (40 + i) = (a / 2^40 % 2^24).testBit i := by
      rw [Nat.testBit_mod_two_pow, Nat.testBit_div_two_pow]; simp [hi, Nat.add_comm]
    rw [this, hmid, Nat.testBit_xor, Nat.testBit_div_two_pow, Nat.testBit_two_pow, Nat.add_comm]
  refine ⟨by omega, hmid, by omega, by omega, ?_, ?_⟩
  · have := hbits 17 (by decide); simpa using this
  · intro i hi hne
    have := hbits i hi
    have h17 : decide (17 = i) = false := by simp; omega
    rw [this, h17]; simp

/-- the value get_mac_addr_by_ipv6 hands to `netaddr.EUI(int)` is always a 48-bit number, for any
    address whatsoever: `EUI()` never raises there and always yields an EUI-48 -/
theorem macOfNat_lt (a : Nat) : macOfNat a < 2^48 := by
  rw [lemma_macOfNat_arith, lemma_xor_two_pow]
  have h1 : a / 2^40 % 2^24 < 2^24 := Nat.mod_lt _ (by decide)
  have h2 : a % 2^24 < 2^24 := Nat.mod_lt _ (by decide)
  generalize a / 2^40 % 2^24 = H at *
  generalize a % 2^24 = L at *
  split
  · next hb =>
    have : H < 2^23 ∨ (2^23 ≤ H) := by omega
    have hbit := lemma_bit41 (H * 2^24 + L) (H / 2^18) (H / 2^17 % 2) (2^24 * (H % 2^17) + L)
      (by omega) (by omega) (by omega)
    rw [hbit] at hb
    omega
  · omega

/-- an IPv4 address given as prefix raises ValueError, whatever the MAC argument is -/
theorem eui64_rejects_ipv4_prefix (m : MacIn) :
    addrByEUI64 .ipv4Addr m = .error .valueError := rfl

/-- **Error contract.**  A prefix that is not a string, is an IPv4 address or cannot be parsed, or a
    MAC that `netaddr.EUI` rejects, always ends in an error; and whatever the inputs, the only
    errors are ValueError and TypeError (AddrFormatError never escapes). -/
theorem eui64_error_contract (p : PrefixIn) (m : MacIn) :
    ((p = .notStr ∨ p = .ipv4Addr ∨ p = .malformed ∨ m = .wrongType ∨ m = .malformed) →
      ∃ e, addrByEUI64 p m = .error e) ∧
    (∀ e, addrByEUI64 p m = .error e → e = .valueError ∨ e = .typeError) := by
  constructor
  · intro h
    cases p <;> cases m <;> simp_all [addrByEUI64, eui64Value]
  · intro e h
    cases p <;> cases m <;> simp_all [addrByEUI64, eui64Value] <;>
      (split at h <;> simp_all)

example : addrByEUI64 .notStr (.eui48 5) = .error .typeError ∧
    addrByEUI64 (.net 0) .malformed = .error .valueError ∧
    addrByEUI64 (.net (2^128 - 1)) (.eui48 1) = .error .valueError := by decide

/-! ## host:port -/

/-- a host name (or anything else) without ':' that does not start with '[' -/
def isName (h : List Char) : Bool := !h.contains ':' && h.head? != some '['

/-- dotted-quad IPv4 text, as accepted by inet_pton(AF_INET) -/
def isIPv4Text (h : List Char) : Bool := pton4 h

/-- IPv6 text as accepted by inet_pton(AF_INET6), optionally followed by `%scope` where the scope
    has 1..15 characters, none of them ']' (nor '%': the split is at the last '%') -/
def isIPv6Host (h : List Char) : Bool :=
  match rsplit1 '%' h with
  | (a, none) => pton6 a
  | (a, some sc) => pton6 a && decide (1 ≤ sc.length) && decide (sc.length ≤ 15) && !sc.contains ']'

/-- port text: a non-empty string of ASCII digits (at most `sys.get_int_max_str_digits()` of them) -/
def isPortDigits (ds : List Char) : Bool :=
  !ds.isEmpty && ds.all isDigit && decide (ds.length ≤ maxStrDigits)

theorem lemma_portDigits (ds : List Char) (h : isPortDigits ds = true) :
    ds ≠ [] ∧ (∀ c ∈ ds, isDigit c = true) ∧ ds.length ≤ maxStrDigits ∧ ':' ∉ ds ∧ ']' ∉ ds := by
  simp [isPortDigits] at h
  obtain ⟨⟨h1, h2⟩, h3⟩ := h
  refine ⟨h1, h2, h3, ?_, ?_⟩
  · intro hc; have := h2 _ hc; revert this; decide
  · intro hc; have := h2 _ hc; revert this; decide

/-- dotted quads are names in the sense above -/
theorem lemma_ipv4_isName (h : List Char) (h4 : isIPv4Text h = true) : isName h = true := by
  have hall := lemma_pton4_chars h h4
  have h1 : ':' ∉ h := by
    intro hc; rcases hall _ hc with hd | hd
    · revert hd; decide
    · exact absurd hd (by decide)
  have h2 : h.head? ≠ some '[' := by
    intro hh
    have hm : '[' ∈ h := List.mem_of_head? hh
    rcases hall _ hm with hd | hd
    · revert hd; decide
    · exact absurd hd (by decide)
  simp [isName, h1, h2]

theorem lemma_okV6Char_ne (c : Char) (h : okV6Char c) : c ≠ ']' ∧ c ≠ '%' ∧ c ≠ '[' := by
  refine ⟨?_, ?_, ?_⟩ <;> (intro e; subst e; rcases h with h | h | h <;> revert h <;> decide)

/-- the IPv6 host class is escaped, and contains no ']' -/
theorem lemma_ipv6Host (h : List Char) (h6 : isIPv6Host h = true) :
    isValidIPv6 h = true ∧ ']' ∉ h := by
  unfold isIPv6Host at h6
  rcases hr : rsplit1 '%' h with ⟨a, _ | sc⟩
  · rw [hr] at h6; simp only at h6
    have ⟨e, _⟩ := (lemma_rsplit1_spec '%' h).2 a hr
    subst e
    have hch := lemma_pton6_chars h h6
    have hne : h ≠ [] := by intro e; subst e; simp [pton6] at h6
    refine ⟨by simp [isValidIPv6, hne, hr, h6], fun hc => (lemma_okV6Char_ne _ (hch _ hc)).1 rfl⟩
  · rw [hr] at h6; simp at h6
    obtain ⟨⟨⟨hp, hl1⟩, hl2⟩, hsc⟩ := h6
    have ⟨e, _⟩ := (lemma_rsplit1_spec '%' h).1 a sc hr
    have hch := lemma_pton6_chars a hp
    have hne : h ≠ [] := by rw [e]; simp
    refine ⟨?_, ?_⟩
    · have hl : ¬ (sc.length < 1 ∨ sc.length > 15) := by omega
      simp [isValidIPv6, hne, hr, hp]
      exact ⟨fun e => by simp [e] at hl1, hl2⟩
    · rw [e]; intro hc
      rcases List.mem_append.mp hc with hc | hc
      · exact (lemma_okV6Char_ne _ (hch _ hc)).1 rfl
      · rcases List.mem_cons.mp hc with hc | hc
        · exact absurd hc (by decide)
        · exact hsc hc

/-- parse_host_port on a non-empty address that does not start with '[' -/
theorem lemma_php_unbracketed (a : List Char) (d : DefPort) (hne : a ≠ [])
    (hh : a.head? ≠ some '[') : parseHostPort (some a) d = parseUnbracketed a d := by
  cases a with
  | nil => exact absurd rfl hne
  | cons c rest =>
    have hc : c ≠ '[' := by intro e; subst e; simp at hh
    simp [parseHostPort, hc]

theorem lemma_convPort_digits (d : DefPort) (ds : List Char) (h : isPortDigits ds = true) :
    convPort d (.text ds) = .ok (some (decVal ds : Int)) := by
  obtain ⟨h1, h2, h3, _, _⟩ := lemma_portDigits ds h
  simp [convPort, lemma_pyInt_digits ds h1 h2 h3, Except.map]

/-- **Round trip.**  For every host that is a name without ':' (not starting with '['), a dotted
    quad, or IPv6 text with an optional scope free of ']', every string of port digits and every
    default port: `parse_host_port(escape_ipv6(host) + ':' + port)` is `(host, int(port))`. -/
theorem hostport_roundtrip (h ds : List Char) (d : DefPort)
    (hh : isName h = true ∨ isIPv4Text h = true ∨ isIPv6Host h = true)
    (hp : isPortDigits ds = true) :
    parseHostPort (some (escapeIPv6 h ++ ':' :: ds)) d = .ok (some h, some (decVal ds : Int)) := by
  obtain ⟨_, _, _, hcolon, hbr⟩ := lemma_portDigits ds hp
  have hconv := lemma_convPort_digits d ds hp
  rcases hh with hn | h4 | h6
  · -- names
    simp [isName] at hn
    obtain ⟨hno, hhead⟩ := hn
    have hesc : escapeIPv6 h = h := by simp [escapeIPv6, lemma_isValidIPv6_no_colon h hno]
    rw [hesc, lemma_php_unbracketed _ d (by simp)]
    · have hcount : (h ++ ':' :: ds).count ':' = 1 := by
        rw [List.count_append, List.count_cons_self, List.count_eq_zero.mpr hno,
          List.count_eq_zero.mpr hcolon]
      unfold parseUnbracketed
      rw [if_pos hcount, lemma_splitOn_append ':' h ds hno, lemma_splitOn_no_sep ':' ds hcolon]
      simp [hconv, Except.map]
    · cases h with
      | nil => simp
      | cons c cs => simpa using hhead
  · -- dotted quads are names
    have hn := lemma_ipv4_isName h h4
    simp [isName] at hn
    obtain ⟨hno, hhead⟩ := hn
    have hesc : escapeIPv6 h = h := by simp [escapeIPv6, lemma_isValidIPv6_no_colon h hno]
    rw [hesc, lemma_php_unbracketed _ d (by simp)]
    · have hcount : (h ++ ':' :: ds).count ':' = 1 := by
        rw [List.count_append, List.count_cons_self, List.count_eq_zero.mpr hno,
          List.count_eq_zero.mpr hcolon]
      unfold parseUnbracketed
      rw [if_pos hcount, lemma_splitOn_append ':' h ds hno, lemma_splitOn_no_sep ':' ds hcolon]
      simp [hconv, Except.map]
    · cases h with
      | nil => simp
      | cons c cs => simpa using hhead
  · -- IPv6 text: escaped in brackets
    obtain ⟨hv, hnb⟩ := lemma_ipv6Host h h6
    have hesc : escapeIPv6 h ++ ':' :: ds = '[' :: (h ++ ']' :: ':' :: ds) := by
      simp [escapeIPv6, hv]
    have hnb2 : ']' ∉ (':' :: ds) := by
      intro hc; rcases List.mem_cons.mp hc with e | e
      · exact absurd e (by decide)
      · exact hbr e
    rw [hesc]
    simp only [parseHostPort, if_true, parseBracketed]
    rw [lemma_splitOn_append ']' h (':' :: ds) hnb, lemma_splitOn_no_sep ']' _ hnb2]
    have hs : splitOn ':' (':' :: ds) = [[], ds] := by
      have := lemma_splitOn_append ':' [] ds (by simp)
      simpa [lemma_splitOn_no_sep ':' ds hcolon] using this
    simp [hs, hconv, Except.map]

-- non-vacuity: one host of each class, with a port
example : isName "server01".toList = true ∧ isIPv4Text "192.168.1.10".toList = true ∧
    isIPv6Host "2001:db8::1".toList = true ∧ isIPv6Host "fe80::1%eth0".toList = true ∧
    isIPv6Host "::ffff:1.2.3.4".toList = true ∧ isPortDigits "65535".toList = true ∧
    decVal "65535".toList = 65535 := by decide
example : escapeIPv6 "fe80::1%eth0".toList = "[fe80::1%eth0]".toList ∧
    parseHostPort (some "[fe80::1%eth0]:8080".toList) .none
      = .ok (some "fe80::1%eth0".toList, some 8080) := by decide

-- zone ids that look like percent-escapes are ordinary members of the class: nothing is decoded
example : isIPv6Host "fe80::1%25".toList = true ∧ isIPv6Host "fe80::1%251".toList = true ∧
    isIPv6Host "fe80::1%3A80".toList = true ∧
    parseHostPort (some (escapeIPv6 "fe80::1%25".toList ++ ":80".toList)) .none
      = .ok (some "fe80::1%25".toList, some 80) ∧
    parseHostPort (some (escapeIPv6 "fe80::1%251".toList)) .none
      = .ok (some "fe80::1%251".toList, none) := by decide

/-- The restriction on the scope is needed: `escape_ipv6` accepts a scope containing ']' (any
    1..15 characters pass `is_valid_ipv6`), and `parse_host_port` then fails to unpack. -/
theorem hostport_scope_with_bracket_fails :
    isValidIPv6 "fe80::1%]".toList = true ∧
    parseHostPort (some (escapeIPv6 "fe80::1%]".toList ++ ":80".toList)) .none
      = .error .valueError := by decide

/-- `int(default_port)`, or `None` -/
def defaultValue : DefPort → Except HostPort.Err (Option Int)
  | .none => .ok none
  | .int n => .ok (some n)
  | .str s => (pyInt s).map some

/-- **Missing port.**  For every non-empty host of the three classes, `parse_host_port(escape_ipv6(host),
    default_port)` is `(host, default_port)` (converted with `int()` when it is not `None`). -/
theorem hostport_default (h : List Char) (d : DefPort) (hne : h ≠ [])
    (hh : isName h = true ∨ isIPv4Text h = true ∨ isIPv6Host h = true) :
    parseHostPort (some (escapeIPv6 h)) d = (defaultValue d).map (fun q => (some h, q)) := by
  have hdf : convPort d .dflt = defaultValue d := by cases d <;> rfl
  have name_case : ∀ h : List Char, h ≠ [] → isName h = true →
      parseHostPort (some (escapeIPv6 h)) d = (defaultValue d).map (fun q => (some h, q)) := by
    intro h hne hn
    simp [isName] at hn
    obtain ⟨hno, hhead⟩ := hn
    have hesc : escapeIPv6 h = h := by simp [escapeIPv6, lemma_isValidIPv6_no_colon h hno]
    rw [hesc, lemma_php_unbracketed h d hne (by cases h <;> simp_all)]
    unfold parseUnbracketed
    rw [if_neg (by rw [List.count_eq_zero.mpr hno]; decide), hdf]
  rcases hh with hn | h4 | h6
  · exact name_case h hne hn
  · exact name_case h hne (lemma_ipv4_isName h h4)
  · obtain ⟨hv, hnb⟩ := lemma_ipv6Host h h6
    have hesc : escapeIPv6 h = '[' :: (h ++ ']' :: []) := by simp [escapeIPv6, hv]
    rw [hesc]
    simp only [parseHostPort, if_true, parseBracketed]
    rw [lemma_splitOn_append ']' h [] hnb]
    simp [splitOn, hdf]

example : parseHostPort (some (escapeIPv6 "::1".toList)) (.int 1234)
    = .ok (some "::1".toList, some 1234) := by decide

/-- A bare (unescaped) IPv6 text is taken whole as the host and gets the default port — the
    docstring's `parse_host_port('2001:db8:85a3::8a2e:370:7334', default_port=1234)` — because an
    accepted IPv6 text never contains exactly one ':'. -/
theorem hostport_default_unescaped_v6 (a : List Char) (d : DefPort) (h6 : pton6 a = true) :
    parseHostPort (some a) d = (defaultValue d).map (fun q => (some a, q)) := by
  have hdf : convPort d .dflt = defaultValue d := by cases d <;> rfl
  have hne : a ≠ [] := by intro e; subst e; simp [pton6] at h6
  have hhead : a.head? ≠ some '[' := by
    intro hh
    exact (lemma_okV6Char_ne _ (lemma_pton6_chars a h6 _ (List.mem_of_head? hh))).2.2 rfl
  rw [lemma_php_unbracketed a d hne hhead]
  unfold parseUnbracketed
  rw [if_neg (lemma_pton6_count_ne_one a h6), hdf]

example : pton6 "2001:db8:85a3::8a2e:370:7334".toList = true := by decide

/-- `None` or the empty string give `(None, None)` whatever the default port -/
theorem hostport_empty (d : DefPort) :
    parseHostPort none d = .ok (none, none) ∧ parseHostPort (some []) d = .ok (none, none) :=
  ⟨rfl, rfl⟩

theorem lemma_pyInt_no_indexError (s : List Char) : pyInt s ≠ .error .indexError := by
  unfold pyInt
  split
  · simp
  · simp only
    split
    · simp
    · split <;> simp

theorem lemma_convPort_no_indexError (d : DefPort) (p : PortSrc) :
    convPort d p ≠ .error .indexError := by
  cases p with
  | text s =>
    have := lemma_pyInt_no_indexError s
    simp only [convPort]
    cases h : pyInt s <;> simp_all [Except.map]
  | dflt =>
    cases d with
    | none => simp [convPort]
    | int n => simp [convPort]
    | str s =>
      have := lemma_pyInt_no_indexError s
      simp only [convPort]
      cases h : pyInt s <;> simp_all [Except.map]

/-- the model's IndexError outcome (`_port.split(':')[1]` out of range) cannot happen: the code
    only indexes after checking `':' in _port` -/
theorem hostport_no_indexError (address : Option (List Char)) (d : DefPort) :
    parseHostPort address d ≠ .error .indexError := by
  have hmap : ∀ (p : PortSrc) (f : Option Int → Option (List Char) × Option Int),
      (convPort d p).map f ≠ .error .indexError := by
    intro p f
    have := lemma_convPort_no_indexError d p
    cases h : convPort d p <;> simp_all [Except.map]
  unfold parseHostPort
  split
  · simp
  · simp
  · split
    · unfold parseBracketed
      split
      · split
        · next host port _ hin =>
          obtain ⟨a, b, rest, e⟩ := lemma_splitOn_two ':' port hin
          rw [e]; exact hmap _ _
        · exact hmap _ _
      · simp
    · unfold parseUnbracketed
      split
      · split
        · exact hmap _ _
        · simp
      · exact hmap _ _

/-! ## urlsplit wrapper and params() -/

/-- **Agreement with the standard library.**  On any five-tuple in which the path contains no '?'
    and, when fragments are allowed, no '#' — which is what `urllib.parse.urlsplit` returns — the
    wrapper's two fix-ups change nothing: netutils.urlsplit returns the library's components.
    (`urlsplit` itself is a parameter: that it satisfies the hypotheses is checked against the real
    library on every generated URL, not proved.) -/
theorem urlsplit_agrees (af : Bool) (r : Split5)
    (hq : '?' ∉ r.path) (hf : af = true → '#' ∉ r.path) : urlsplitFix af r = r := by
  unfold urlsplitFix
  cases af
  · simp [hq]
  · simp [hq, hf rfl]

example : ('?' ∉ "/a/b".toList) ∧ ('#' ∉ "/a/b".toList) := by decide

theorem lemma_takeWhile_no_sep (sep : Char) (s : List Char) : sep ∉ s.takeWhile (· ≠ sep) := by
  intro h
  have hall := @List.all_takeWhile _ (· ≠ sep) s
  rw [List.all_eq_true] at hall
  simpa using hall _ h

/-- whatever five-tuple the library hands over, after the fix-ups the path is free of '?', and of
    '#' when fragments are allowed -/
theorem urlsplit_fix_postcondition (af : Bool) (r : Split5) :
    '?' ∉ (urlsplitFix af r).path ∧ (af = true → '#' ∉ (urlsplitFix af r).path) := by
  unfold urlsplitFix
  by_cases h1 : (af && r.path.contains '#') = true
  · simp only [h1, if_true]
    have hno : '#' ∉ (split1 '#' r.path).1 := lemma_takeWhile_no_sep '#' r.path
    by_cases h2 : (split1 '#' r.path).1.contains '?' = true
    · simp only [h2, if_true]
      refine ⟨lemma_takeWhile_no_sep '?' _, fun _ hc => hno ?_⟩
      exact (List.takeWhile_sublist _).subset hc
    · simp only [h2, Bool.false_eq_true, if_false]
      exact ⟨by simpa using h2, fun _ => hno⟩
  · simp only [h1, Bool.false_eq_true, if_false]
    by_cases h2 : r.path.contains '?' = true
    · simp only [h2, if_true]
      refine ⟨lemma_takeWhile_no_sep '?' _, fun ha hc => ?_⟩
      have hc' : '#' ∈ r.path := (List.takeWhile_sublist _).subset hc
      simp [ha] at h1
      exact h1 hc'
    · simp only [h2, Bool.false_eq_true, if_false]
      refine ⟨by simpa using h2, fun ha => ?_⟩
      simpa [ha] using h1

/-- all values given for `k`, in query order -/
def valuesFor (qsl : List (List Char × List Char)) (k : List Char) : List (List Char) :=
  (qsl.filter (fun kv => kv.1 = k)).map Prod.snd

/-- **params(), collapse=True**: each name maps to the last value given for it (and names that do
    not occur are absent) -/
theorem params_last (query : List Char) (qsl : List (List Char × List Char)) (k : List Char)
    (hq : query ≠ []) :
    dictGet (params query qsl true) k = (valuesFor qsl k).getLast?.map .one := by
  simp only [params, hq, if_false, if_true, lemma_dictGet_map_one, paramsCollapse]
  rw [lemma_foldl_collapse]
  simp [valuesFor, dictGet]

/-- **params(), collapse=False**: a name given once maps to its value, a name given several times
    to the list of all its values in order, other names are absent -/
theorem params_all (query : List Char) (qsl : List (List Char × List Char)) (k : List Char)
    (hq : query ≠ []) :
    dictGet (params query qsl false) k = ofVals (valuesFor qsl k) := by
  simp only [params, hq, if_false, Bool.false_eq_true, paramsAll]
  have hc : Canon [] := by intro k vs h; simp [dictGet] at h
  have ⟨c, e⟩ := lemma_foldl_allStep qsl [] k hc
  rw [lemma_ofVals_valsOf _ (c k), e]
  simp [valuesFor, dictGet, valsOf]

/-- an empty query gives the empty dict -/
theorem params_empty_query (qsl : List (List Char × List Char)) (c : Bool) :
    params [] qsl c = [] := by simp [params]

/-- the model's association list is a dict: names are distinct -/
theorem params_keys_distinct (query : List Char) (qsl : List (List Char × List Char)) (c : Bool) :
    ((params query qsl c).map Prod.fst).Nodup := by
  unfold params
  split
  · simp
  · split
    · have : ∀ (l : List (List Char × List Char)) d, (d.map Prod.fst).Nodup →
          ((l.foldl (fun d kv => dictSet d kv.1 kv.2) d).map Prod.fst).Nodup := by
        intro l; induction l with
        | nil => intro d h; exact h
        | cons kv l ih => intro d h; exact ih _ (lemma_dictSet_nodup d kv.1 kv.2 h)
      have := this qsl [] (by simp)
      simpa [paramsCollapse, List.map_map, Function.comp_def] using this
    · have : ∀ (l : List (List Char × List Char)) d, (d.map Prod.fst).Nodup →
          ((l.foldl allStep d).map Prod.fst).Nodup := by
        intro l; induction l with
        | nil => intro d h; exact h
        | cons kv l ih => intro d h; exact ih _ (lemma_allStep_nodup d kv h)
      exact this qsl [] (by simp)

-- a=1&a=2&b=3&a=4 : last value / all values
example :
    let qsl := [("a".toList, "1".toList), ("a".toList, "2".toList), ("b".toList, "3".toList),
                ("a".toList, "4".toList)]
    params "x".toList qsl true = [("a".toList, .one "4".toList), ("b".toList, .one "3".toList)] ∧
    params "x".toList qsl false
      = [("a".toList, .many ["1".toList, "2".toList, "4".toList]), ("b".toList, .one "3".toList)] := by
  decide

end Oslo.C15
