"""Source-drift detector: fingerprints of the top-level definitions of the files a property is anchored in.

The fingerprints of the tree the models were last validated against are committed in
/verif/fingerprints.json.  A check compares them with the current source of VERIF_REPO (default
/repo).  A difference is NOT a violation and breaks nothing by itself: it only makes the check spend
its large ("something changed") budgets on the correspondence and on the implementation-only search,
and is recorded in the evidence notes.  Docstrings and comments do not count.

usage: fingerprint.py --update     rewrite fingerprints.json from the current tree (after a fix: commit)
       fingerprint.py              print the definitions that differ
"""
import ast
import hashlib
import json
import os
import sys

VERIF = os.path.dirname(os.path.dirname(os.path.abspath(__file__)))
STORE = os.path.join(VERIF, 'fingerprints.json')


def anchor_files():
    out = {}
    for line in open(os.path.join(VERIF, 'properties.jsonl')):
        line = line.strip()
        if line:
            d = json.loads(line)
            out[d['id']] = list(d.get('anchors', {}).get('files', []))
    return out


def _strip_doc(node):
    for n in ast.walk(node):
        body = getattr(n, 'body', None)
        if isinstance(body, list) and body and isinstance(body[0], ast.Expr) and \
                isinstance(getattr(body[0], 'value', None), ast.Constant) and isinstance(body[0].value.value, str):
            n.body = body[1:] or [ast.Pass()]
    return node


def _names(node):
    if isinstance(node, (ast.FunctionDef, ast.AsyncFunctionDef, ast.ClassDef)):
        return [node.name]
    if isinstance(node, ast.Assign):
        return [ast.unparse(t) for t in node.targets]
    if isinstance(node, (ast.AnnAssign, ast.AugAssign)):
        return [ast.unparse(node.target)]
    if isinstance(node, (ast.Import, ast.ImportFrom)):
        return ['<imports>']
    return ['<other>']


def file_fingerprints(path):
    """{definition name: sha1 of its AST}; class members are fingerprinted individually as Class.member"""
    tree = _strip_doc(ast.parse(open(path, encoding='utf-8').read()))
    acc = {}

    def add(name, node):
        acc.setdefault(name, []).append(ast.dump(node, include_attributes=False))

    for node in tree.body:
        for name in _names(node):
            if isinstance(node, ast.ClassDef):
                add(name, ast.ClassDef(name=node.name, bases=node.bases, keywords=node.keywords, body=[],
                                       decorator_list=node.decorator_list))
                for sub in node.body:
                    for sn in _names(sub):
                        add(name + '.' + sn, sub)
            else:
                add(name, node)
    return {k: hashlib.sha1('\n'.join(v).encode()).hexdigest()[:16] for k, v in acc.items()}


def current(repo):
    files = sorted({f for fs in anchor_files().values() for f in fs})
    out = {}
    for f in files:
        p = os.path.join(repo, f)
        try:
            out[f] = file_fingerprints(p)
        except Exception as e:       # unreadable / unparsable source: everything in it counts as changed
            out[f] = {'<unparsable>': type(e).__name__}
    return out


def drift(prop_id, repo):
    """names of definitions (file:name) in the property's anchor files that differ from the stored tree"""
    try:
        stored = json.load(open(STORE))
    except Exception:
        return ['<no fingerprints.json>']
    cur = current(repo)
    out = []
    for f in anchor_files().get(prop_id, []):
        a, b = stored.get(f, {}), cur.get(f, {})
        for k in sorted(set(a) | set(b)):
            if a.get(k) != b.get(k):
                out.append('%s:%s' % (f, k))
    return out


if __name__ == '__main__':
    repo = os.environ.get('VERIF_REPO', '/repo')
    if '--update' in sys.argv:
        json.dump(current(repo), open(STORE, 'w'), indent=1, sort_keys=True)
        print('fingerprints.json rewritten from', repo)
    else:
        for pid in sorted(anchor_files()):
            d = drift(pid, repo)
            if d:
                print(pid, d)
