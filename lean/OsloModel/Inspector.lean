/-
Model of FileInspector and the ten format inspectors of
oslo_utils/imageutils/format_inspector.py (lines 198-1315), as the code is after
the D1/D2/D3 fixes.  Tables and class constants come from Generated/Insp.lean.
-/
import OsloModel.Capture
import OsloModel.Generated.Insp
namespace Oslo.Insp

inductive Fmt | raw | qcow2 | vhd | vhdx | vmdk | vdi | qed | iso | gpt | luks
  deriving DecidableEq, Repr

def Fmt.all : List Fmt := [.raw, .qcow2, .vhd, .vhdx, .vmdk, .vdi, .qed, .iso, .gpt, .luks]

def Fmt.name : Fmt → String
  | .raw => "raw" | .qcow2 => "qcow2" | .vhd => "vhd" | .vhdx => "vhdx" | .vmdk => "vmdk"
  | .vdi => "vdi" | .qed => "qed" | .iso => "iso" | .gpt => "gpt" | .luks => "luks"

def Fmt.ofName? (n : String) : Option Fmt := Fmt.all.find? (fun f => f.name == n)

def Fmt.initRegions : Fmt → List Gen.RegionSpec
  | .raw => Gen.raw_regions | .qcow2 => Gen.qcow2_regions | .vhd => Gen.vhd_regions
  | .vhdx => Gen.vhdx_regions | .vmdk => Gen.vmdk_regions | .vdi => Gen.vdi_regions
  | .qed => Gen.qed_regions | .iso => Gen.iso_regions | .gpt => Gen.gpt_regions
  | .luks => Gen.luks_regions

def Fmt.initChecks : Fmt → List String
  | .raw => Gen.raw_checks | .qcow2 => Gen.qcow2_checks | .vhd => Gen.vhd_checks
  | .vhdx => Gen.vhdx_checks | .vmdk => Gen.vmdk_checks | .vdi => Gen.vdi_checks
  | .qed => Gen.qed_checks | .iso => Gen.iso_checks | .gpt => Gen.gpt_checks
  | .luks => Gen.luks_checks

/-- qcow2 `qemu_header_info` (only the fields that are read; `{}` is `none`) -/
structure QcowInfo where
  version : Nat
  size : Nat
  deriving DecidableEq, Repr

structure Insp where
  fmt : Fmt
  total : Nat                          -- _total_count
  regions : List (String × Region)     -- _capture_regions, insertion order
  nextRid : Nat
  finished : Bool
  checks : List String                 -- _safety_checks keys, insertion order
  qcowInfo : Option QcowInfo
  descText : Option Bytes              -- VMDK desc_text (ASCII, lower-cased)
  vmdkType : Bytes                     -- VMDK vmdktype
  deriving DecidableEq, Repr

def mkRegions : List Gen.RegionSpec → Nat → List (String × Region)
  | [], _ => []
  | (n, off, len, ml, isEnd) :: rest, k =>
    (n, { rid := k, offset := off, length := len, minLength := ml, data := [],
          isEnd := isEnd, endDone := false }) :: mkRegions rest (k + 1)

def formatNotFound : Bytes := ascii "formatnotfound"

/-- `__init__` + `_initialize`; `none` when no safety check is declared (RuntimeError, line 223) -/
def Insp.init (f : Fmt) : Option Insp :=
  if f.initChecks.isEmpty then none else
  some { fmt := f, total := 0, regions := mkRegions f.initRegions 0,
         nextRid := f.initRegions.length, finished := false, checks := f.initChecks,
         qcowInfo := none, descText := none, vmdkType := formatNotFound }

/-! ### region table -/

def lookupR (n : String) : List (String × Region) → Option Region
  | [] => none
  | (k, r) :: rest => if k = n then some r else lookupR n rest

def Insp.region (s : Insp) (n : String) : Except Err Region :=
  match lookupR n s.regions with
  | some r => .ok r
  | none => .error .key

def Insp.hasRegion (s : Insp) (n : String) : Bool := (lookupR n s.regions).isSome

def Insp.newRegion (s : Insp) (n : String) (off len : Nat) (ml : Option Nat) (isEnd : Bool) :
    Except Err Insp :=
  if s.hasRegion n then .error .imageFormat else
  .ok { s with regions := s.regions ++ [(n, { rid := s.nextRid, offset := off, length := len,
                                               minLength := ml, data := [], isEnd := isEnd,
                                               endDone := false })],
               nextRid := s.nextRid + 1 }

def Insp.deleteRegion (s : Insp) (n : String) : Except Err Insp :=
  if s.hasRegion n then .ok { s with regions := s.regions.filter (fun p => p.1 != n) }
  else .error .key

def Insp.updRegion (s : Insp) (n : String) (f : Region → Region) : Insp :=
  { s with regions := s.regions.map (fun p => if p.1 = n then (p.1, f p.2) else p) }

/-- `complete` (line 364) -/
def Insp.complete (s : Insp) : Bool := s.regions.all (fun p => p.2.complete)

/-- `context_info` (line 373) -/
def Insp.contextInfo (s : Insp) : List (String × Nat) := s.regions.map (fun p => (p.1, p.2.data.length))

def Insp.retained (s : Insp) : Nat := (s.regions.map (fun p => p.2.data.length)).sum

/-- `_capture(chunk, only)` (lines 251-259), without the finished test -/
def Insp.captureAll (s : Insp) (chunk : Bytes) (only : List String) : Insp :=
  { s with regions := s.regions.map (fun p =>
      if (only.isEmpty || only.contains p.1) && (p.2.isEnd || !p.2.complete)
      then (p.1, p.2.capture chunk s.total) else p) }

/-- `finish()` (lines 240-249) -/
def Insp.finish (s : Insp) : Insp :=
  { s with finished := true, regions := s.regions.map (fun p => (p.1, p.2.finish)) }

/-! ### text helpers (ASCII, on bytes) -/

def isAsciiSpace (b : UInt8) : Bool :=
  (9 ≤ b.toNat && b.toNat ≤ 13) || (28 ≤ b.toNat && b.toNat ≤ 32)
def isAsciiPrintable (b : UInt8) : Bool := 32 ≤ b.toNat && b.toNat ≤ 126
def isAscii (b : UInt8) : Bool := b.toNat < 128
def lowerByte (b : UInt8) : UInt8 := if 65 ≤ b.toNat && b.toNat ≤ 90 then b + 32 else b

/-- first index ≥ `start` at which `needle` occurs in `hay` (`str.find`/`index`) -/
def findSubAux (needle : Bytes) : Bytes → Nat → Option Nat
  | [], i => if needle.isEmpty then some i else none
  | h :: t, i => if startsWith (h :: t) needle then some i else findSubAux needle t (i + 1)

def findSub (hay needle : Bytes) (start : Nat) : Option Nat :=
  if start ≤ hay.length then findSubAux needle (hay.drop start) start else none

def contains (hay needle : Bytes) : Bool := (findSub hay needle 0).isSome

/-- `text.split(sep)` for a one-byte separator -/
def splitOn (sep : UInt8) : Bytes → List Bytes
  | [] => [[]]
  | h :: t =>
    if h = sep then [] :: splitOn sep t
    else match splitOn sep t with
      | [] => [[h]]
      | x :: xs => (h :: x) :: xs

/-- `str.strip()` on ASCII text -/
def strip (b : Bytes) : Bytes :=
  ((b.dropWhile isAsciiSpace).reverse.dropWhile isAsciiSpace).reverse

/-- the part before the first `sep` (`line.split(sep)[0]`) -/
def before (sep : UInt8) (b : Bytes) : Bytes := b.takeWhile (· != sep)

/-! ### qcow2 (lines 459-557) -/

def qcowMagic : Bytes := [0x51, 0x46, 0x49, 0xfb]

/-- `region_complete`: parse the first 32 header bytes; keep the info only if the magic matches -/
def qcowRegionComplete (s : Insp) : Insp × Option Err :=
  match s.region "header" with
  | .error e => (s, some e)
  | .ok h =>
    let d := slice h.data 0 32
    if d.length ≠ 32 then (s, some .struct) else
    -- format_match after the assignment: header complete ∧ magic matches
    if h.complete && slice d 0 4 == qcowMagic then
      ({ s with qcowInfo := some { version := beNat (slice d 4 8), size := beNat (slice d 24 32) } }, none)
    else ({ s with qcowInfo := none }, none)

/-! ### VHDX (lines 665-817) -/

/-- scan `count` region-table entries from index `i` for the metadata-region GUID -/
def vhdxScanRegions (data : Bytes) : Nat → Nat → Except Err (Option Nat)
  | 0, _ => .ok none
  | n + 1, i =>
    let entry := slice data (16 + i * 32) (16 + i * 32 + 32)
    let g := slice entry 0 16
    if g.length ≠ 16 then .error .struct else
    if g == Gen.vhdxMetaRegionGuid then
      if (entry.drop 16).length ≠ 16 then .error .struct
      else .ok (some (leNat (slice entry 16 24)))
    else vhdxScanRegions data n (i + 1)

/-- `_find_meta_region`: offset of the metadata region, if the table names one -/
def vhdxFindMetaRegion (s : Insp) : Except Err (Option Nat) := do
  let h ← s.region "header"
  let d := slice h.data 0 16
  if d.length ≠ 16 then throw .struct
  if leNat (slice d 0 4) ≠ 0x69676572 then throw .imageFormat
  let count := leNat (slice d 8 12)
  if count ≥ 2048 then throw .imageFormat
  vhdxScanRegions h.data count 0

/-- scan `count` metadata entries for the virtual-disk-size GUID: (item_offset, item_length) -/
def vhdxScanMeta (buf : Bytes) : Nat → Nat → Except Err (Option (Nat × Nat))
  | 0, _ => .ok none
  | n + 1, i =>
    let eo := 32 + i * 32
    let g := slice buf eo (eo + 16)
    if g.length ≠ 16 then .error .struct else
    if g == Gen.vhdxVdsGuid then
      let f := slice buf (eo + 16) (eo + 28)
      if f.length ≠ 12 then .error .struct
      else .ok (some (leNat (slice f 0 4), leNat (slice f 4 8)))
    else vhdxScanMeta buf n (i + 1)

/-- `_find_meta_entry(VIRTUAL_DISK_SIZE)`: `none` = not yet / not found -/
def vhdxFindMetaEntry (s : Insp) : Except Err (Option (Nat × Nat)) := do
  let m ← s.region "metadata"
  let buf := m.data
  if buf.length < 32 then return none
  let d := slice buf 0 12
  if d.length ≠ 12 then throw .struct
  if slice d 0 8 ≠ ascii "metadata" then throw .imageFormat
  let count := leNat (slice d 10 12)
  if buf.length < 32 + count * 32 then return none
  if count ≥ 2048 then throw .imageFormat
  vhdxScanMeta buf count 0

/-- the second half of `_find_meta_entry`: stop the metadata region at what it holds, return the
    size-item region -/
def vhdxAddVds (s : Insp) (m : Region) (ioff ilen : Nat) : Insp × Option Err :=
  match (s.updRegion "metadata" (fun r => { r with length := r.data.length })).newRegion "vds"
      (m.offset + ioff) (min ilen Gen.vhdxMetaTableMax) none false with
  | .error e => (s.updRegion "metadata" (fun r => { r with length := r.data.length }), some e)
  | .ok s2 => (s2, none)

def vhdxPostProcess (s : Insp) : Insp × Option Err :=
  match s.region "header" with
  | .error e => (s, some e)
  | .ok h =>
    if h.complete && !s.hasRegion "metadata" then
      match vhdxFindMetaRegion s with
      | .error e => (s, some e)
      | .ok none => (s, none)
      | .ok (some off) =>
        match s.newRegion "metadata" off (2048 * 32) none false with
        | .error e => (s, some e)
        | .ok s' => (s', none)
    else if s.hasRegion "metadata" && !s.hasRegion "vds" then
      match vhdxFindMetaEntry s with
      | .error e => (s, some e)
      | .ok none => (s, none)
      | .ok (some (ioff, ilen)) =>
        match s.region "metadata" with
        | .error e => (s, some e)
        | .ok m => vhdxAddVds s m ioff ilen
    else (s, none)

/-! ### VMDK (lines 847-1085) -/

structure SparseHeader where
  sig : Bytes
  ver : Nat
  sectors : Nat
  descSec : Nat
  descNum : Nat
  gdOffset : Nat
  deriving DecidableEq, Repr

/-- `_parse_sparse_header(region, offset)`: unpack '<4sIIQQQQIQQ' of 64 bytes -/
def parseSparseHeader (data : Bytes) (off : Nat) : Except Err SparseHeader :=
  let d := slice data off (off + Gen.vmdkMinSparseHeader)
  if d.length ≠ 64 then .error .struct else
  .ok { sig := slice d 0 4, ver := leNat (slice d 4 8), sectors := leNat (slice d 12 20),
        descSec := leNat (slice d 28 36), descNum := leNat (slice d 36 44),
        gdOffset := leNat (slice d 56 64) }

def kdmv : Bytes := ascii "KDMV"

/-- the `is_text` test of post_process (lines 904-911) -/
def isTextHeader (d : Bytes) : Bool :=
  d.all (fun b => isAscii b && (isAsciiPrintable b || isAsciiSpace b))

/-- footer announced: add the end-capture region and its safety check (lines 927-931) -/
def vmdkAddFooter (s : Insp) (gdOffset : Nat) : Except Err Insp :=
  if gdOffset = Gen.vmdkGdAtEnd && !s.hasRegion "footer" then
    match s.newRegion "footer" 1536 1536 none true with
    | .error e => .error e
    | .ok s' =>
      if s'.checks.contains "footer" then .error .runtime
      else .ok { s' with checks := s'.checks ++ ["footer"] }
  else .ok s

/-- descriptor location check and relocation of the descriptor region (lines 937-948) -/
def vmdkRelocate (s1 : Insp) (descSec descNum : Nat) : Insp × Option Err :=
  if descSec * 512 ≠ Gen.vmdkDescOffset then (s1, some .imageFormat) else
  match s1.region "descriptor" with
  | .error e => (s1, some e)
  | .ok dr =>
    if dr.offset = 0 then
      match s1.deleteRegion "descriptor" with
      | .error e => (s1, some e)
      | .ok s2 =>
        match s2.newRegion "descriptor" (descSec * 512) (min (descNum * 512) Gen.vmdkDescMaxSize) none false with
        | .error e => (s2, some e)
        | .ok s3 => (s3, none)
    else (s1, none)

def vmdkPostProcess (s : Insp) : Insp × Option Err :=
  match lookupR "header" s.regions with
  | none => (s, none)
  | some h =>
    if !h.complete then (s, none) else
    match parseSparseHeader h.data 0 with
    | .error e => (s, some e)
    | .ok hd =>
      if hd.sig ≠ kdmv then
        if isTextHeader h.data then
          match s.deleteRegion "header" with
          | .error e => (s, some e)
          | .ok s' => (s', none)
        else (s, some .imageFormat)
      else if !(hd.ver = 1 || hd.ver = 2 || hd.ver = 3) then (s, some .imageFormat)
      else
        match vmdkAddFooter s hd.gdOffset with
        | .error e => (s, some e)
        | .ok s1 => vmdkRelocate s1 hd.descSec hd.descNum

def createTypeKey : Bytes := ascii "createtype=\""

/-- `_parse_descriptor` (lines 954-987) -/
def vmdkParseDescriptor (s : Insp) : Insp × Option Err :=
  match s.region "descriptor" with
  | .error e => (s, some e)
  | .ok dr =>
    let data := match findSub dr.data [0] 0 with
      | some i => dr.data.take i
      | none => dr.data
    if !data.all isAscii then (s, none) else      -- UnicodeDecodeError: logged, nothing changes
    let text := data.map lowerByte
    let typ : Bytes :=
      match findSub text createTypeKey 0 with
      | none => formatNotFound
      | some k =>
        let typeIdx := k + createTypeKey.length
        match findSub text [0x22] typeIdx with
        | some typeEnd => if typeEnd - typeIdx < 64 then slice text typeIdx typeEnd else formatNotFound
        | none => slice text typeIdx (text.length - 1)     -- find() = -1: text[type_idx:-1]
    ({ s with descText := some text, vmdkType := typ }, none)

def sparseTypes : List Bytes := [ascii "monolithicsparse", ascii "streamoptimized"]

/-! ### the engine: eat_chunk (lines 261-294 after the D1 fix) -/

def postProcess (s : Insp) : Insp × Option Err :=
  match s.fmt with
  | .vhdx => vhdxPostProcess s
  | .vmdk => vmdkPostProcess s
  | _ => (s, none)

def regionComplete (s : Insp) (name : String) : Insp × Option Err :=
  match s.fmt with
  | .qcow2 => qcowRegionComplete s
  | .vmdk => if name = "descriptor" then vmdkParseDescriptor s else (s, none)
  | _ => (s, none)

/-- the `while new_regions` loop; `seen` are the identities already presented with this chunk -/
def followUp : Nat → Insp → Bytes → List Nat → Insp × Option Err
  | 0, s, _, seen =>
    if s.regions.any (fun p => !seen.contains p.2.rid) then (s, some .fuel) else (s, none)
  | fuel + 1, s, chunk, seen =>
    let fresh := s.regions.filter (fun p => !seen.contains p.2.rid)
    if fresh.isEmpty then (s, none) else
    let s1 := s.captureAll chunk (fresh.map (·.1))
    match postProcess s1 with
    | (s2, some e) => (s2, some e)
    | (s2, none) => followUp fuel s2 chunk (seen ++ fresh.map (·.2.rid))

def runCallbacks : Insp → List String → Insp × Option Err
  | s, [] => (s, none)
  | s, n :: ns =>
    match regionComplete s n with
    | (s1, some e) => (s1, some e)
    | (s1, none) => runCallbacks s1 ns

/-- `eat_chunk`: the new state (also when the call raised) and the error, if any -/
def eatChunk (s : Insp) (chunk : Bytes) : Insp × Option Err :=
  let preIds := s.regions.map (·.2.rid)
  let preComplete := (s.regions.filter (·.2.complete)).map (·.2.rid)
  let s1 := { s with total := s.total + chunk.length }
  if s1.finished then (s1, some .runtime) else
  let s2 := s1.captureAll chunk []
  match postProcess s2 with
  | (s3, some e) => (s3, some e)
  | (s3, none) =>
    match followUp 8 s3 chunk preIds with
    | (s4, some e) => (s4, some e)
    | (s4, none) =>
      let newly := s4.regions.filter (fun p => p.2.complete && !preComplete.contains p.2.rid)
      runCallbacks s4 (newly.map (·.1))

/-! ### format_match / virtual_size -/

def formatMatch (s : Insp) : Except Err Bool :=
  match s.fmt with
  | .raw => .ok true
  | .qcow2 => do
    let h ← s.region "header"
    if !h.complete then return false
    return s.qcowInfo.isSome            -- info is kept only when the magic matched
  | .qed => do
    let h ← s.region "header"
    if !h.complete then return false
    return startsWith h.data [0x51, 0x45, 0x44, 0x00]
  | .vhd => do
    let h ← s.region "header"
    return startsWith h.data (ascii "conectix")
  | .vhdx => do
    let h ← s.region "ident"
    return startsWith h.data (ascii "vhdxfile")
  | .vmdk =>
    match lookupR "header" s.regions with
    | some h => .ok (startsWith h.data kdmv)
    | none => .ok (s.vmdkType != formatNotFound)
  | .vdi => do
    let h ← s.region "header"
    if !h.complete then return false
    let sig ← unpackLE 4 (slice h.data 0x40 0x44)
    return sig == 0xbeda107f
  | .iso => do
    if !s.complete then return false
    let h ← s.region "header"
    let sig := slice h.data 1 6
    return sig == ascii "CD001" || sig == ascii "NSR02" || sig == ascii "NSR03"
  | .gpt => do
    let m ← s.region "mbr"
    if !m.complete then return false
    match m.data[0x10]?, m.data[0x15]? with
    | some nf, some md =>
      let isFat := nf.toNat == 2 && md.toNat == Gen.gptMediaFdisk
      let sig ← unpackLE 2 (slice m.data 510 512)
      return sig == Gen.gptMbrSignature && !isFat
    | _, _ => throw .value               -- IndexError; unreachable when complete
  | .luks => do
    let h ← s.region "header"
    return slice h.data 0 6 == [0x4c, 0x55, 0x4b, 0x53, 0xba, 0xbe]

/-- LUKS `header_items['payload_offset']` ('>6sh32s32s32sI' of data[:108]) -/
def luksHeader (s : Insp) : Except Err (Nat × Nat) := do       -- (version as unsigned 16, payload_offset)
  let h ← s.region "header"
  let d := slice h.data 0 108
  if d.length ≠ 108 then throw .struct
  return (beNat (slice d 6 8), beNat (slice d 104 108))

def virtualSize (s : Insp) : Except Err Int :=
  match s.fmt with
  | .raw | .gpt | .qed => .ok s.total
  | .qcow2 => .ok (match s.qcowInfo with | some i => i.size | none => 0)
  | .vhd => do
    let h ← s.region "header"
    if !h.complete then return 0
    if !(← formatMatch s) then return 0
    let v ← unpackBE 8 (slice h.data 40 48)
    return v
  | .vhdx =>
    match lookupR "vds" s.regions with
    | none => .ok 0
    | some v =>
      if !v.complete then .ok 0 else do
        let n ← unpackLE 8 v.data
        return n
  | .vmdk =>
    match s.descText with
    | none => .ok 0
    | some t =>
      if t.isEmpty then .ok 0 else
      if !sparseTypes.contains s.vmdkType then .ok 0 else
      match lookupR "header" s.regions with
      | none => .ok 0
      | some h =>
        let d := slice h.data 0 44
        if d.length ≠ 44 then .error .struct else .ok (Int.ofNat (leNat (slice d 12 20) * 512))
  | .vdi => do
    let h ← s.region "header"
    if !h.complete then return 0
    if !(← formatMatch s) then return 0
    let v ← unpackLE 8 (slice h.data 0x170 0x178)
    return v
  | .iso => do
    if !s.complete then return 0
    if !(← formatMatch s) then return 0
    let h ← s.region "header"
    match h.data[0]? with
    | none => throw .value
    | some t =>
      if t.toNat ≠ 1 then return 0
      let bs ← unpackLE 2 (slice (slice h.data 128 132) 0 2)
      let vs ← unpackLE 4 (slice (slice h.data 80 88) 0 4)
      return Int.ofNat (vs * bs)
  | .luks => do
    let (_, po) ← luksHeader s
    return (s.total : Int) - (po : Int) * 512

/-! ### safety checks (lines 142-155, 404-430, per-format check functions) -/

/-- outcome of one check function: pass, SafetyViolation, or any other exception
    (which SafetyCheck.__call__ turns into a SafetyViolation) -/
inductive CheckRes | pass | violation | crashed
  deriving DecidableEq, Repr

def CheckRes.ofExcept : Except Err Bool → CheckRes
  | .ok true => .pass
  | .ok false => .violation
  | .error _ => .crashed

def qcowCheckBackingFile (s : Insp) : Except Err Bool := do
  let h ← s.region "header"
  let v ← unpackBE 8 (slice h.data Gen.qcowBfOffset (Gen.qcowBfOffset + Gen.qcowBfOffsetLen))
  return v == 0

/-- the byte loop of check_unknown_features (lines 520-546); `i` counts positions, `fb` the bytes -/
def qcowFeatureLoop (maxBit len : Nat) : List UInt8 → Nat → Bool
  | [], _ => true
  | b :: rest, i =>
    let byteNum := len - 1 - i
    let maxByte := maxBit / 8
    let allow : Nat :=
      if byteNum = maxByte then (1 <<< (maxBit % 8)) - 1
      else if byteNum > maxByte then 0 else 0xFF
    -- i_features[i] & ~allow_mask  (an 8-bit value)
    if (b.toNat &&& (255 - allow % 256)) ≠ 0 then false
    else qcowFeatureLoop maxBit len rest (i + 1)

def qcowCheckUnknownFeatures (s : Insp) : Except Err Bool := do
  match s.qcowInfo with
  | none => return false                       -- ver = None ≠ 2, ≠ 3
  | some info =>
    if info.version = 2 then return true
    if info.version ≠ 3 then return false
    let h ← s.region "header"
    let f := slice h.data Gen.qcowIFeatures (Gen.qcowIFeatures + Gen.qcowIFeaturesLen)
    if f.length < Gen.qcowIFeaturesLen then throw .value      -- IndexError
    return qcowFeatureLoop Gen.qcowMaxBit Gen.qcowIFeaturesLen f 0

def qcowCheckDataFile (s : Insp) : Except Err Bool := do
  let h ← s.region "header"
  let f := slice h.data Gen.qcowIFeatures (Gen.qcowIFeatures + Gen.qcowIFeaturesLen)
  let byte := Gen.qcowIFeaturesLen - 1 - Gen.qcowDatafileBit / 8
  -- `1 << (BIT - 1 % 8)`: precedence makes this `BIT - (1 % 8)`
  let bit := 1 <<< (Gen.qcowDatafileBit - 1 % 8)
  match f[byte]? with
  | none => throw .value
  | some b => return (b.toNat &&& bit) == 0

def extentAccess : List Bytes := [ascii "rw", ascii "rdonly", ascii "noaccess"]

/-- classification of one stripped descriptor line (lines 1027-1044) -/
inductive LineKind | skip | ddb | field | extent | bad
  deriving DecidableEq, Repr

def classifyLine (line : Bytes) : LineKind :=
  if startsWith line [0x23] || line.isEmpty then .skip
  else if startsWith line (ascii "ddb") then .ddb
  else if line.contains 0x3d && !(before 0x3d line).contains 0x20 then .field
  else if extentAccess.contains (before 0x20 line) then .extent
  else .bad

def vmdkCheckDescriptor (s : Insp) : Bool :=
  match s.descText with
  | none => false
  | some t =>
    if t.isEmpty then false else
    if !sparseTypes.contains s.vmdkType then false else
    let lines := (splitOn 0x0a t).map strip
    let kinds := lines.map classifyLine
    if kinds.contains .bad then false else
    let extents := lines.filter (fun l => classifyLine l == .extent)
    if extents.any (fun l => l.contains 0x2f) then false else
    !extents.isEmpty

def zeros (n : Nat) : Bytes := List.replicate n 0

def vmdkCheckFooter (s : Insp) : Except Err Bool := do
  let h ← s.region "header"
  let f ← s.region "footer"
  let hh ← parseSparseHeader h.data 0
  let fh ← parseSparseHeader f.data 512
  if hh.sig ≠ fh.sig then return false
  if hh.ver ≠ fh.ver then return false
  if hh.descSec ≠ fh.descSec || hh.descNum ≠ fh.descNum then return false
  if fh.gdOffset = Gen.vmdkGdAtEnd then return false
  let m1 := slice f.data 0 512
  if m1.length ≠ 512 then throw .struct
  if leNat (slice m1 8 12) ≠ 0 || leNat (slice m1 12 16) ≠ Gen.vmdkMarkerFooter
      || slice m1 16 512 ≠ zeros 496 then return false
  let m2 := lastN 512 f.data
  if m2.length ≠ 512 then throw .struct
  if leNat (slice m2 0 8) ≠ 0 || leNat (slice m2 8 12) ≠ 0
      || leNat (slice m2 12 16) ≠ Gen.vmdkMarkerEos || slice m2 16 512 ≠ zeros 496 then return false
  return true

structure Pte where
  boot : Nat
  starth : Nat
  starts : Nat
  startt : Nat
  ostype : Nat
  startlba : Nat

def gptPte (mbr : Bytes) (i : Nat) : Except Err Pte :=
  let p := slice mbr (Gen.gptPteStart + 16 * i) (Gen.gptPteStart + 16 * i + 16)
  if p.length ≠ 16 then .error .struct else
  .ok { boot := (p.getD 0 0).toNat, starth := (p.getD 1 0).toNat, starts := (p.getD 2 0).toNat,
        startt := (p.getD 3 0).toNat, ostype := (p.getD 4 0).toNat,
        startlba := leNat (slice p 8 12) }

/-- the loop of check_mbr_partitions: returns (valid partition indices, found_gpt) or a violation -/
def gptLoop (mbr : Bytes) : Nat → Nat → List Nat → Bool → Except Err (Option (List Nat × Bool))
  | 0, _, valid, found => .ok (some (valid, found))
  | n + 1, i, valid, found => do
    let p ← gptPte mbr i
    if !(p.boot = 0x00 || p.boot = 0x80) then return none
    let valid' := if p.ostype ≠ 0 then valid ++ [i] else valid
    if p.ostype = 0xEE then
      if !(p.starth = 0 && p.starts = 2 && p.startt = 0) then return none
      if p.startlba ≠ 1 then return none
      gptLoop mbr n (i + 1) valid' true
    else gptLoop mbr n (i + 1) valid' found

def gptCheckMbr (s : Insp) : Except Err Bool := do
  let m ← s.region "mbr"
  match ← gptLoop m.data 4 0 [] false with
  | none => return false
  | some (valid, found) =>
    if found && valid ≠ [0] then return false
    if valid.isEmpty then return false
    return true

def luksCheckVersion (s : Insp) : Except Err Bool := do
  let (v, _) ← luksHeader s
  return v == 1          -- signed 16-bit `h`: 1 is 1 either way

/-- run the check registered under `name` for this format -/
def runCheck (s : Insp) (name : String) : CheckRes :=
  match s.fmt, name with
  | _, "null" => .pass
  | _, "banned" => .violation
  | .qcow2, "backing_file" => .ofExcept (qcowCheckBackingFile s)
  | .qcow2, "data_file" => .ofExcept (qcowCheckDataFile s)
  | .qcow2, "unknown_features" => .ofExcept (qcowCheckUnknownFeatures s)
  | .vmdk, "descriptor" => .ofExcept (.ok (vmdkCheckDescriptor s))
  | .vmdk, "footer" => .ofExcept (vmdkCheckFooter s)
  | .gpt, "mbr" => .ofExcept (gptCheckMbr s)
  | .luks, "version" => .ofExcept (luksCheckVersion s)
  | _, _ => .crashed                      -- a check this model does not know: never a pass

inductive Safety
  | ok                                   -- returned normally
  | refused                              -- ImageFormatError (incomplete / no match)
  | failed (names : List String)         -- SafetyCheckFailed with these check names
  | raised (e : Err)                     -- anything else
  deriving DecidableEq, Repr

/-- `safety_check()` (lines 404-430) -/
def safetyCheck (s : Insp) : Safety :=
  if !s.complete then .refused else
  match formatMatch s with
  | .error e => .raised e
  | .ok false => .refused
  | .ok true =>
    let failures := s.checks.filter (fun n => runCheck s n != .pass)
    if failures.isEmpty then .ok else .failed failures

/-! ### whole-stream runs -/

/-- feed chunks the way InspectWrapper does (an inspector that raised is not fed again), then finish -/
def feed : Insp → List Bytes → Insp × Option Err
  | s, [] => (s, none)
  | s, c :: cs =>
    match eatChunk s c with
    | (s1, some e) => (s1, some e)
    | (s1, none) => feed s1 cs

def runChunks (s : Insp) (chunks : List Bytes) : Insp × Option Err :=
  let (s1, e) := feed s chunks
  (s1.finish, e)

structure Verdict where
  fmtMatch : Except Err Bool
  complete : Bool
  vsize : Except Err Int
  safety : Safety
  raised : Option Err

def verdict (r : Insp × Option Err) : Verdict :=
  { fmtMatch := formatMatch r.1, complete := r.1.complete, vsize := virtualSize r.1,
    safety := safetyCheck r.1, raised := r.2 }

end Oslo.Insp
