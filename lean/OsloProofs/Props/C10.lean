import OsloModel.Units
namespace Oslo.Units
theorem lemma_placeholder : True := trivial
end Oslo.Units
