/-
Model of the host:port and URL helpers of oslo_utils.netutils:

  * parse_host_port(address, default_port)     netutils.py:39-84
  * is_valid_ipv6 / escape_ipv6                netutils.py:113-133, 281-292
  * urlsplit (the two fix-ups of the wrapper)  netutils.py:530-545
  * _ModifiedSplitResult.params                netutils.py:495-527

Text is `List Char`.  What lives outside oslo.utils and is re-implemented here
(trusted, exercised by the correspondence on every run):

  * `str.split(sep)` / `str.count` / `str.rsplit(sep, 1)` / `in` for a one-character `sep`;
  * `int(str)` on ASCII text (optional surrounding ASCII whitespace, sign, digits with single
    underscores between digits, the 4300-digit limit); any non-ASCII character makes the
    model answer `unmodelled` rather than guess;
  * glibc `inet_pton(AF_INET6, …)` / `inet_pton4` as reached through
    `netaddr.valid_ipv6(…, INET_PTON)` — acceptance only, not the value.

`urllib.parse.urlsplit` and `urllib.parse.parse_qsl` are parameters: the model
takes their results as input.
-/
namespace Oslo.HostPort

inductive Err
  | valueError
  | typeError
  | indexError                 -- `_port.split(':')[1]` out of range (shown unreachable)
  | unmodelled                 -- input outside the modelled character domain
  deriving DecidableEq, Repr

/-! ### str primitives -/

/-- `s.split(sep)` for a one-character separator: never empty -/
def splitOn (sep : Char) : List Char → List (List Char)
  | [] => [[]]
  | c :: cs =>
    if c = sep then [] :: splitOn sep cs
    else match splitOn sep cs with
      | [] => [[c]]
      | p :: ps => (c :: p) :: ps

/-- `s.rsplit(sep, 1)`: (everything before the last `sep`, what follows it), or (s, none) -/
def rsplit1 (sep : Char) : List Char → List Char × Option (List Char)
  | [] => ([], none)
  | c :: cs =>
    match rsplit1 sep cs with
    | (a, some t) => (c :: a, some t)
    | (a, none) => if c = sep then ([], some a) else (c :: a, none)

/-- `s.split(sep, 1)` when `sep in s`: (before the first `sep`, after it) -/
def split1 (sep : Char) (s : List Char) : List Char × List Char :=
  (s.takeWhile (· ≠ sep), (s.dropWhile (· ≠ sep)).drop 1)

/-! ### int(str), ASCII domain -/

/-- '0'..'9' -/
def isDigit (c : Char) : Bool := 48 ≤ c.toNat && c.toNat ≤ 57

/-- C `isspace` in the "C" locale: what `int()` strips from an ASCII string -/
def isAsciiSpace (c : Char) : Bool := c.toNat = 32 || (9 ≤ c.toNat && c.toNat ≤ 13)

def strip (s : List Char) : List Char :=
  ((s.dropWhile isAsciiSpace).reverse.dropWhile isAsciiSpace).reverse

/-- `sys.get_int_max_str_digits()` default -/
def maxStrDigits : Nat := 4300

/-- digits with single underscores strictly between digits; returns (value, number of digits) -/
def parseDigits : List Char → (acc n : Nat) → (prevDigit : Bool) → Option (Nat × Nat)
  | [], acc, n, prev => if prev then some (acc, n) else none
  | c :: cs, acc, n, prev =>
    if isDigit c then parseDigits cs (acc * 10 + (c.toNat - 48)) (n + 1) true
    else if c = '_' && prev then parseDigits cs acc n false
    else none

/-- optional sign in front of the digits: (negative?, rest) -/
def signSplit : List Char → Bool × List Char
  | '-' :: r => (true, r)
  | '+' :: r => (false, r)
  | r => (false, r)

/-- `int(s)` for a `str` (base 10) -/
def pyInt (s : List Char) : Except Err Int :=
  if s.any (fun c => c.toNat ≥ 128) then .error .unmodelled else
  let sb := signSplit (strip s)
  match parseDigits sb.2 0 0 false with
  | none => .error .valueError
  | some (v, n) =>
    if n > maxStrDigits then .error .valueError
    else .ok (if sb.1 then - (v : Int) else (v : Int))

/-! ### inet_pton (glibc resolv/inet_pton.c), acceptance only -/

/-- hex_digit_value(ch) >= 0: '0'..'9', 'a'..'f', 'A'..'F' -/
def isHex (c : Char) : Bool :=
  isDigit c || (97 ≤ c.toNat && c.toNat ≤ 102) || (65 ≤ c.toNat && c.toNat ≤ 70)

/-- inet_pton4: strict dotted quad, no leading zeros, exactly four octets ≤ 255 -/
def pton4Loop : List Char → (saw : Bool) → (octets cur : Nat) → Bool
  | [], _, octets, _ => decide (4 ≤ octets)
  | ch :: rest, saw, octets, cur =>
    if isDigit ch then
      let new := cur * 10 + (ch.toNat - 48)
      if saw && cur == 0 then false
      else if new > 255 then false
      else if !saw then
        (if octets + 1 > 4 then false else pton4Loop rest true (octets + 1) new)
      else pton4Loop rest true octets new
    else if ch = '.' && saw then
      (if octets = 4 then false else pton4Loop rest false octets 0)
    else false

def pton4 (s : List Char) : Bool := pton4Loop s false 0 0

/-- main loop of inet_pton6.  `tp` = bytes written so far, `colon` = value of `tp` where `::`
    was seen, `xd` = hex digits seen in the current group, `curtok` = text from the start of the
    current group.  The group's value is not tracked: with at most four hex digits the C test
    `val > 0xffff` never fires.  Result: final (tp, colon, xd), or none = rejected. -/
def pton6Loop : List Char → (curtok : List Char) → (tp : Nat) → (colon : Option Nat) →
    (xd : Nat) → Option (Nat × Option Nat × Nat)
  | [], _, tp, colon, xd => some (tp, colon, xd)
  | ch :: rest, curtok, tp, colon, xd =>
    if isHex ch then
      if xd = 4 then none
      else pton6Loop rest curtok tp colon (xd + 1)
    else if ch = ':' then
      if xd = 0 then
        (if colon.isSome then none else pton6Loop rest rest tp (some tp) 0)
      else if rest = [] then none
      else if tp + 2 > 16 then none
      else pton6Loop rest rest (tp + 2) colon 0
    else if ch = '.' && tp + 4 ≤ 16 && pton4 curtok then some (tp + 4, colon, 0)
    else none

/-- inet_pton(AF_INET6, s) succeeds -/
def pton6 (s : List Char) : Bool :=
  match s with
  | [] => false
  | c :: cs =>
    -- a leading ':' must be the first half of '::'
    let start : Option (List Char) :=
      if c = ':' then (match cs with | ':' :: _ => some cs | _ => none) else some s
    match start with
    | none => false
    | some src =>
      match pton6Loop src src 0 none 0 with
      | none => false
      | some (tp, colon, xd) =>
        let tpOk := if xd > 0 then (if tp + 2 > 16 then none else some (tp + 2)) else some tp
        match tpOk with
        | none => false
        | some tp' =>
          match colon with
          | some _ => decide (tp' ≠ 16)      -- '::' must stand for at least one group
          | none => decide (tp' = 16)

/-- is_valid_ipv6 (netutils.py:113-133) -/
def isValidIPv6 (address : List Char) : Bool :=
  if address = [] then false else
  match rsplit1 '%' address with
  | (addr, some scope) =>
    if scope.length < 1 || scope.length > 15 then false else pton6 addr
  | (addr, none) => pton6 addr

/-- escape_ipv6 (netutils.py:281-292) -/
def escapeIPv6 (address : List Char) : List Char :=
  if isValidIPv6 address then '[' :: (address ++ [']']) else address

/-! ### parse_host_port -/

/-- the `default_port` argument: `None`, an `int`, or a `str` -/
inductive DefPort
  | none | int (n : Int) | str (s : List Char)
  deriving DecidableEq, Repr

/-- where the port comes from before `int()` is applied -/
inductive PortSrc
  | text (s : List Char) | dflt

/-- `None if port is None else int(port)` -/
def convPort (d : DefPort) : PortSrc → Except Err (Option Int)
  | .text s => (pyInt s).map some
  | .dflt =>
    match d with
    | .none => .ok none
    | .int n => .ok (some n)
    | .str s => (pyInt s).map some

/-- the `address[0] == '['` branch (netutils.py:68-75); `rest` is `address[1:]` -/
def parseBracketed (rest : List Char) (d : DefPort) :
    Except Err (Option (List Char) × Option Int) :=
  match splitOn ']' rest with                                    -- `address[1:].split(']')`
  | [host, port] =>
    if ':' ∈ port then
      match splitOn ':' port with                                -- `_port.split(':')[1]`
      | _ :: p :: _ => (convPort d (.text p)).map (fun q => (some host, q))
      | _ => .error .indexError
    else (convPort d .dflt).map (fun q => (some host, q))
  | _ => .error .valueError                                      -- unpacking fails

/-- the other branch (netutils.py:76-83) -/
def parseUnbracketed (a : List Char) (d : DefPort) :
    Except Err (Option (List Char) × Option Int) :=
  if a.count ':' = 1 then
    match splitOn ':' a with                                     -- `host, port = address.split(':')`
    | [host, port] => (convPort d (.text port)).map (fun q => (some host, q))
    | _ => .error .valueError
  else (convPort d .dflt).map (fun q => (some a, q))             -- 0: name/IPv4, >1: bare IPv6

/-- parse_host_port (netutils.py:64-84); `address = none` is Python's `None` -/
def parseHostPort (address : Option (List Char)) (d : DefPort) :
    Except Err (Option (List Char) × Option Int) :=
  match address with
  | none => .ok (none, none)
  | some [] => .ok (none, none)                                  -- `if not address`
  | some (c :: rest) =>
    if c = '[' then parseBracketed rest d else parseUnbracketed (c :: rest) d

/-! ### urlsplit wrapper -/

structure Split5 where
  scheme : List Char
  netloc : List Char
  path : List Char
  query : List Char
  fragment : List Char
  deriving DecidableEq, Repr

/-- the two fix-ups applied to the standard library's result (netutils.py:539-545) -/
def urlsplitFix (allowFragments : Bool) (r : Split5) : Split5 :=
  let r1 := if allowFragments && r.path.contains '#'
    then { r with path := (split1 '#' r.path).1, fragment := (split1 '#' r.path).2 } else r
  if r1.path.contains '?'
    then { r1 with path := (split1 '?' r1.path).1, query := (split1 '?' r1.path).2 } else r1

/-! ### params() -/

/-- a value of the returned dict: a single string or a list of strings -/
inductive PVal
  | one (v : List Char) | many (vs : List (List Char))
  deriving DecidableEq, Repr

/-- a Python dict as an insertion-ordered association list with distinct keys -/
def dictGet {β} : List (List Char × β) → List Char → Option β
  | [], _ => none
  | (k', v) :: d, k => if k' = k then some v else dictGet d k

/-- `d[k] = v` -/
def dictSet {β} : List (List Char × β) → List Char → β → List (List Char × β)
  | [], k, v => [(k, v)]
  | (k', v') :: d, k, v => if k' = k then (k', v) :: d else (k', v') :: dictSet d k v

/-- `dict(parse_qsl(query))` -/
def paramsCollapse (qsl : List (List Char × List Char)) : List (List Char × List Char) :=
  qsl.foldl (fun d kv => dictSet d kv.1 kv.2) []

/-- one iteration of the `collapse=False` loop (netutils.py:516-523) -/
def allStep (d : List (List Char × PVal)) (kv : List Char × List Char) : List (List Char × PVal) :=
  match dictGet d kv.1 with
  | some (.many vs) => dictSet d kv.1 (.many (vs ++ [kv.2]))
  | some (.one x) => dictSet d kv.1 (.many [x, kv.2])
  | none => dictSet d kv.1 (.one kv.2)

def paramsAll (qsl : List (List Char × List Char)) : List (List Char × PVal) :=
  qsl.foldl allStep []

/-- params(collapse) given `self.query` and `parse_qsl(self.query)` -/
def params (query : List Char) (qsl : List (List Char × List Char)) (collapse : Bool) :
    List (List Char × PVal) :=
  if query = [] then []
  else if collapse then (paramsCollapse qsl).map (fun kv => (kv.1, .one kv.2))
  else paramsAll qsl

end Oslo.HostPort
