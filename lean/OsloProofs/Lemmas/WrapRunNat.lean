/-
`formats` / `format` of a *closed* (finished) wrapper commute with any map of the inspectors that
preserves the name and the `format_match` answer: the answer of a closed wrapper is a function of
the list of (name, format_match) pairs of its inspectors, and whatever else the map keeps of the
chosen inspector is carried along.  Generic in the inspectors.  Used by Props/C01Wrap.lean.
-/
import OsloModel.Wrapper
namespace Oslo.Insp

variable {σ τ : Type}

/-- map under `Except Err` -/
def exMap {α β : Type} (f : α → β) : Except Err α → Except Err β
  | .ok a => .ok (f a)
  | .error e => .error e

theorem lemma_matchList_nat (ops : IOps σ) (ops' : IOps τ) (g : σ → τ)
    (hf : ∀ i, ops'.fmatch (g i) = ops.fmatch i) :
    ∀ (l : List σ), matchList ops' (l.map g) = exMap (List.map g) (matchList ops l) := by
  intro l
  induction l with
  | nil => rfl
  | cons a l ih =>
    simp only [List.map_cons, matchList, hf, ih]
    cases ops.fmatch a with
    | error e => rfl
    | ok b =>
      cases matchList ops l with
      | error e => rfl
      | ok r => cases b <;> rfl

theorem lemma_filter_nat (ops : IOps σ) (ops' : IOps τ) (g : σ → τ)
    (hn : ∀ i, ops'.name (g i) = ops.name i) (p : String → Bool) (l : List σ) :
    (l.map g).filter (fun t => p (ops'.name t)) = (l.filter (fun i => p (ops.name i))).map g := by
  rw [List.filter_map]
  congr 2
  funext i
  simp [Function.comp, hn]

/-- `formats` of a closed wrapper commutes with a map that keeps name and `format_match` -/
theorem lemma_formats_nat (ops : IOps σ) (ops' : IOps τ) (g : σ → τ)
    (hn : ∀ i, ops'.name (g i) = ops.name i) (hf : ∀ i, ops'.fmatch (g i) = ops.fmatch i)
    (w : Wrap σ) (w' : Wrap τ) (hi : w'.insps = w.insps.map g)
    (hfin : w.finished = true) (hfin' : w'.finished = true) :
    w'.formats ops' = exMap (Option.map (List.map g)) (w.formats ops) := by
  unfold Wrap.formats
  simp only [bind, Except.bind, hi, hfin, hfin']
  rw [lemma_filter_nat ops ops' g hn (fun n => n != "raw"), lemma_filter_nat ops ops' g hn (fun n => n == "raw"),
    lemma_matchList_nat ops ops' g hf]
  cases matchList ops (w.insps.filter (fun i => ops.name i != "raw")) with
  | error e => rfl
  | ok ms =>
    cases ms with
    | nil => simp [exMap, pure, Except.pure]
    | cons a r => simp [exMap, pure, Except.pure]

/-- `format` of a closed wrapper commutes with a map that keeps name and `format_match` -/
theorem lemma_format_nat (ops : IOps σ) (ops' : IOps τ) (g : σ → τ)
    (hn : ∀ i, ops'.name (g i) = ops.name i) (hf : ∀ i, ops'.fmatch (g i) = ops.fmatch i)
    (w : Wrap σ) (w' : Wrap τ) (hi : w'.insps = w.insps.map g)
    (hfin : w.finished = true) (hfin' : w'.finished = true) :
    w'.format ops' = exMap (Option.map g) (w.format ops) := by
  unfold Wrap.format
  rw [lemma_formats_nat ops ops' g hn hf w w' hi hfin hfin']
  cases w.formats ops with
  | error e => rfl
  | ok o =>
    cases o with
    | none => rfl
    | some l =>
      cases l with
      | nil => rfl
      | cons a r =>
        cases r with
        | nil => rfl
        | cons b r => rfl

theorem lemma_exMap_exMap {α β γ : Type} (f : α → β) (g : β → γ) (r : Except Err α) :
    exMap g (exMap f r) = exMap (g ∘ f) r := by
  cases r <;> rfl

end Oslo.Insp
