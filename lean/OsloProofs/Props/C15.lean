import OsloModel.Eui64
import OsloModel.HostPort
namespace Oslo.C15
end Oslo.C15
