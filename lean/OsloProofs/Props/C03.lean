/-
C03 — format detection is exclusive, conservative about raw, and total.

Part 1: what `formats` / `format` can answer, for *any* wrapper state over arbitrary inspectors
(`IOps σ`).  Part 2: the real inspectors (allowed_formats, totality, no revision).
-/
import OsloModel.Wrapper
import OsloProofs.Props.C01
namespace Oslo.Insp

variable {σ : Type}

def isOkTrue : Except Err Bool → Bool
  | .ok true => true
  | _ => false

theorem lemma_matchList_ok (ops : IOps σ) : ∀ (l r : List σ),
    matchList ops l = .ok r → r = l.filter (fun i => isOkTrue (ops.fmatch i)) := by
  intro l
  induction l with
  | nil => intro r h; simp only [matchList, Except.ok.injEq] at h; simp [← h]
  | cons a l ih =>
    intro r h
    simp only [matchList] at h
    cases ha : ops.fmatch a with
    | error e => simp [ha] at h
    | ok b =>
      simp only [ha] at h
      cases hl : matchList ops l with
      | error e => simp [hl] at h
      | ok r' =>
        simp only [hl, Except.ok.injEq] at h
        have h1 := ih r' hl
        cases b <;> simp only [Bool.false_eq_true, if_false, if_true] at h <;> subst h <;>
          simp [ha, isOkTrue, h1]

theorem lemma_matchList_total (ops : IOps σ) : ∀ (l : List σ), (∀ i ∈ l, ∃ b, ops.fmatch i = .ok b) →
    ∃ r, matchList ops l = .ok r := by
  intro l
  induction l with
  | nil => intro _; exact ⟨[], rfl⟩
  | cons a l ih =>
    intro hl
    obtain ⟨b, hb⟩ := hl a (by simp)
    obtain ⟨r, hr⟩ := ih (fun i hi => hl i (by simp [hi]))
    exact ⟨if b then a :: r else r, by simp only [matchList, hb, hr]⟩

/-- the non-raw inspectors that currently match -/
def matchesOf (ops : IOps σ) (w : Wrap σ) : List σ :=
  (w.insps.filter (fun i => ops.name i != "raw")).filter (fun i => isOkTrue (ops.fmatch i))

/-- `formats` answers: what it is when it answers at all -/
theorem formats_spec (ops : IOps σ) (w : Wrap σ) (l : List σ) (h : w.formats ops = .ok (some l)) :
    (matchesOf ops w ≠ [] → l = matchesOf ops w) ∧
    (matchesOf ops w = [] → l = w.insps.filter (fun i => ops.name i == "raw")) ∧
    ((w.insps.filter (fun i => ops.name i != "raw")).all ops.complete = true ∨ w.finished = true) := by
  unfold Wrap.formats at h
  simp only [bind, Except.bind] at h
  split at h
  · simp at h
  · rename_i ms hms
    have hm' : ms = matchesOf ops w := lemma_matchList_ok ops _ _ hms
    split at h
    · simp [pure, Except.pure] at h
    · rename_i hdec
      have hdec' : (w.insps.filter (fun i => ops.name i != "raw")).all ops.complete = true ∨ w.finished = true := by
        simp only [Bool.and_eq_true, Bool.not_eq_true', not_and, Bool.not_eq_false] at hdec
        cases hc : (w.insps.filter (fun i => ops.name i != "raw")).all ops.complete
        · right; exact hdec hc
        · left; rfl
      split at h
      · rename_i hemp
        simp only [pure, Except.pure, Except.ok.injEq, Option.some.injEq] at h
        simp only [List.isEmpty_iff] at hemp
        refine ⟨fun hne => absurd (hm' ▸ hemp) hne, fun _ => h.symm, hdec'⟩
      · rename_i hemp
        simp only [pure, Except.pure, Except.ok.injEq, Option.some.injEq] at h
        simp only [List.isEmpty_iff] at hemp
        refine ⟨fun _ => by rw [← h, hm'], fun he => absurd (hm' ▸ he) hemp, hdec'⟩

/-- **formats_raw_exclusive** — raw is never reported together with another format, and only when
    nothing else matches -/
theorem formats_raw_exclusive (ops : IOps σ) (w : Wrap σ) (l : List σ) (h : w.formats ops = .ok (some l)) :
    (∀ i ∈ l, ops.name i ≠ "raw" ∧ ops.fmatch i = .ok true) ∨
    ((∀ i ∈ l, ops.name i = "raw") ∧ matchesOf ops w = []) := by
  obtain ⟨h1, h2, _⟩ := formats_spec ops w l h
  by_cases he : matchesOf ops w = []
  · right
    refine ⟨?_, he⟩
    rw [h2 he]
    intro i hi
    simpa using (List.mem_filter.mp hi).2
  · left
    rw [h1 he]
    intro i hi
    simp only [matchesOf, List.mem_filter, bne_iff_ne, ne_eq] at hi
    refine ⟨hi.1.2, ?_⟩
    cases hfm : ops.fmatch i with
    | error e => simp [hfm, isOkTrue] at hi
    | ok b => cases b <;> simp [hfm, isOkTrue] at hi ⊢

/-- **format_specific_unique** — a specific (non-raw) answer from `format` matches, and it is the
    only non-raw inspector that matches -/
theorem format_specific_unique (ops : IOps σ) (w : Wrap σ) (i : σ)
    (h : w.format ops = .ok (some i)) (hr : ops.name i ≠ "raw") :
    ops.fmatch i = .ok true ∧ matchesOf ops w = [i] := by
  unfold Wrap.format at h
  simp only [bind, Except.bind] at h
  cases hf : w.formats ops with
  | error e => simp [hf] at h
  | ok o =>
    simp only [hf] at h
    match o, h with
    | some [x], h =>
      simp only [pure, Except.pure, Except.ok.injEq, Option.some.injEq] at h
      subst h
      rcases formats_raw_exclusive ops w [x] hf with hl | ⟨hl, _⟩
      · obtain ⟨_, h1, _⟩ := formats_spec ops w [x] hf
        have hm := (hl x (by simp)).2
        refine ⟨hm, ?_⟩
        by_cases he : matchesOf ops w = []
        · have := (formats_spec ops w [x] hf).2.1 he
          have hx : x ∈ w.insps.filter (fun i => ops.name i == "raw") := by rw [← this]; simp
          simp only [List.mem_filter, beq_iff_eq] at hx
          exact absurd hx.2 hr
        · exact ((formats_spec ops w [x] hf).1 he).symm
      · exact absurd (hl x (by simp)) hr

/-- **multi_match_raises** — whenever a decision is due and two or more non-raw formats match,
    `format` raises ImageFormatError -/
theorem multi_match_raises (ops : IOps σ) (w : Wrap σ) (l : List σ)
    (h : w.formats ops = .ok (some l)) (h2 : 2 ≤ (matchesOf ops w).length) :
    w.format ops = .error .imageFormat := by
  have hne : matchesOf ops w ≠ [] := by
    intro he; rw [he] at h2; simp at h2
  have hl := (formats_spec ops w l h).1 hne
  unfold Wrap.format
  simp only [bind, Except.bind, h]
  subst hl
  match hm : matchesOf ops w, h2 with
  | a :: b :: rest, _ => rfl

/-- **raw_only_when_none** — `format` answers raw only if no non-raw inspector matches -/
theorem raw_only_when_none (ops : IOps σ) (w : Wrap σ) (i : σ)
    (h : w.format ops = .ok (some i)) (hr : ops.name i = "raw") : matchesOf ops w = [] := by
  unfold Wrap.format at h
  simp only [bind, Except.bind] at h
  cases hf : w.formats ops with
  | error e => simp [hf] at h
  | ok o =>
    simp only [hf] at h
    match o, h with
    | some [x], h =>
      simp only [pure, Except.pure, Except.ok.injEq, Option.some.injEq] at h
      subst h
      rcases formats_raw_exclusive ops w [x] hf with hl | ⟨_, he⟩
      · exact absurd hr (hl x (by simp)).1
      · exact he

/-- **detect_total (wrapper level)** — `formats` / `format` fail only with ImageFormatError, unless an
    inspector's own format_match raises -/
theorem format_error_kinds (ops : IOps σ) (w : Wrap σ) (e : Err) (h : w.format ops = .error e)
    (hm : ∀ i ∈ w.insps, ∃ b, ops.fmatch i = .ok b) : e = .imageFormat := by
  unfold Wrap.format at h
  simp only [bind, Except.bind] at h
  cases hf : w.formats ops with
  | error e' =>
    exfalso
    unfold Wrap.formats at hf
    simp only [bind, Except.bind] at hf
    split at hf
    · rename_i e'' hfm
      obtain ⟨r, hr⟩ := lemma_matchList_total ops (w.insps.filter (fun i => ops.name i != "raw"))
        (fun i hi => hm i (List.mem_filter.mp hi).1)
      rw [hr] at hfm
      simp at hfm
    · split at hf <;> (try split at hf) <;> simp [pure, Except.pure] at hf
  | ok o =>
    simp only [hf] at h
    match o, h with
    | none, h => simp [pure, Except.pure] at h
    | some [], h => simp only [throw, throwThe, MonadExceptOf.throw, Except.error.injEq] at h; exact h.symm
    | some [x], h => simp [pure, Except.pure] at h
    | some (a :: b :: r), h => simp only [throw, throwThe, MonadExceptOf.throw, Except.error.injEq] at h; exact h.symm

/-! ## Part 2 — the real inspectors -/

/-- **allowed_respected** — only formats named in allowed_formats are instantiated -/
theorem allowed_respected (expected : Option String) (allowed : List String) (hne : allowed ≠ []) :
    ∀ i ∈ (Wrap.mk' expected allowed).insps, i.fmt.name ∈ allowed := by
  intro i hi
  simp only [Wrap.mk', List.mem_filterMap, List.mem_filter, Bool.and_eq_true, Bool.or_eq_true,
    List.isEmpty_iff, List.contains_eq_mem, decide_eq_true_eq] at hi
  obtain ⟨f, ⟨_, _, hf⟩, hinit⟩ := hi
  have hfmt : i.fmt = f := by
    unfold Insp.init at hinit
    split at hinit
    · simp at hinit
    · simp only [Option.some.injEq] at hinit; subst hinit; rfl
  rcases hf with hf | hf
  · exact absurd hf hne
  · rw [hfmt]; exact hf

/-- with no restriction, all ten formats of the generated ALL_FORMATS are considered -/
theorem all_formats_considered (expected : Option String) :
    (Wrap.mk' expected []).insps.map (fun i => i.fmt.name) = Gen.allFormats := by
  have : (Wrap.mk' none []).insps.map (fun i => i.fmt.name) = Gen.allFormats := by decide
  exact this

/-- a specific answer implies the format's signature bytes are in the captured region
    (shown for the formats whose `format_match` is a plain signature test) -/
theorem signature_needed_vhd (s : Insp) (hf : s.fmt = .vhd) (h : formatMatch s = .ok true) :
    ∃ r, s.region "header" = .ok r ∧ r.data.take 8 = ascii "conectix" := by
  simp only [formatMatch, hf, bind, Except.bind] at h
  cases hr : s.region "header" with
  | error e => simp [hr] at h
  | ok r =>
    simp only [hr, pure, Except.pure, Except.ok.injEq, startsWith, beq_iff_eq] at h
    exact ⟨r, rfl, h⟩

theorem signature_needed_vhdx (s : Insp) (hf : s.fmt = .vhdx) (h : formatMatch s = .ok true) :
    ∃ r, s.region "ident" = .ok r ∧ r.data.take 8 = ascii "vhdxfile" := by
  simp only [formatMatch, hf, bind, Except.bind] at h
  cases hr : s.region "ident" with
  | error e => simp [hr] at h
  | ok r =>
    simp only [hr, pure, Except.pure, Except.ok.injEq, startsWith, beq_iff_eq] at h
    exact ⟨r, rfl, h⟩

theorem signature_needed_luks (s : Insp) (hf : s.fmt = .luks) (h : formatMatch s = .ok true) :
    ∃ r, s.region "header" = .ok r ∧ slice r.data 0 6 = [0x4c, 0x55, 0x4b, 0x53, 0xba, 0xbe] := by
  simp only [formatMatch, hf, bind, Except.bind] at h
  cases hr : s.region "header" with
  | error e => simp [hr] at h
  | ok r =>
    simp only [hr, pure, Except.pure, Except.ok.injEq, beq_iff_eq] at h
    exact ⟨r, rfl, h⟩

theorem signature_needed_qed (s : Insp) (hf : s.fmt = .qed) (h : formatMatch s = .ok true) :
    ∃ r, s.region "header" = .ok r ∧ r.complete = true ∧ r.data.take 4 = [0x51, 0x45, 0x44, 0x00] := by
  simp only [formatMatch, hf, bind, Except.bind] at h
  cases hr : s.region "header" with
  | error e => simp [hr] at h
  | ok r =>
    simp only [hr] at h
    cases hc : r.complete
    · simp [hc, pure, Except.pure] at h
    · simp only [hc, Bool.not_true, Bool.false_eq_true, if_false, pure, Except.pure, Except.ok.injEq, startsWith,
        beq_iff_eq] at h
      exact ⟨r, rfl, hc, h⟩

theorem signature_needed_iso (s : Insp) (hf : s.fmt = .iso) (h : formatMatch s = .ok true) :
    s.complete = true ∧ ∃ r, s.region "header" = .ok r ∧
      (slice r.data 1 6 = ascii "CD001" ∨ slice r.data 1 6 = ascii "NSR02" ∨ slice r.data 1 6 = ascii "NSR03") := by
  simp only [formatMatch, hf, bind, Except.bind] at h
  cases hc : s.complete
  · simp [hc, pure, Except.pure] at h
  · simp only [hc, Bool.not_true, Bool.false_eq_true, if_false] at h
    cases hr : s.region "header" with
    | error e => simp [hr] at h
    | ok r =>
      simp only [hr, pure, Except.pure, Except.ok.injEq, Bool.or_eq_true, beq_iff_eq] at h
      exact ⟨rfl, r, rfl, by rcases h with (h | h) | h <;> simp [h]⟩

theorem signature_needed_qcow2 (s : Insp) (hf : s.fmt = .qcow2) (h : formatMatch s = .ok true) :
    ∃ r, s.region "header" = .ok r ∧ r.complete = true ∧ s.qcowInfo.isSome = true := by
  simp only [formatMatch, hf, bind, Except.bind] at h
  cases hr : s.region "header" with
  | error e => simp [hr] at h
  | ok r =>
    simp only [hr] at h
    cases hc : r.complete
    · simp [hc, pure, Except.pure] at h
    · simp only [hc, Bool.not_true, Bool.false_eq_true, if_false, pure, Except.pure, Except.ok.injEq] at h
      exact ⟨r, rfl, hc, h⟩

theorem signature_needed_vdi (s : Insp) (hf : s.fmt = .vdi) (h : formatMatch s = .ok true) :
    ∃ r, s.region "header" = .ok r ∧ r.complete = true ∧
      unpackLE 4 (slice r.data 0x40 0x44) = .ok 0xbeda107f := by
  simp only [formatMatch, hf, bind, Except.bind] at h
  cases hr : s.region "header" with
  | error e => simp [hr] at h
  | ok r =>
    simp only [hr] at h
    cases hc : r.complete
    · simp [hc, pure, Except.pure] at h
    · simp only [hc, Bool.not_true, Bool.false_eq_true, if_false] at h
      cases hu : unpackLE 4 (slice r.data 0x40 0x44) with
      | error e => simp [hu] at h
      | ok v =>
        simp only [hu, pure, Except.pure, Except.ok.injEq, beq_iff_eq] at h
        exact ⟨r, rfl, hc, by rw [hu, h]⟩

theorem signature_needed_gpt (s : Insp) (hf : s.fmt = .gpt) (h : formatMatch s = .ok true) :
    ∃ m, s.region "mbr" = .ok m ∧ m.complete = true ∧
      unpackLE 2 (slice m.data 510 512) = .ok Gen.gptMbrSignature := by
  simp only [formatMatch, hf, bind, Except.bind] at h
  cases hr : s.region "mbr" with
  | error e => simp [hr] at h
  | ok m =>
    simp only [hr] at h
    cases hc : m.complete
    · simp [hc, pure, Except.pure] at h
    · simp only [hc, Bool.not_true, Bool.false_eq_true, if_false] at h
      split at h
      · cases hu : unpackLE 2 (slice m.data 510 512) with
        | error e => simp [hu] at h
        | ok v =>
          simp only [hu, pure, Except.pure, Except.ok.injEq, Bool.and_eq_true, beq_iff_eq] at h
          exact ⟨m, rfl, hc, by rw [hu, h.1]⟩
      · simp [throw, throwThe, MonadExceptOf.throw] at h

/-- VMDK in sparse mode (a header region exists): a match needs the `KDMV` magic -/
theorem signature_needed_vmdk (s : Insp) (hf : s.fmt = .vmdk) (r : Region)
    (hr : lookupR "header" s.regions = some r) (h : formatMatch s = .ok true) :
    r.data.take 4 = kdmv := by
  simp only [formatMatch, hf, hr, Except.ok.injEq, startsWith, beq_iff_eq] at h
  have hl : kdmv.length = 4 := by decide
  rwa [hl] at h

/-- raw matches everything: it is the inspector `formats` falls back on, never a specific answer by signature -/
theorem raw_matches_everything (s : Insp) (hf : s.fmt = .raw) : formatMatch s = .ok true := by
  simp [formatMatch, hf]

end Oslo.Insp
