/-
Helper lemmas for C14 (not property theorems): list stripping, the digit parser on plain digit
strings, round trips render/parse in base 10 and 16.
-/
import OsloModel.Scalars
namespace Oslo.Scalars

/-! ### lists -/

theorem lemma_dropWhile_all {α} (p : α → Bool) (l m : List α) (h : ∀ x ∈ l, p x = true) :
    (l ++ m).dropWhile p = m.dropWhile p := by
  induction l with
  | nil => rfl
  | cons a l ih =>
    have ha : p a = true := h a (by simp)
    simp only [List.cons_append, List.dropWhile_cons, ha, if_true]
    exact ih (fun x hx => h x (by simp [hx]))

theorem lemma_dropWhile_none {α} (p : α → Bool) (l : List α) (h : ∀ x ∈ l, p x = false) :
    l.dropWhile p = l := by
  cases l with
  | nil => rfl
  | cons a l => simp [h a (by simp)]

theorem lemma_takeWhile_all {α} (p : α → Bool) (l : List α) (h : ∀ x ∈ l, p x = true) :
    l.takeWhile p = l := by
  induction l with
  | nil => rfl
  | cons a l ih =>
    simp only [List.takeWhile_cons, h a (by simp), if_true]
    rw [ih (fun x hx => h x (by simp [hx]))]

theorem lemma_dropWhile_all_nil {α} (p : α → Bool) (l : List α) (h : ∀ x ∈ l, p x = true) :
    l.dropWhile p = [] := by
  simpa using lemma_dropWhile_all p l [] h

/-- stripping `l ++ m ++ r` where `l`, `r` consist of stripped characters and `m` contains none -/
theorem lemma_strip_pad (p : Char → Bool) (l m r : List Char)
    (hl : ∀ x ∈ l, p x = true) (hr : ∀ x ∈ r, p x = true) (hm : ∀ x ∈ m, p x = false) :
    stripChars p (l ++ m ++ r) = m := by
  unfold stripChars
  rw [List.append_assoc, lemma_dropWhile_all p l _ hl]
  cases m with
  | nil =>
    have := lemma_dropWhile_all p r [] hr
    simp only [List.append_nil, List.dropWhile_nil] at this
    simp [this]
  | cons a m =>
    have h1 : ((a :: m) ++ r).dropWhile p = (a :: m) ++ r := by
      simp [hm a (by simp)]
    rw [h1, List.reverse_append,
      lemma_dropWhile_all p r.reverse _ (fun x hx => hr x (List.mem_reverse.mp hx)),
      lemma_dropWhile_none p _ (fun x hx => hm x (List.mem_reverse.mp hx)), List.reverse_reverse]

theorem lemma_strip_none (p : Char → Bool) (m : List Char) (hm : ∀ x ∈ m, p x = false) :
    stripChars p m = m := by
  simpa using lemma_strip_pad p [] m [] (by simp) (by simp) hm

/-! ### the integer parser on plain digit strings -/

theorem lemma_digit_range (base : Nat) (c : Char) (h : isDigitIn base c = true) :
    (48 ≤ c.toNat ∧ c.toNat ≤ 57) ∨ (97 ≤ c.toNat ∧ c.toNat ≤ 122) ∨ (65 ≤ c.toNat ∧ c.toNat ≤ 90) := by
  by_cases h1 : 48 ≤ c.toNat ∧ c.toNat ≤ 57
  · exact Or.inl h1
  by_cases h2 : 97 ≤ c.toNat ∧ c.toNat ≤ 122
  · exact Or.inr (Or.inl h2)
  by_cases h3 : 65 ≤ c.toNat ∧ c.toNat ≤ 90
  · exact Or.inr (Or.inr h3)
  simp [isDigitIn, digitVal, h1, h2, h3] at h

theorem lemma_digit_facts (base : Nat) (c : Char) (h : isDigitIn base c = true) :
    c.toNat < 127 ∧ isIntSpace c = false ∧ c ≠ '-' ∧ c ≠ '+' ∧ c ≠ '_' ∧ isBodyChar base c = true := by
  have hr := lemma_digit_range base c h
  refine ⟨by omega, ?_, ?_, ?_, ?_, by simp [isBodyChar, h]⟩
  · simp [isIntSpace]; omega
  · intro hc; rw [hc] at hr; simp at hr
  · intro hc; rw [hc] at hr; simp at hr
  · intro hc; rw [hc] at hr; simp at hr

theorem lemma_intAscii_id (l : List Char) (h : ∀ c ∈ l, c.toNat < 127) : l.map intAscii = l := by
  induction l with
  | nil => rfl
  | cons a l ih =>
    have ha : a.toNat < 127 := h a (by simp)
    simp only [List.map_cons, intAscii, ha, if_true]
    rw [ih (fun c hc => h c (by simp [hc]))]

theorem lemma_noDouble (l : List Char) (h : '_' ∉ l) : hasDoubleUnderscore l = false := by
  induction l with
  | nil => rfl
  | cons a l ih =>
    cases l with
    | nil => rfl
    | cons b l =>
      have ha : a ≠ '_' := fun e => h (by simp [e])
      have := ih (fun hm => h (by simp [hm]))
      simp [hasDoubleUnderscore, ha, this]

theorem lemma_bodyOk (l : List Char) (hne : l ≠ []) (h : '_' ∉ l) : bodyOk l = true := by
  have h1 : l.head? ≠ some '_' := fun e => h (List.mem_of_head? e)
  have h2 : l.getLast? ≠ some '_' := fun e => h (List.mem_of_getLast? e)
  simp [bodyOk, hne, h1, h2, lemma_noDouble l h]

/-- `int(sign ++ ds, base)` for a non-empty run of digits of the base without prefix -/
theorem lemma_parse_digits (base : Nat) (neg : Bool) (ds : List Char) (hne : ds ≠ [])
    (hd : ∀ c ∈ ds, isDigitIn base c = true)
    (hpre : base = 16 → skipHexPrefix ds = ds) :
    pyIntParse base ((if neg then ['-'] else []) ++ ds)
      = if base = 10 ∧ overLimit ds.length = true then none
        else some (if neg then -(Int.ofNat (bodyValue base ds)) else Int.ofNat (bodyValue base ds)) := by
  obtain ⟨d, ds', rfl⟩ : ∃ d ds', ds = d :: ds' := by
    cases ds with
    | nil => exact absurd rfl hne
    | cons d ds' => exact ⟨d, ds', rfl⟩
  have hf := fun c hc => lemma_digit_facts base c (hd c hc)
  have hdf := hf d (by simp)
  have hus : '_' ∉ (d :: ds') := fun hm => (hf _ hm).2.2.2.2.1 rfl
  have hascii : ∀ c ∈ (if neg then ['-'] else []) ++ (d :: ds'), c.toNat < 127 := by
    intro c hc
    cases neg
    · exact (hf c (by simpa using hc)).1
    · simp at hc
      rcases hc with rfl | hc
      · decide
      · exact (hf c (by simpa using hc)).1
  have htw : (d :: ds').takeWhile (isBodyChar base) = d :: ds' :=
    lemma_takeWhile_all _ _ (fun c hc => (hf c hc).2.2.2.2.2)
  have hdw : (d :: ds').dropWhile (isBodyChar base) = [] :=
    lemma_dropWhile_all_nil _ _ (fun c hc => (hf c hc).2.2.2.2.2)
  have hcount : digitCount (d :: ds') = (d :: ds').length := by
    unfold digitCount
    rw [List.filter_eq_self.mpr]
    intro c hc
    have : c ≠ '_' := fun e => hus (e ▸ hc)
    simpa using this
  have hs3 : (if base = 16 then skipHexPrefix (d :: ds') else d :: ds') = d :: ds' := by
    split
    · exact hpre ‹_›
    · rfl
  unfold pyIntParse pyIntParseAscii
  rw [lemma_intAscii_id _ hascii]
  cases neg
  · have e1 : (([] : List Char) ++ d :: ds').dropWhile isIntSpace = d :: ds' := by
      simp [hdf.2.1]
    have e2 : skipSign (d :: ds') = d :: ds' := by simp [skipSign, hdf.2.2.1, hdf.2.2.2.1]
    have e3 : ((d :: ds').head? == some '-') = false := by simp [hdf.2.2.1]
    simp only [Bool.false_eq_true, if_false, e1, e2, e3, hs3, htw, hdw, hcount,
      lemma_bodyOk _ hne hus, List.all_nil, Bool.not_true]
    try simp
  · have e1 : (['-'] ++ d :: ds').dropWhile isIntSpace = '-' :: d :: ds' := by
      simp [isIntSpace]
    have e2 : skipSign ('-' :: d :: ds') = d :: ds' := by simp [skipSign]
    simp only [if_true, e1, e2, hs3, htw, hdw, hcount,
      lemma_bodyOk _ hne hus, List.all_nil, Bool.not_true]
    try simp

/-! ### base 10: `int(str(n)) = n` -/

theorem lemma_isDigit_range (c : Char) (h : c.isDigit = true) : 48 ≤ c.toNat ∧ c.toNat ≤ 57 := by
  simpa using Char.isDigit_iff_toNat.mp h

theorem lemma_toDigits_digit (m : Nat) (c : Char) (h : c ∈ Nat.toDigits 10 m) :
    isDigitIn 10 c = true ∧ digitVal c = some (c.toNat - 48) := by
  have hr := lemma_isDigit_range c (Nat.isDigit_of_mem_toDigits (by decide) (by decide) h)
  simp only [isDigitIn, digitVal, hr, and_self, if_true, decide_eq_true_eq]
  exact ⟨by omega, trivial⟩

theorem lemma_foldl_digits (l : List Char) (h : ∀ c ∈ l, digitVal c = some (c.toNat - 48)) (acc : Nat) :
    l.foldl (bodyStep 10) acc = Nat.ofDigitChars 10 l acc := by
  induction l generalizing acc with
  | nil => simp [Nat.ofDigitChars]
  | cons a l ih =>
    rw [List.foldl_cons, Nat.ofDigitChars_cons, ih (fun c hc => h c (by simp [hc]))]
    simp only [bodyStep, h a (by simp)]
    rw [Nat.mul_comm]
    rfl

theorem lemma_bodyValue_toDigits (m : Nat) : bodyValue 10 (Nat.toDigits 10 m) = m := by
  unfold bodyValue
  rw [lemma_foldl_digits _ (fun c hc => (lemma_toDigits_digit m c hc).2)]
  exact Nat.ofDigitChars_ten_toDigits

theorem lemma_parse_nat (m : Nat) (neg : Bool) :
    pyIntParse 10 ((if neg then ['-'] else []) ++ Nat.toDigits 10 m)
      = if overLimit (Nat.toDigits 10 m).length = true then none
        else some (if neg then -(Int.ofNat m) else Int.ofNat m) := by
  have key := lemma_parse_digits 10 neg (Nat.toDigits 10 m) Nat.toDigits_ne_nil
    (fun c hc => (lemma_toDigits_digit _ c hc).1) (fun h => absurd h (by decide))
  rw [lemma_bodyValue_toDigits] at key
  simpa using key

theorem lemma_render_eq (n : Int) :
    render n = (if decide (n < 0) then ['-'] else []) ++ Nat.toDigits 10 n.natAbs := by
  unfold render
  by_cases hn : n < 0 <;> simp [hn]

theorem lemma_parse_render (n : Int) (h : overLimit (numDigits n) = false) :
    pyIntParse 10 (render n) = some n := by
  unfold numDigits at h
  rw [lemma_render_eq, lemma_parse_nat, if_neg (by simp [h])]
  by_cases hn : n < 0 <;> simp [hn] <;> omega

theorem lemma_parse_render_over (n : Int) (h : overLimit (numDigits n) = true) :
    pyIntParse 10 (render n) = none := by
  unfold numDigits at h
  rw [lemma_render_eq, lemma_parse_nat, if_pos h]

/-! ### `str.lower()` with the generated table -/

theorem lemma_table_nonascii : ∀ e ∈ Gen.lowerTable, 128 ≤ e.1 := by decide +kernel

theorem lemma_lowerChars_of_none (c : Char)
    (h : Gen.lowerTable.find? (fun e => e.1 == c.toNat) = none) : lowerChars c = [lowerChar c] := by
  unfold lowerChars; rw [h]

theorem lemma_lowerChars_ascii (c : Char) (h : c.toNat < 128) : lowerChars c = [lowerChar c] := by
  apply lemma_lowerChars_of_none
  rw [List.find?_eq_none]
  intro e he
  have := lemma_table_nonascii e he
  simp only [beq_iff_eq]
  omega

theorem lemma_pyLower_ascii (l : List Char) (h : ∀ c ∈ l, c.toNat < 128) :
    pyLower l = l.map lowerChar := by
  induction l with
  | nil => rfl
  | cons a l ih =>
    have := ih (fun c hc => h c (by simp [hc]))
    unfold pyLower at this ⊢
    rw [List.flatMap_cons, lemma_lowerChars_ascii a (h a (by simp)), this]
    rfl

/-- If every character of `pyLower u` lies in an alphabet `A` that no table entry lowers into, then
    no character of `u` is in the table: `u` is lowered character by character by `lowerChar`. -/
theorem lemma_pyLower_into (A : Char → Prop)
    (hT : ∀ e ∈ Gen.lowerTable, e.2 ≠ [] ∧ ∀ x ∈ e.2, ¬ A (Char.ofNat x))
    (u : List Char) (h : ∀ x ∈ pyLower u, A x) : pyLower u = u.map lowerChar := by
  induction u with
  | nil => rfl
  | cons c u ih =>
    have hcons : pyLower (c :: u) = lowerChars c ++ pyLower u := by
      unfold pyLower; rw [List.flatMap_cons]
    rw [hcons] at h ⊢
    have ih' := ih (fun x hx => h x (by simp [hx]))
    cases hf : Gen.lowerTable.find? (fun e => e.1 == c.toNat) with
    | none => rw [lemma_lowerChars_of_none c hf, ih']; rfl
    | some e =>
      exfalso
      have he := hT e (List.mem_of_find?_eq_some hf)
      have hl : lowerChars c = e.2.map Char.ofNat := by unfold lowerChars; rw [hf]
      cases h2 : e.2 with
      | nil => exact he.1 h2
      | cons x xs =>
        have hx : Char.ofNat x ∈ lowerChars c ++ pyLower u := by rw [hl, h2]; simp
        exact he.2 x (by rw [h2]; simp) (h _ hx)

/-! ### base 16 and the UUID rendering -/

def lowerHexChars : List Char :=
  ['0', '1', '2', '3', '4', '5', '6', '7', '8', '9', 'a', 'b', 'c', 'd', 'e', 'f']

theorem lemma_hex_char_facts : ∀ c ∈ hexChars,
    isDigitIn 16 c = true ∧ (digitVal c).map (fun d => Nat.digitChar (d % 16)) = some (lowerChar c)
    ∧ c ≠ 'x' ∧ c ≠ 'X' ∧ c ≠ 'u' ∧ isBrace c = false ∧ c ≠ '-' ∧ lowerChar c ∈ lowerHexChars
    ∧ c.toNat < 128 := by
  decide

theorem lemma_lowerHex_facts : ∀ c ∈ lowerHexChars, c ∈ hexChars ∧ c ≠ '-' ∧ lowerChar c = c := by
  decide

theorem lemma_digitChar_lowerHex : ∀ d, d < 16 → Nat.digitChar d ∈ lowerHexChars := by
  decide

theorem lemma_lower_hex_ascii : ∀ n, n < 128 → lowerChar (Char.ofNat n) ∈ lowerHexChars →
    Char.ofNat n ∈ hexChars := by
  decide

theorem lemma_lower_hex (c : Char) (h : lowerChar c ∈ lowerHexChars) : c ∈ hexChars := by
  by_cases hc : c.toNat < 128
  · have := lemma_lower_hex_ascii c.toNat hc
    rw [Char.ofNat_toNat] at this
    exact this h
  · have : lowerChar c = c := by
      unfold lowerChar
      rw [if_neg (by omega)]
    rw [this] at h
    exact (lemma_lowerHex_facts c h).1

theorem lemma_table_not_lowerHex :
    ∀ e ∈ Gen.lowerTable, e.2 ≠ [] ∧ ∀ x ∈ e.2, ¬ (Char.ofNat x ∈ lowerHexChars) := by decide +kernel

/-- a string whose `str.lower()` consists of lower-case hex digits is made of hex digits, and its
    lower-casing is character by character -/
theorem lemma_pyLower_hex (u : List Char) (h : ∀ x ∈ pyLower u, x ∈ lowerHexChars) :
    pyLower u = u.map lowerChar ∧ (pyLower u).length = u.length ∧ ∀ c ∈ u, c ∈ hexChars := by
  have e := lemma_pyLower_into (fun x => x ∈ lowerHexChars) lemma_table_not_lowerHex u h
  refine ⟨e, by rw [e, List.length_map], ?_⟩
  intro c hc
  apply lemma_lower_hex
  apply h
  rw [e]
  exact List.mem_map.mpr ⟨c, hc, rfl⟩

theorem lemma_hexFixed_length (w n : Nat) : (hexFixed w n).length = w := by
  induction w generalizing n with
  | zero => rfl
  | succ w ih => simp [hexFixed, ih]

theorem lemma_hexFixed_chars (w n : Nat) : ∀ c ∈ hexFixed w n, c ∈ lowerHexChars := by
  induction w generalizing n with
  | zero => intro c hc; simp [hexFixed] at hc
  | succ w ih =>
    intro c hc
    simp only [hexFixed, List.mem_append, List.mem_singleton] at hc
    rcases hc with hc | rfl
    · exact ih _ c hc
    · exact lemma_digitChar_lowerHex _ (Nat.mod_lt _ (by decide))

theorem lemma_bodyValue_snoc (base : Nat) (l : List Char) (c : Char) :
    bodyValue base (l ++ [c]) = bodyStep base (bodyValue base l) c := by
  simp [bodyValue, List.foldl_append]

/-- a string of hex digits denotes a value below `16^length` whose fixed-width lower-case
    rendering is the string lower-cased -/
theorem lemma_hex_value_rev (r : List Char) (h : ∀ c ∈ r, c ∈ hexChars) :
    bodyValue 16 r.reverse < 16 ^ r.length ∧
    hexFixed r.length (bodyValue 16 r.reverse) = r.reverse.map lowerChar := by
  induction r with
  | nil => simp [bodyValue, hexFixed]
  | cons c r ih =>
    obtain ⟨ih1, ih2⟩ := ih (fun x hx => h x (by simp [hx]))
    have hc := lemma_hex_char_facts c (h c (by simp))
    obtain ⟨d, hd⟩ : ∃ d, digitVal c = some d := by
      have := hc.1
      unfold isDigitIn at this
      cases hdv : digitVal c with
      | none => simp [hdv] at this
      | some d => exact ⟨d, rfl⟩
    have hd16 : d < 16 := by
      have := hc.1
      simpa [isDigitIn, hd] using this
    have hdc : Nat.digitChar d = lowerChar c := by
      have := hc.2.1
      simp only [hd, Option.map_some, Option.some.injEq] at this
      rwa [Nat.mod_eq_of_lt hd16] at this
    rw [List.reverse_cons, lemma_bodyValue_snoc, List.length_cons]
    simp only [bodyStep, hd]
    constructor
    · rw [Nat.pow_succ]; omega
    · have e1 : (bodyValue 16 r.reverse * 16 + d) / 16 = bodyValue 16 r.reverse := by omega
      have e2 : (bodyValue 16 r.reverse * 16 + d) % 16 = d := by omega
      simp only [hexFixed, e1, e2, ih2, hdc, List.map_append, List.map_cons, List.map_nil]

theorem lemma_hex_value (h : List Char) (hh : ∀ c ∈ h, c ∈ hexChars) :
    bodyValue 16 h < 16 ^ h.length ∧ hexFixed h.length (bodyValue 16 h) = pyLower h := by
  have := lemma_hex_value_rev h.reverse (fun c hc => hh c (List.mem_reverse.mp hc))
  rw [lemma_pyLower_ascii h (fun c hc => (lemma_hex_char_facts c (hh c hc)).2.2.2.2.2.2.2.2)]
  simpa using this

theorem lemma_skipHexPrefix_hex (h : List Char) (hh : ∀ c ∈ h, c ∈ hexChars) :
    skipHexPrefix h = h := by
  match h with
  | [] => rfl
  | [_] => rfl
  | a :: x :: r =>
    have hx := lemma_hex_char_facts x (hh x (by simp))
    simp [skipHexPrefix, hx.2.2.1, hx.2.2.2.1]

/-- `int(h, 16)` for a non-empty string of hex digits -/
theorem lemma_parse_hex (h : List Char) (hne : h ≠ []) (hh : ∀ c ∈ h, c ∈ hexChars) :
    pyIntParse 16 h = some (Int.ofNat (bodyValue 16 h)) := by
  have := lemma_parse_digits 16 false h hne (fun c hc => (lemma_hex_char_facts c (hh c hc)).1)
    (fun _ => lemma_skipHexPrefix_hex h hh)
  simpa using this

theorem lemma_removeHyphens_id (l : List Char) (h : '-' ∉ l) : removeHyphens l = l := by
  unfold removeHyphens
  rw [List.filter_eq_self]
  intro c hc
  have : c ≠ '-' := fun e => h (e ▸ hc)
  simpa using this

theorem lemma_pieces (h : List Char) :
    h.take 8 ++ ((h.drop 8).take 4 ++ ((h.drop 12).take 4 ++ ((h.drop 16).take 4 ++ h.drop 20))) = h := by
  have e1 : h.drop 12 = (h.drop 8).drop 4 := by simp
  have e2 : h.drop 16 = (h.drop 12).drop 4 := by simp
  have e3 : h.drop 20 = (h.drop 16).drop 4 := by simp
  rw [e3, List.take_append_drop, e2, List.take_append_drop, e1, List.take_append_drop,
    List.take_append_drop]

theorem lemma_removeHyphens_hyphenate (h : List Char) :
    removeHyphens (hyphenate h) = removeHyphens h := by
  have := congrArg removeHyphens (lemma_pieces h)
  unfold hyphenate
  simp only [removeHyphens, List.filter_append, List.filter_cons] at this ⊢
  simpa using this

/-! ### decoration removal -/

theorem lemma_removeUrn_id (l : List Char) (h : 'u' ∉ l) : removeUrn l = l := by
  induction l with
  | nil => rfl
  | cons a l ih =>
    have ha : a ≠ 'u' := fun e => h (by simp [e])
    have := ih (fun hm => h (by simp [hm]))
    unfold removeUrn
    split
    · rename_i heq; simp at heq; exact absurd heq.1 ha
    · rename_i heq; simp at heq; rw [← heq.1, ← heq.2, this]
    · rename_i heq; simp at heq

theorem lemma_removeUuid_id (l : List Char) (h : 'u' ∉ l) : removeUuid l = l := by
  induction l with
  | nil => rfl
  | cons a l ih =>
    have ha : a ≠ 'u' := fun e => h (by simp [e])
    have := ih (fun hm => h (by simp [hm]))
    unfold removeUuid
    split
    · rename_i heq; simp at heq; exact absurd heq.1 ha
    · rename_i heq; simp at heq; rw [← heq.1, ← heq.2, this]
    · rename_i heq; simp at heq

end Oslo.Scalars
