/-
Helper lemmas for C14: the base-10 parser accepts exactly
  whitespace* sign? body whitespace*      (body: digits and single inner underscores)
in both directions, stated with the model's own character predicates.
-/
import OsloModel.Scalars
import OsloProofs.Lemmas.C14
namespace Oslo.Scalars

theorem lemma_space_not_body (c : Char) (h : isIntSpace c = true) :
    isBodyChar 10 c = false ∧ c ≠ '-' ∧ c ≠ '+' := by
  have hr : (9 ≤ c.toNat ∧ c.toNat ≤ 13) ∨ c.toNat = 32 := by
    simpa [isIntSpace] using h
  refine ⟨?_, ?_, ?_⟩
  · cases hb : isBodyChar 10 c with
    | false => rfl
    | true =>
      simp only [isBodyChar, Bool.or_eq_true, beq_iff_eq] at hb
      rcases hb with hb | hb
      · have := lemma_digit_range 10 c hb; omega
      · rw [hb] at hr; simp at hr
  · intro e; rw [e] at hr; simp at hr
  · intro e; rw [e] at hr; simp at hr

theorem lemma_takeWhile_append {α} (p : α → Bool) (l m : List α)
    (hl : ∀ x ∈ l, p x = true) (hm : ∀ x ∈ m, p x = false) :
    (l ++ m).takeWhile p = l ∧ (l ++ m).dropWhile p = m := by
  induction l with
  | nil =>
    cases m with
    | nil => simp
    | cons a m => simp [hm a (by simp)]
  | cons a l ih =>
    have := ih (fun x hx => hl x (by simp [hx]))
    simp [hl a (by simp), this]

theorem lemma_bodyOk_head (body : List Char) (hok : bodyOk body = true)
    (hbody : ∀ c ∈ body, isBodyChar 10 c = true) :
    ∃ d b, body = d :: b ∧ isDigitIn 10 d = true := by
  cases body with
  | nil => simp [bodyOk] at hok
  | cons d b =>
    refine ⟨d, b, rfl, ?_⟩
    have h1 : d ≠ '_' := by
      intro e; subst e; simp [bodyOk] at hok
    have := hbody d (by simp)
    simpa [isBodyChar, h1] using this

theorem lemma_parse_literal (pre sign body post : List Char)
    (hpre : ∀ c ∈ pre, isIntSpace c = true) (hpost : ∀ c ∈ post, isIntSpace c = true)
    (hsign : sign = [] ∨ sign = ['+'] ∨ sign = ['-'])
    (hbody : ∀ c ∈ body, isBodyChar 10 c = true) (hok : bodyOk body = true) :
    pyIntParseAscii 10 (pre ++ sign ++ body ++ post) =
      if overLimit (digitCount body) = true then none
      else some (if sign = ['-'] then -(Int.ofNat (bodyValue 10 body)) else Int.ofNat (bodyValue 10 body)) := by
  obtain ⟨d, b, hbeq, hd⟩ := lemma_bodyOk_head body hok hbody
  have hdf := lemma_digit_facts 10 d hd
  have htd := lemma_takeWhile_append (isBodyChar 10) body post hbody
    (fun c hc => (lemma_space_not_body c (hpost c hc)).1)
  have hall : post.all isIntSpace = true := List.all_eq_true.mpr hpost
  have e0 : body ++ post = d :: (b ++ post) := by rw [hbeq]; rfl
  unfold pyIntParseAscii
  rw [List.append_assoc, List.append_assoc, lemma_dropWhile_all _ pre _ hpre]
  rcases hsign with rfl | rfl | rfl
  · have e1 : ([] ++ (body ++ post)).dropWhile isIntSpace = body ++ post := by
      rw [e0]; simp [hdf.2.1]
    have e2 : skipSign (body ++ post) = body ++ post := by
      rw [e0]; simp [skipSign, hdf.2.2.1, hdf.2.2.2.1]
    have e3 : ((body ++ post).head? == some '-') = false := by rw [e0]; simp [hdf.2.2.1]
    simp only [e1, e2, e3]
    simp [htd.1, htd.2, hok, hall]
  · have e1 : (['+'] ++ (body ++ post)).dropWhile isIntSpace = '+' :: (body ++ post) := by
      simp [isIntSpace]
    have e2 : skipSign ('+' :: (body ++ post)) = body ++ post := by simp [skipSign]
    have e3 : (('+' :: (body ++ post)).head? == some '-') = false := by
      rw [List.head?_cons]; decide
    simp only [e1, e2, e3]
    simp [htd.1, htd.2, hok, hall]
  · have e1 : (['-'] ++ (body ++ post)).dropWhile isIntSpace = '-' :: (body ++ post) := by
      simp [isIntSpace]
    have e2 : skipSign ('-' :: (body ++ post)) = body ++ post := by simp [skipSign]
    have e3 : (('-' :: (body ++ post)).head? == some '-') = true := by
      rw [List.head?_cons]; decide
    simp only [e1, e2, e3]
    simp [htd.1, htd.2, hok, hall]

theorem lemma_mem_takeWhile {α} (p : α → Bool) (l : List α) (x : α) (h : x ∈ l.takeWhile p) :
    p x = true := by
  induction l with
  | nil => simp at h
  | cons a l ih =>
    by_cases ha : p a = true
    · simp only [List.takeWhile_cons, ha, if_true, List.mem_cons] at h
      rcases h with rfl | h
      · exact ha
      · exact ih h
    · simp [List.takeWhile_cons, ha] at h

theorem lemma_skipSign_cases (s : List Char) :
    (∃ r, s = '-' :: r ∧ skipSign s = r ∧ (s.head? == some '-') = true) ∨
    (∃ r, s = '+' :: r ∧ skipSign s = r ∧ (s.head? == some '-') = false) ∨
    (skipSign s = s ∧ (s.head? == some '-') = false) := by
  cases s with
  | nil => right; right; simp [skipSign]
  | cons c r =>
    by_cases h1 : c = '-'
    · left; subst h1; exact ⟨r, rfl, by simp [skipSign], by simp⟩
    · by_cases h2 : c = '+'
      · right; left; subst h2; exact ⟨r, rfl, by simp [skipSign], by rw [List.head?_cons]; decide⟩
      · right; right; simp [skipSign, h1, h2]

theorem lemma_literal_of_parse (t : List Char) (n : Int) (h : pyIntParseAscii 10 t = some n) :
    ∃ pre sign body post, t = pre ++ sign ++ body ++ post ∧
      (∀ c ∈ pre, isIntSpace c = true) ∧ (∀ c ∈ post, isIntSpace c = true) ∧
      (sign = [] ∨ sign = ['+'] ∨ sign = ['-']) ∧
      (∀ c ∈ body, isBodyChar 10 c = true) ∧ bodyOk body = true ∧
      overLimit (digitCount body) = false ∧
      n = (if sign = ['-'] then -(Int.ofNat (bodyValue 10 body)) else Int.ofNat (bodyValue 10 body)) := by
  unfold pyIntParseAscii at h
  simp only [show ((10 : Nat) = 16) = False from by simp, if_false] at h
  have ht : t = t.takeWhile isIntSpace ++ t.dropWhile isIntSpace := List.takeWhile_append_dropWhile.symm
  have hpre : ∀ c ∈ t.takeWhile isIntSpace, isIntSpace c = true := fun c hc => lemma_mem_takeWhile _ _ c hc
  generalize t.takeWhile isIntSpace = pre at ht hpre
  generalize t.dropWhile isIntSpace = s1 at h ht
  have hs2 : skipSign s1 = (skipSign s1).takeWhile (isBodyChar 10) ++ (skipSign s1).dropWhile (isBodyChar 10) :=
    List.takeWhile_append_dropWhile.symm
  have hb : ∀ c ∈ (skipSign s1).takeWhile (isBodyChar 10), isBodyChar 10 c = true :=
    fun c hc => lemma_mem_takeWhile _ _ c hc
  generalize hbd : (skipSign s1).takeWhile (isBodyChar 10) = body at h hs2 hb
  generalize hps : (skipSign s1).dropWhile (isBodyChar 10) = post at h hs2
  cases hok : bodyOk body with
  | false => simp [hok] at h
  | true =>
    cases hall : post.all isIntSpace with
    | false => simp [hok, hall] at h
    | true =>
      cases hlim : overLimit (digitCount body) with
      | true => simp [hok, hall, hlim] at h
      | false =>
        simp only [hok, hall, hlim, Bool.not_true, Bool.false_eq_true, if_false, and_false,
          Option.some.injEq] at h
        have hpost : ∀ c ∈ post, isIntSpace c = true := List.all_eq_true.mp hall
        rcases lemma_skipSign_cases s1 with ⟨r, hs1, hsk, hneg⟩ | ⟨r, hs1, hsk, hneg⟩ | ⟨hsk, hneg⟩
        · refine ⟨_, ['-'], body, post, ?_, hpre, hpost, Or.inr (Or.inr rfl), hb, hok, hlim, ?_⟩
          · rw [ht, hs1]; rw [hsk] at hs2; rw [hs2]; simp
          · simp only [hneg, if_true] at h; simp [← h]
        · refine ⟨_, ['+'], body, post, ?_, hpre, hpost, Or.inr (Or.inl rfl), hb, hok, hlim, ?_⟩
          · rw [ht, hs1]; rw [hsk] at hs2; rw [hs2]; simp
          · simp only [hneg, Bool.false_eq_true, if_false] at h; simp [← h]
        · refine ⟨_, [], body, post, ?_, hpre, hpost, Or.inl rfl, hb, hok, hlim, ?_⟩
          · rw [ht]; rw [hsk] at hs2; rw [hs2]; simp
          · simp only [hneg, Bool.false_eq_true, if_false] at h; simp [← h]

/-! ### the model's character predicates against the declarative grammar -/

theorem lemma_decChars_facts : ∀ c ∈ decChars,
    isDigitIn 10 c = true ∧ digitVal c = some (c.toNat - '0'.toNat) ∧ c ≠ '_' := by decide

theorem lemma_dec_ofNat : ∀ n, n < 58 → 48 ≤ n → Char.ofNat n ∈ decChars := by decide

theorem lemma_digit10_iff (c : Char) : isDigitIn 10 c = true ↔ c ∈ decChars := by
  constructor
  · intro h
    by_cases hr : 48 ≤ c.toNat ∧ c.toNat ≤ 57
    · have := lemma_dec_ofNat c.toNat (by omega) hr.1
      rwa [Char.ofNat_toNat] at this
    · exfalso
      unfold isDigitIn digitVal at h
      simp only [hr, if_false] at h
      split at h
      · rename_i d hd
        split at hd
        · simp at hd; simp at h; omega
        · split at hd
          · simp at hd; simp at h; omega
          · simp at hd
      · simp at h
  · intro h; exact (lemma_decChars_facts c h).1

theorem lemma_body_char_iff (c : Char) : isBodyChar 10 c = true ↔ (c ∈ decChars ∨ c = '_') := by
  simp [isBodyChar, lemma_digit10_iff]

theorem lemma_double_iff (body : List Char) :
    hasDoubleUnderscore body = true ↔ ∃ l r, body = l ++ '_' :: '_' :: r := by
  induction body with
  | nil => simp [hasDoubleUnderscore]
  | cons a rest ih =>
    cases rest with
    | nil =>
      simp only [hasDoubleUnderscore, Bool.false_eq_true, false_iff]
      rintro ⟨l, r, h⟩
      have := congrArg List.length h
      simp at this
      omega
    | cons b rest =>
      simp only [hasDoubleUnderscore, Bool.or_eq_true, Bool.and_eq_true, beq_iff_eq, ih]
      constructor
      · rintro (⟨rfl, rfl⟩ | ⟨l, r, h⟩)
        · exact ⟨[], rest, rfl⟩
        · exact ⟨a :: l, r, by rw [h]; rfl⟩
      · rintro ⟨l, r, h⟩
        cases l with
        | nil =>
          simp only [List.nil_append, List.cons.injEq] at h
          exact Or.inl ⟨h.1, h.2.1⟩
        | cons x l =>
          simp only [List.cons_append, List.cons.injEq] at h
          exact Or.inr ⟨l, r, h.2⟩

theorem lemma_groups_iff (body : List Char) :
    ((∀ c ∈ body, isBodyChar 10 c = true) ∧ bodyOk body = true) ↔ DigitGroups body := by
  unfold DigitGroups
  have hd : (∀ l r, body ≠ l ++ '_' :: '_' :: r) ↔ hasDoubleUnderscore body = false := by
    rw [← Bool.not_eq_true, lemma_double_iff]
    constructor
    · rintro h ⟨l, r, e⟩; exact h l r e
    · intro h l r e; exact h ⟨l, r, e⟩
  rw [hd]
  simp only [lemma_body_char_iff, bodyOk, Bool.and_eq_true, Bool.not_eq_true', bne_iff_ne, ne_eq,
    List.isEmpty_eq_false_iff]
  constructor
  · rintro ⟨h1, ⟨⟨h2, h3⟩, h4⟩, h5⟩; exact ⟨h2, h1, h3, h4, h5⟩
  · rintro ⟨h2, h1, h3, h4, h5⟩; exact ⟨h1, ⟨⟨h2, h3⟩, h4⟩, h5⟩

theorem lemma_value_foldl (body : List Char) (h : ∀ c ∈ body, c ∈ decChars ∨ c = '_') (acc : Nat) :
    body.foldl (bodyStep 10) acc = Nat.ofDigitChars 10 (body.filter (fun c => c != '_')) acc := by
  induction body generalizing acc with
  | nil => simp
  | cons a body ih =>
    have ih' := ih (fun c hc => h c (by simp [hc]))
    rcases h a (by simp) with ha | rfl
    · have hf := lemma_decChars_facts a ha
      have hne : (a != '_') = true := by simpa using hf.2.2
      have hfl : (a :: body).filter (fun c => c != '_') = a :: body.filter (fun c => c != '_') := by
        simp [List.filter_cons, hf.2.2]
      rw [List.foldl_cons, hfl, Nat.ofDigitChars_cons, ih']
      simp only [bodyStep, hf.2.1]
      rw [Nat.mul_comm]
    · have hfl : ('_' :: body).filter (fun c => c != '_') = body.filter (fun c => c != '_') := by
        simp [List.filter_cons]
      rw [List.foldl_cons, hfl, ih']
      rfl

theorem lemma_value_dec (body : List Char) (h : ∀ c ∈ body, c ∈ decChars ∨ c = '_') :
    bodyValue 10 body = decValue body := lemma_value_foldl body h 0

end Oslo.Scalars
