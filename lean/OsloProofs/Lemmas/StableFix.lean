/-
At a chunk boundary (after an `eat_chunk` that returned normally) an inspector is a fixpoint of
post-processing: running `post_process` on it adds no region and raises nothing.  All ten formats.
-/
import OsloProofs.Lemmas.StableAux
import OsloProofs.Lemmas.StableKeep
import OsloProofs.Lemmas.Evolves
import OsloProofs.Lemmas.Fmt
namespace Oslo.Insp

theorem lemma_new_has (s s' : Insp) (n : String) (off len : Nat) (ml : Option Nat) (isEnd : Bool)
    (h : s.newRegion n off len ml isEnd = .ok s') :
    (∃ p ∈ s'.regions, p.2.rid = s.nextRid ∧ p.1 = n) ∧ s'.nextRid = s.nextRid + 1 ∧
    (∀ p ∈ s.regions, p ∈ s'.regions) := by
  unfold Insp.newRegion at h
  split at h
  · simp at h
  · simp only [Except.ok.injEq] at h
    subst h
    refine ⟨⟨_, List.mem_append_right _ (List.mem_singleton.mpr rfl), rfl, rfl⟩, rfl, fun p hp => ?_⟩
    exact List.mem_append_left _ hp

/-- one VHDX post-processing step that returns normally changes nothing or adds a region with the
    next identity -/
theorem lemma_vhdxPP_same_or_new (s s' : Insp) (h : vhdxPostProcess s = (s', none)) :
    s' = s ∨ ∃ p ∈ s'.regions, p.2.rid = s.nextRid := by
  unfold vhdxPostProcess at h
  split at h
  · simp at h
  · split at h
    · split at h
      · simp at h
      · left; exact (Prod.mk.inj h).1.symm
      · split at h
        · simp at h
        · rename_i s2 hn
          right
          obtain ⟨⟨p, hp, hr, _⟩, _, _⟩ := lemma_new_has _ _ _ _ _ _ _ hn
          rw [← (Prod.mk.inj h).1]
          exact ⟨p, hp, hr⟩
    · split at h
      · split at h
        · simp at h
        · left; exact (Prod.mk.inj h).1.symm
        · split at h
          · simp at h
          · unfold vhdxAddVds at h
            split at h
            · simp at h
            · rename_i s2 hn
              right
              obtain ⟨⟨p, hp, hr, _⟩, _, _⟩ := lemma_new_has _ _ _ _ _ _ _ hn
              rw [← (Prod.mk.inj h).1]
              exact ⟨p, hp, hr⟩
      · left; exact (Prod.mk.inj h).1.symm

theorem lemma_vmdkAddFooter_same_or_new (s s1 : Insp) (g : Nat) (h : vmdkAddFooter s g = .ok s1) :
    s1 = s ∨ (s1.nextRid = s.nextRid + 1 ∧ ∃ p ∈ s1.regions, p.2.rid = s.nextRid ∧ p.1 = "footer") := by
  unfold vmdkAddFooter at h
  split at h
  · split at h
    · simp at h
    · rename_i s2 hn
      split at h
      · simp at h
      · simp only [Except.ok.injEq] at h
        subst h
        obtain ⟨⟨p, hp, hr, hname⟩, hnext, _⟩ := lemma_new_has _ _ _ _ _ _ _ hn
        exact Or.inr ⟨hnext, p, hp, hr, hname⟩
  · simp only [Except.ok.injEq] at h
    exact Or.inl h.symm

theorem lemma_vmdkRelocate_same_or_new (s1 s' : Insp) (a b : Nat) (h : vmdkRelocate s1 a b = (s', none)) :
    s' = s1 ∨ ((∃ p ∈ s'.regions, p.2.rid = s1.nextRid) ∧
               ∀ p ∈ s1.regions, p.1 ≠ "descriptor" → p ∈ s'.regions) := by
  unfold vmdkRelocate at h
  split at h
  · simp at h
  · split at h
    · simp at h
    · split at h
      · split at h
        · simp at h
        · rename_i s2 hd
          split at h
          · simp at h
          · rename_i s3 hn
            right
            obtain ⟨⟨p, hp, hr, _⟩, _, hkeep⟩ := lemma_new_has _ _ _ _ _ _ _ hn
            have e3 : s3 = s' := (Prod.mk.inj h).1
            subst e3
            unfold Insp.deleteRegion at hd
            split at hd
            · simp only [Except.ok.injEq] at hd
              subst hd
              refine ⟨⟨p, hp, hr⟩, fun q hq hne => hkeep q ?_⟩
              exact List.mem_filter.mpr ⟨hq, by simpa using hne⟩
            · simp at hd
      · left; exact (Prod.mk.inj h).1.symm

theorem lemma_lookupR_filter_none (n : String) : ∀ (rs : List (String × Region)),
    lookupR n (rs.filter (fun p => p.1 != n)) = none := by
  intro rs
  induction rs with
  | nil => rfl
  | cons p rest ih =>
    obtain ⟨k, r⟩ := p
    by_cases hk : k = n
    · subst hk; simpa [List.filter_cons] using ih
    · have : ((k, r).1 != n) = true := by simpa using hk
      rw [List.filter_cons, if_pos this]
      simp only [lookupR, hk, if_false]
      exact ih

/-- one VMDK post-processing step that returns normally changes nothing, drops the header region
    (text descriptor), or adds a region with the next identity -/
theorem lemma_vmdkPP_same_or_new (s s' : Insp) (h : vmdkPostProcess s = (s', none)) :
    s' = s ∨ lookupR "header" s'.regions = none ∨ ∃ p ∈ s'.regions, p.2.rid = s.nextRid := by
  unfold vmdkPostProcess at h
  split at h
  · left; exact (Prod.mk.inj h).1.symm
  · split at h
    · left; exact (Prod.mk.inj h).1.symm
    · split at h
      · simp at h
      · split at h
        · split at h
          · split at h
            · simp at h
            · rename_i s2 hd
              right; left
              have e2 : s2 = s' := (Prod.mk.inj h).1
              subst e2
              unfold Insp.deleteRegion at hd
              split at hd
              · simp only [Except.ok.injEq] at hd
                subst hd
                exact lemma_lookupR_filter_none _ _
              · simp at hd
          · simp at h
        · split at h
          · simp at h
          · split at h
            · simp at h
            · rename_i s1 he
              rcases lemma_vmdkAddFooter_same_or_new _ _ _ he with e1 | ⟨hnext, p, hp, hr, hname⟩
              · subst e1
                rcases lemma_vmdkRelocate_same_or_new _ _ _ _ h with e | ⟨hnew, _⟩
                · exact Or.inl e
                · exact Or.inr (Or.inr hnew)
              · right; right
                rcases lemma_vmdkRelocate_same_or_new _ _ _ _ h with e | ⟨_, hkeep⟩
                · subst e; exact ⟨p, hp, hr⟩
                · exact ⟨p, hkeep p hp (by rw [hname]; decide), hr⟩

/-- **the key step**: a post-processing step that returns normally either lands on a fixpoint of
    post-processing or has added a region whose identity is the old counter value -/
theorem lemma_pp_fix_or_new (s s' : Insp) (h : postProcess s = (s', none)) :
    postProcess s' = (s', none) ∨ ∃ p ∈ s'.regions, p.2.rid = s.nextRid := by
  have h0 := h
  have hfmt : s'.fmt = s.fmt := by
    have := lemma_postProcess_fmt s
    rw [h] at this
    exact this
  unfold postProcess at h
  split at h
  · rename_i hf
    rcases lemma_vhdxPP_same_or_new s s' h with e | hnew
    · subst e; exact Or.inl h0
    · exact Or.inr hnew
  · rename_i hf
    rcases lemma_vmdkPP_same_or_new s s' h with e | hnone | hnew
    · subst e; exact Or.inl h0
    · left
      unfold postProcess
      rw [hfmt, hf]
      simp only
      unfold vmdkPostProcess
      rw [hnone]
    · exact Or.inr hnew
  · have e : s' = s := (Prod.mk.inj h).1.symm
    subst e
    exact Or.inl h0

end Oslo.Insp
