/-
The per-inspector invariant behind "a decision is not revised" for all ten formats, and its
two consequences: it survives every `eat_chunk` that returns normally, and a complete inspector
satisfying it ignores any further chunk (only `_total_count` moves).
-/
import OsloProofs.Lemmas.StableFix
namespace Oslo.Insp

/-- an un-finished inspector at a chunk boundary -/
structure Good2 (s : Insp) : Prop where
  unfinished : s.finished = false
  quiet : Quiet s
  sinv : SInv s
  bnd : Bnd s
  fix : postProcess s = (s, none)

theorem lemma_bnd_captureAll (s : Insp) (c : Bytes) (only : List String) (h : Bnd s) :
    Bnd (s.captureAll c only) := by
  intro p hp
  simp only [Insp.captureAll, List.mem_map] at hp
  obtain ⟨y, hy, rfl⟩ := hp
  show _ < s.nextRid
  split
  · rw [lemma_capture_rid]; exact h y hy
  · exact h y hy

theorem lemma_allseen_of_not_any (s : Insp) (seen : List Nat)
    (h : ¬ (s.regions.any (fun p => !seen.contains p.2.rid) = true)) : ∀ p ∈ s.regions, p.2.rid ∈ seen := by
  simp only [Bool.not_eq_true, List.any_eq_false, Bool.not_eq_true', List.contains_eq_mem,
    decide_eq_false_iff_not, Decidable.not_not] at h
  exact h

theorem lemma_allseen_of_empty (s : Insp) (seen : List Nat)
    (h : (s.regions.filter (fun p => !seen.contains p.2.rid)).isEmpty = true) : ∀ p ∈ s.regions, p.2.rid ∈ seen := by
  simp only [List.isEmpty_iff, List.filter_eq_nil_iff, Bool.not_eq_true', List.contains_eq_mem,
    decide_eq_false_iff_not, Decidable.not_not] at h
  exact h

/-- when the `while new_regions` loop ends normally, the state it ends in is a fixpoint of
    post-processing -/
theorem lemma_followUp_fix (fuel : Nat) : ∀ (s : Insp) (c : Bytes) (seen : List Nat) (s4 : Insp),
    SInv s → Bnd s → (∀ i ∈ seen, i < s.nextRid) →
    ((∀ p ∈ s.regions, p.2.rid ∈ seen) → postProcess s = (s, none)) →
    followUp fuel s c seen = (s4, none) →
    postProcess s4 = (s4, none) ∧ SInv s4 ∧ Bnd s4 := by
  induction fuel with
  | zero =>
    intro s c seen s4 hs hb _ hfix h
    unfold followUp at h
    split at h
    · simp at h
    · rename_i hany
      have e : s = s4 := (Prod.mk.inj h).1
      subst e
      exact ⟨hfix (lemma_allseen_of_not_any _ _ hany), hs, hb⟩
  | succ n ih =>
    intro s c seen s4 hs hb hseen hfix h
    unfold followUp at h
    dsimp only at h
    split at h
    · rename_i hemp
      have e : s = s4 := (Prod.mk.inj h).1
      subst e
      exact ⟨hfix (lemma_allseen_of_empty _ _ hemp), hs, hb⟩
    · obtain ⟨hs1, _⟩ := lemma_captureAll_inv s c
        ((s.regions.filter (fun p => !seen.contains p.2.rid)).map (·.1)) hs
      have hb1 := lemma_bnd_captureAll s c
        ((s.regions.filter (fun p => !seen.contains p.2.rid)).map (·.1)) hb
      have hev := lemma_postProcess_evolves _ hs1 hb1
      obtain ⟨hs2, _⟩ := lemma_postProcess_inv _ hs1
      split at h
      · simp at h
      · rename_i s2 heq
        rw [heq] at hev hs2
        have hseen' : ∀ i ∈ seen ++ (s.regions.filter (fun p => !seen.contains p.2.rid)).map (·.2.rid),
            i < s.nextRid := by
          intro i hi
          simp only [List.mem_append, List.mem_map] at hi
          rcases hi with hi | ⟨y, hy, rfl⟩
          · exact hseen i hi
          · exact hb y (List.mem_filter.mp hy).1
        have hnext : s.nextRid ≤ s2.nextRid := hev.next
        apply ih s2 c _ s4 hs2 hev.bnd (fun i hi => Nat.lt_of_lt_of_le (hseen' i hi) hnext) ?_ h
        intro hall
        rcases lemma_pp_fix_or_new _ _ heq with hfx | ⟨p, hp, hr⟩
        · exact hfx
        · exfalso
          have := hseen' _ (hall p hp)
          rw [hr] at this
          exact Nat.lt_irrefl _ this

theorem lemma_regionComplete_aux (s : Insp) (n : String) :
    ∃ q d v, (regionComplete s n).1 = s.setAux s.total q d v := by
  unfold regionComplete
  split
  · unfold qcowRegionComplete
    split
    · exact ⟨_, _, _, (lemma_setAux_self s).symm⟩
    · dsimp only
      split
      · exact ⟨_, _, _, (lemma_setAux_self s).symm⟩
      · split
        · exact ⟨_, s.descText, s.vmdkType, rfl⟩
        · exact ⟨_, s.descText, s.vmdkType, rfl⟩
  · split
    · unfold vmdkParseDescriptor
      split
      · exact ⟨_, _, _, (lemma_setAux_self s).symm⟩
      · dsimp only
        repeat' split
        all_goals first
          | exact ⟨_, _, _, (lemma_setAux_self s).symm⟩
          | exact ⟨s.qcowInfo, _, _, rfl⟩
    · exact ⟨_, _, _, (lemma_setAux_self s).symm⟩
  · exact ⟨_, _, _, (lemma_setAux_self s).symm⟩

/-- the region_complete callbacks touch only `qcowInfo`, `descText`, `vmdkType` -/
theorem lemma_runCallbacks_aux (names : List String) : ∀ (s : Insp),
    ∃ q d v, (runCallbacks s names).1 = s.setAux s.total q d v := by
  induction names with
  | nil => intro s; exact ⟨_, _, _, (lemma_setAux_self s).symm⟩
  | cons n ns ih =>
    intro s
    unfold runCallbacks
    obtain ⟨q, d, v, h1⟩ := lemma_regionComplete_aux s n
    split
    · rename_i s1 e heq
      rw [heq] at h1
      exact ⟨q, d, v, h1⟩
    · rename_i s1 heq
      rw [heq] at h1
      simp only at h1
      obtain ⟨q2, d2, v2, h2⟩ := ih s1
      refine ⟨q2, d2, v2, ?_⟩
      rw [h2, h1]
      rfl

/-- **invariant step**: an `eat_chunk` that returns normally leads from a boundary state to a
    boundary state -/
theorem lemma_eat_good (s : Insp) (c : Bytes) (hg : Good2 s) (h : (eatChunk s c).2 = none) :
    Good2 (eatChunk s c).1 := by
  have hk := lemma_eatChunk_keep s c
  obtain ⟨hsinv, _⟩ := lemma_eatChunk_inv s c hg.sinv
  have hfin : (eatChunk s c).1.finished = false := hk.fin.trans hg.unfinished
  have hquiet := hk.quiet hg.quiet
  suffices hmain : Bnd (eatChunk s c).1 ∧ postProcess (eatChunk s c).1 = ((eatChunk s c).1, none) from
    ⟨hfin, hquiet, hsinv, hmain.1, hmain.2⟩
  have hunf := hg.unfinished
  revert h
  unfold eatChunk
  dsimp only
  rw [if_neg (by rw [hunf]; simp)]
  have hs1 : SInv ({ s with total := s.total + c.length } : Insp) := hg.sinv
  have hb1 : Bnd ({ s with total := s.total + c.length } : Insp) := hg.bnd
  obtain ⟨hs2, _⟩ := lemma_captureAll_inv _ c [] hs1
  have hb2 := lemma_bnd_captureAll _ c [] hb1
  have hev := lemma_postProcess_evolves _ hs2 hb2
  obtain ⟨hs3, _⟩ := lemma_postProcess_inv _ hs2
  split
  · intro h; simp at h
  · rename_i s3 heq
    rw [heq] at hev hs3
    have hnext : s.nextRid ≤ s3.nextRid := hev.next
    have hseen : ∀ i ∈ s.regions.map (·.2.rid), i < s3.nextRid := by
      intro i hi
      simp only [List.mem_map] at hi
      obtain ⟨y, hy, rfl⟩ := hi
      exact Nat.lt_of_lt_of_le (hg.bnd y hy) hnext
    have hfixc : (∀ p ∈ s3.regions, p.2.rid ∈ s.regions.map (·.2.rid)) → postProcess s3 = (s3, none) := by
      intro hall
      rcases lemma_pp_fix_or_new _ _ heq with hfx | ⟨p, hp, hr⟩
      · exact hfx
      · exfalso
        have := hall p hp
        simp only [List.mem_map] at this
        obtain ⟨y, hy, hyr⟩ := this
        have hlt := hg.bnd y hy
        rw [hyr, hr] at hlt
        exact Nat.lt_irrefl _ hlt
    split
    · intro h; simp at h
    · rename_i s4 heq4
      intro _
      obtain ⟨hfix4, _, hb4⟩ := lemma_followUp_fix 8 s3 c _ s4 hs3 hev.bnd hseen hfixc heq4
      obtain ⟨q, d, v, h5⟩ := lemma_runCallbacks_aux
        ((s4.regions.filter (fun p => p.2.complete &&
            !((s.regions.filter (·.2.complete)).map (·.2.rid)).contains p.2.rid)).map (·.1)) s4
      rw [h5]
      exact ⟨hb4, lemma_setAux_fix s4 _ q d v hfix4⟩

theorem lemma_complete_noEnd (s : Insp) (hq : Quiet s) (hc : s.complete = true) :
    ∀ p ∈ s.regions, p.2.isEnd = false ∧ p.2.complete = true := by
  intro p hp
  have hcp : p.2.complete = true := by
    simp only [Insp.complete, List.all_eq_true] at hc
    exact hc p hp
  refine ⟨?_, hcp⟩
  cases hE : p.2.isEnd
  · rfl
  · have := hq p hp
    simp [Region.complete, hE, this] at hcp

theorem lemma_captureAll_complete (s : Insp) (c : Bytes)
    (hne : ∀ p ∈ s.regions, p.2.isEnd = false ∧ p.2.complete = true) : s.captureAll c [] = s := by
  have hmap : s.regions.map (fun p =>
      if (([] : List String).isEmpty || ([] : List String).contains p.1) && (p.2.isEnd || !p.2.complete)
      then (p.1, p.2.capture c s.total) else p) = s.regions := by
    have : ∀ p ∈ s.regions, (if ((([] : List String).isEmpty || ([] : List String).contains p.1) &&
        (p.2.isEnd || !p.2.complete)) = true then (p.1, p.2.capture c s.total) else p) = p := by
      intro p hp
      obtain ⟨h1, h2⟩ := hne p hp
      simp [h1, h2]
    exact (List.map_congr_left this).trans (List.map_id' _)
  unfold Insp.captureAll
  rw [hmap]

/-- **a complete inspector ignores further data**: at a boundary, once every region is complete,
    one more chunk moves `_total_count` and nothing else, and nothing is raised -/
theorem lemma_eat_complete (s : Insp) (c : Bytes) (hg : Good2 s) (hc : s.complete = true) :
    eatChunk s c = ({ s with total := s.total + c.length }, none) := by
  have hne := lemma_complete_noEnd s hg.quiet hc
  have hfix : postProcess ({ s with total := s.total + c.length } : Insp) =
      (({ s with total := s.total + c.length } : Insp), none) :=
    lemma_setAux_fix s (s.total + c.length) s.qcowInfo s.descText s.vmdkType hg.fix
  have hunf := hg.unfinished
  unfold eatChunk
  dsimp only
  rw [if_neg (by rw [hunf]; simp)]
  rw [lemma_captureAll_complete ({ s with total := s.total + c.length } : Insp) c hne]
  rw [hfix]
  dsimp only
  rw [lemma_followUp_none _ _ _ _ (fun p hp => List.mem_map.mpr ⟨p, hp, rfl⟩)]
  dsimp only
  have hnewly : (s.regions.filter (fun p => p.2.complete &&
      !((s.regions.filter (·.2.complete)).map (·.2.rid)).contains p.2.rid)) = [] := by
    rw [List.filter_eq_nil_iff]
    intro p hp
    have hcp := (hne p hp).2
    have : ((s.regions.filter (·.2.complete)).map (·.2.rid)).contains p.2.rid = true := by
      simp only [List.contains_eq_mem, List.mem_map, List.mem_filter, decide_eq_true_eq]
      exact ⟨p, ⟨hp, hcp⟩, rfl⟩
    rw [this]
    simp
  rw [hnewly]
  rfl

end Oslo.Insp
