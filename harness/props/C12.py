"""C12 - time normalisation, overridden-clock comparison and marshalling are exact."""
import contextlib
import datetime
import math
import os
import re
import time
import zoneinfo
from fractions import Fraction

import common
from common import Disagreement, Failure, req

ID = 'C12'
DRIVER = 'drv_C12'
PROOF_MODULES = ['OsloProofs.Props.C12']
LEVEL = 'proof'
RULE = ('(override instant, datetime, representation, seconds) tuples: instants across 0001..9999 at microsecond '
        'resolution (range edges, around 1970, modern, uniform); representations naive / UTC / fixed offsets '
        '-23:59..+23:59 (and sub-minute ones) / named zones (from a UTC instant, or a wall-clock reading incl. gaps and '
        'folds) / ISO string via isoformat(); seconds int or float, zero, negative, fractional, half-microsecond ties, '
        'beyond timedelta; the compared datetime is placed at, 1 us below and 1 us above the equality boundary. Plus '
        'call sequences (set/advance/read/compare/clear, directly and through TimeFixture), normalize_time, '
        'timedelta(seconds=), marshall/unmarshall records. Order independence: normalize_time is a call inside the '
        'sequences; both `fold` readings of one ambiguous wall time (every zone of the list with an offset decrease in '
        '1990..2037, first/last/random microsecond of the repeated interval) are passed back to back in either order '
        'through normalize_time and the three comparisons under a fixed override; earlier calls are repeated unchanged, '
        'on the other fold reading, with other seconds, or after the clock moved - the oracle computes every expected '
        'result from that call\'s arguments and the override cell alone; a failure is confirmed and shrunk in a fresh '
        'interpreter within a 60 s wall-clock budget (if it depends on an earlier case, that case is put in front: kind '
        '"multi"). Zone transitions: around every offset change 1990..2037 of the named zones, wall times inside the '
        'repeated interval (either fold), inside the gap (readings that do not exist, either fold) and next to them, '
        'with the override within two hours of the transition (inside the overlap / skipped hour included) and the '
        'compared instant at the datetime\'s own instant, the transition, the other pass of the same reading, +-1 us, '
        'for all three comparisons. Fixture mixes: TimeFixture objects (set up, advanced, cleaned up, set up again, nested, '
        'advanced while not up) and the timeutils functions act on one override cell in random interleavings with reads '
        'in between. Process environment: about a third of all cases, and dedicated override/utcnow_ts '
        'sequences (local summer/winter, the wall readings where the process zone changes offset, 1970, range edges, '
        'advances of months), are run with os.environ["TZ"] set to one of 11 zones (IANA and POSIX rule strings) - the '
        'expected values never depend on it. Marshalling: the same marshalled dict is unmarshalled 1-3 times, must be left as it '
        'was (snapshot before/after, also when unmarshall_time raises) and is re-marshalled. A case is non-trivial when an override-dependent call '
        'returned a value (datetime, timestamp, bool) or normalize/marshall/unmarshall returned one, on both sides; '
        'distinct by the canonical JSON of the case')
TRUSTED_BASE = [
    'Lean 4 kernel; axioms audited per theorem (subset of propext, Classical.choice, Quot.sound)',
    'hand-written model OsloModel/Time.lean (instants = integer microseconds since 0001-01-01), tied to '
    'oslo_utils.timeutils / fixture.TimeFixture by this correspondence on every run',
    'the harness conversions datetime <-> integer microseconds (toordinal/fromordinal and field arithmetic)',
    'the runtime: datetime calendar, zoneinfo tz database (utcoffset(), ZoneInfo(key)), iso8601.parse_date, '
    'calendar.timegm, timedelta arithmetic: parameters of the model, exercised only on the generated values',
]
UNMODELLED = [
    'the calendar (fields <-> instant), the tz database, the ISO-8601 parser and calendar.timegm: parameters of the model',
    'binary64 product inside timedelta(seconds=float): the model rounds the exact rational; floats whose binary64 '
    'product rounds differently (exact product within one rounding error of a half-microsecond) are detected and skipped',
    'binary64 rounding of utcnow_ts(microsecond=True): compared with the exact rational within 2^-52 relative to max(1,|ts|)',
    'the list form of the override (set_time_override([...])), aware override instants, set_time_override() with no argument',
    'reads of the real clock (no override): only "the real clock was read" is recorded',
    'marshalled records with missing keys or non-integer values; tzinfo objects whose utcoffset() is None',
    'absence of hidden state / argument mutation is not a theorem (the model is a pure function): it is what the '
    'repeated-call and same-dict-twice correspondence cases check',
]
ASSUMPTIONS = [
    'the override instant is a naive datetime (as TimeFixture and the documentation use it)',
    'seconds is read at timedelta resolution: nearest microsecond, ties to even (recorded interpretation; the exact '
    'rational comparison is proved where the sub-microsecond part does not round up: *_exact_partial)',
    'a datetime whose UTC instant is outside 0001..9999 is outside the property; OverflowError is accepted there',
    'the answers do not depend on the time zone of the process (TZ / time.tzset()); the model has no such input',
    'ISO strings are demanded of is_older_than / is_newer_than, not of is_soon (recorded interpretation)',
    'ZoneInfo("UTC") exists and has offset 0 (checked on every UTC marshalling case)',
]

DT = datetime.datetime
TD = datetime.timedelta
UTC = datetime.timezone.utc
ONE_US = TD(microseconds=1)
DAY_US = 86400 * 10 ** 6
MAX_US = 3652059 * DAY_US - 1
EPOCH_US = 719162 * DAY_US
TD_MIN_US = -999999999 * DAY_US
TD_MAX_US = 1000000000 * DAY_US - 1
ALL_ZONE_KEYS = zoneinfo.available_timezones()
ZONES = [z for z in ['Europe/Paris', 'America/New_York', 'Asia/Kolkata', 'Australia/Lord_Howe',
                     'Pacific/Kiritimati', 'Etc/GMT+12', 'Asia/Kathmandu', 'America/St_Johns', 'Pacific/Apia',
                     'UTC', 'Africa/Monrovia', 'Europe/Berlin', 'Europe/London']
         if z in ALL_ZONE_KEYS]
ZONE_KEYS = ['UTC', 'UTC+00:00', 'Europe/Paris', 'UTC+01:00', 'Nope/Zone', 'utc', '../x', 'Etc/GMT+12', '']


# --------------------------------------------------------------------------
# integer-microsecond view of datetimes (the harness's own arithmetic)

def us_of(dt):
    """wall-clock reading of a datetime in microseconds since 0001-01-01T00:00:00"""
    return ((dt.toordinal() - 1) * 86400 + dt.hour * 3600 + dt.minute * 60 + dt.second) * 10 ** 6 + dt.microsecond


def dt_of(us):
    """the naive datetime with that reading"""
    days, rem = divmod(us, DAY_US)
    secs, micro = divmod(rem, 10 ** 6)
    d = datetime.date.fromordinal(days + 1)
    return DT(d.year, d.month, d.day, secs // 3600, secs // 60 % 60, secs % 60, micro)


def in_range(us):
    return 0 <= us <= MAX_US


class NullTz(datetime.tzinfo):
    """a tzinfo that does not know its offset: utcoffset() is None, so the datetime is NAIVE by Python's definition
    (datetime docs: aware iff tzinfo is not None and tzinfo.utcoffset(d) is not None)"""

    def utcoffset(self, dt):
        return None

    def dst(self, dt):
        return None

    def tzname(self, dt):
        return None

    def __repr__(self):
        return 'NullTz()'


class CallbackTz(datetime.tzinfo):
    """a caller-written fixed-offset tzinfo (not datetime.timezone) whose utcoffset() calls back into the library
    (reads the clock) - re-entrancy must not change any answer"""

    def __init__(self, off):
        self.off = off

    def utcoffset(self, dt):
        from oslo_utils import timeutils
        timeutils.utcnow()
        return TD(microseconds=self.off)

    def dst(self, dt):
        return None

    def tzname(self, dt):
        return 'CB'

    def __repr__(self):
        return 'CallbackTz(%d us)' % self.off


def mk_tz(tz):
    k = tz[0]
    if k == 'nulltz':
        return NullTz()
    if k == 'callback':
        return CallbackTz(tz[1])
    if k == 'utc':
        return UTC
    if k == 'fixed':
        return datetime.timezone(TD(microseconds=tz[1]))
    if k == 'named':
        return datetime.timezone(TD(microseconds=tz[1]), tz[2])
    if k == 'zone':
        return zoneinfo.ZoneInfo(tz[1])
    raise ValueError(tz)


def build_dt(spec):
    d = dt_of(spec['us'])
    tz = spec.get('tz')
    if tz is None:
        return d
    d = d.replace(tzinfo=mk_tz(tz))
    if tz[0] == 'zone' and tz[2]:
        d = d.replace(fold=1)
    return d


def off_us(dt):
    o = dt.utcoffset()
    return None if o is None else o // ONE_US


def model_dt(spec, iso=False):
    """the model's view: wall-clock reading and what utcoffset() says (the tz database is a parameter)"""
    d = build_dt(spec)
    o = off_us(d)
    if o is None:
        return 'a:%d:0' % spec['us'] if iso else 'n:%d' % spec['us']     # iso8601 reads a bare string as UTC
    return 'a:%d:%d' % (spec['us'], o)


def spec_utc(spec):
    """the UTC instant the datetime denotes, known by construction where possible"""
    tz = spec.get('tz')
    if tz is None or tz[0] in ('utc', 'nulltz'):      # nulltz: naive by definition, read as UTC like any naive one
        return spec['us']
    if tz[0] in ('fixed', 'named', 'callback'):
        return spec['us'] - tz[1]
    if spec.get('utc') is not None:
        return spec['utc']
    return spec['us'] - off_us(build_dt(spec))


# --------------------------------------------------------------------------
# seconds values

def rhe(q):
    """nearest integer to the Fraction q, ties to even"""
    fl = q.numerator // q.denominator
    r = q - fl
    if 2 * r < 1:
        return fl
    if 2 * r > 1:
        return fl + 1
    return fl if fl % 2 == 0 else fl + 1


def sec_value(s):
    return s[1] if s[0] == 'int' else float.fromhex(s[1])


def sec_frac(s):
    return Fraction(sec_value(s))


def sec_us(s):
    return rhe(sec_frac(s) * 10 ** 6)


def sec_str(s):
    q = sec_frac(s)
    return '%d/%d' % (q.numerator, q.denominator)


def float_ok(x):
    """True when CPython's timedelta(seconds=x) - which multiplies the fractional part by 1e6 in binary64 -
    rounds like the exact rational does (replicates delta_new/accum of _datetimemodule.c)"""
    frac, ip = math.modf(x)
    return rhe(int(ip) * 10 ** 6 + Fraction(frac * 1e6)) == rhe(Fraction(x) * 10 ** 6)


def gen_secs(ctx):
    rng = ctx.rng
    while True:
        k = rng.randrange(12)
        if k == 0:
            s, tag = ['int', rng.choice([0, 1, -1, 2, 59, 60, -60, 3600, 86400, -86400])], 'int-small'
        elif k == 1:
            s, tag = ['int', rng.randrange(-10 ** 6, 10 ** 6)], 'int'
        elif k == 2:
            s, tag = ['int', rng.randrange(-4 * 10 ** 11, 4 * 10 ** 11)], 'int-large'
        elif k == 3:
            j = rng.randrange(1, 7)
            s, tag = ['float', (rng.randrange(-2 ** 12, 2 ** 12) / 2 ** j).hex()], 'float-dyadic'
        elif k == 4:      # k/128 with odd k: an exact half-microsecond tie
            s, tag = ['float', ((2 * rng.randrange(-500, 500) + 1) / 128).hex()], 'float-tie'
        elif k == 5:
            s, tag = ['float', (rng.randrange(-10 ** 8, 10 ** 8) / 1e6).hex()], 'float-decimal-us'
        elif k == 6:
            s, tag = ['float', rng.choice([0.1, 0.2, 0.3, 1.5, 2.5, -0.1, -2.5, 1e-6, -1e-6, 0.000123])
                      .hex()], 'float-common'
        elif k == 7:      # sub-microsecond parts, rounding up or down
            s, tag = ['float', (rng.randrange(-10 ** 8, 10 ** 8) / 1e7).hex()], 'float-sub-us'
        elif k == 8:
            s, tag = ['float', rng.uniform(-1e5, 1e5).hex()], 'float-random'
        elif k == 9:
            s, tag = ['float', float(rng.randrange(-10 ** 10, 10 ** 10)).hex()], 'float-integral'
        elif k == 10:
            s, tag = rng.choice([['int', 10 ** 14], ['int', -10 ** 14], ['float', (1e20).hex()],
                                 ['int', 86400 * 10 ** 9 - 1], ['int', 86400 * 10 ** 9],
                                 ['int', -86400 * 999999999], ['int', -86400 * 999999999 - 1]]), 'beyond-timedelta'
        else:
            s, tag = ['float', (-abs(rng.uniform(0, 10))).hex()], 'float-negative'
        if s[0] == 'float' and not float_ok(sec_value(s)):
            ctx.count('sec/skipped-binary64-product-rounds-differently')
            continue
        ctx.count('sec/' + tag)
        return s


# --------------------------------------------------------------------------
# instants and representations

def gen_instant(rng):
    k = rng.randrange(8)
    if k == 0:
        return rng.randrange(0, 3 * DAY_US)
    if k == 1:
        return MAX_US - rng.randrange(0, 3 * DAY_US)
    if k == 2:
        return EPOCH_US + rng.randrange(-3 * DAY_US, 3 * DAY_US)
    if k in (3, 4):
        return rng.randrange(730000 * DAY_US, 745000 * DAY_US)      # ~1999..2040
    if k == 5:
        return rng.randrange(0, MAX_US + 1) // 10 ** 6 * 10 ** 6 + rng.choice([0, 1, 499999, 500000, 999999])
    return rng.randrange(0, MAX_US + 1)


def gen_offset(rng):
    k = rng.randrange(10)
    if k < 4:
        m = rng.choice([-1439, 1439, -1, 1, 0, 60, -60, 330, 345, -210, 840, -720, 120, -120])
    else:
        m = rng.randrange(-1439, 1440)
    return m * 60 * 10 ** 6


def gen_repr(ctx, u, allow_iso, exact=False):
    """A datetime (spec) denoting the UTC instant u, in a random representation; returns (spec, iso)."""
    rng = ctx.rng
    for _ in range(20):
        k = rng.randrange(20)
        spec = None
        if k < 1 and in_range(u):
            spec, tag = {'us': u, 'tz': ['nulltz']}, 'naive-with-tzinfo-whose-utcoffset-is-None'
        elif k < 4 and in_range(u):
            spec, tag = {'us': u, 'tz': None}, 'naive'
        elif k < 6 and in_range(u):
            spec, tag = {'us': u, 'tz': ['utc']}, 'utc'
        elif k < 13 or not in_range(u):
            o = gen_offset(rng)
            if u < 0:          # the UTC instant is before 0001-01-01: only a positive offset keeps the reading in range
                lo = -(u // (60 * 10 ** 6))
                o = rng.randrange(lo, 1440) * 60 * 10 ** 6 if lo <= 1439 else rng.randrange(-u, DAY_US)
            elif u > MAX_US:
                hi = (MAX_US - u) // (60 * 10 ** 6)
                o = rng.randrange(-1439, hi + 1) * 60 * 10 ** 6 if hi >= -1439 else -rng.randrange(u - MAX_US, DAY_US)
            if in_range(u + o):
                spec, tag = {'us': u + o, 'tz': ['fixed', o]}, 'fixed'
                if rng.random() < 0.08:
                    spec, tag = {'us': u + o, 'tz': ['callback', o]}, 'custom-tzinfo-calling-back'
        elif k < 14:
            o = rng.choice([1, -1, 10 ** 6, -10 ** 6 - 5, DAY_US - 1, -DAY_US + 1, rng.randrange(-DAY_US + 1, DAY_US)])
            if in_range(u + o):
                spec, tag = {'us': u + o, 'tz': ['fixed', o]}, 'fixed-sub-minute'
        elif k < 19 and in_range(u) and ZONES:
            key = rng.choice(ZONES)
            try:
                loc = dt_of(u).replace(tzinfo=UTC).astimezone(zoneinfo.ZoneInfo(key))
            except (OverflowError, ValueError):
                continue
            spec, tag = {'us': us_of(loc), 'tz': ['zone', key, loc.fold], 'utc': u}, 'zone'
        elif in_range(u) and ZONES and not exact:      # a wall-clock reading taken as it is (may fall into a gap or a fold)
            spec, tag = {'us': u, 'tz': ['zone', rng.choice(ZONES), rng.randrange(2)]}, 'zone-wall'
            try:
                if not in_range(u - off_us(build_dt(spec))) and rng.random() < 0.9:
                    continue
            except OverflowError:
                continue
        if spec is None:
            continue
        iso = False
        if allow_iso and rng.random() < 0.4:
            o = off_us(build_dt(spec))
            iso = o is None or o % (60 * 10 ** 6) == 0
        ctx.count('repr/' + tag + ('+iso' if iso else ''))
        return spec, iso
    raise RuntimeError('no representation for %d' % u)


def gen_cmp(ctx, now, fn=None):
    """One comparison whose argument sits at / next to the equality boundary relative to `now`."""
    rng = ctx.rng
    fn = fn or rng.choice(['older', 'newer', 'soon'])
    for _ in range(30):
        sec = gen_secs(ctx)
        w = sec_us(sec)
        delta = rng.choice([-1, 0, 0, 1, 1, -1, rng.randrange(-10 ** 7, 10 ** 7), rng.randrange(-10 ** 13, 10 ** 13)])
        if TD_MIN_US <= w <= TD_MAX_US:
            u = now - w - delta if fn == 'older' else now + w + delta
            tag = 'boundary%+d' % delta if abs(delta) <= 1 else 'off-boundary'
            if abs(delta) <= 1 and w != (sec_frac(sec) * 10 ** 6).__floor__():
                ctx.count('cmp/boundary-with-seconds-rounded-up-by-timedelta')
        else:
            u, tag = gen_instant(rng), 'seconds-beyond-timedelta'
        if not in_range(u):
            if -DAY_US < u < 0 or MAX_US < u < MAX_US + DAY_US:
                tag += '/utc-unrepresentable'
            else:
                continue
        try:
            spec, iso = gen_repr(ctx, u, fn != 'soon', exact=True)
        except RuntimeError:
            continue
        ctx.count('cmp/' + fn + '/' + tag)
        return [fn, spec, sec, 1 if iso else 0]
    spec, iso = gen_repr(ctx, gen_instant(rng), fn != 'soon')
    ctx.count('cmp/' + fn + '/unaligned')
    return [fn, spec, ['int', rng.randrange(-100, 100)], 1 if iso else 0]


def gen_now_for_boundary(ctx):
    """an override instant; biased so that now +- seconds stays representable often enough"""
    return gen_instant(ctx.rng)


# --------------------------------------------------------------------------
# cases

# --------------------------------------------------------------------------
# ambiguous wall-clock readings (the repeated interval after an offset decrease): both `fold`
# readings of one wall time compare and hash equal although they denote different instants

_FOLDS = {}
CALLS_WITH_DT = ('norm', 'older', 'newer', 'soon')


def zone_transitions(key):
    """[(T, before, after)]: UTC instants T (1990..2037) at which the zone's offset changes from `before` to
    `after` us.  after < before: the wall readings of [T - shift, T) are repeated by [T, T + shift) (overlap,
    told apart by `fold`); after > before: the wall readings [T + before, T + after) do not exist (gap)."""
    if key in _FOLDS:
        return _FOLDS[key]
    z = zoneinfo.ZoneInfo(key)

    def off(u):
        return off_us(dt_of(u).replace(tzinfo=UTC).astimezone(z))
    out = []
    u, end = us_of(DT(1990, 1, 1)), us_of(DT(2037, 12, 31))
    prev = off(u)
    while u < end:
        nxt = u + DAY_US
        o = off(nxt)
        if o != prev:
            lo, hi = u, nxt
            while hi - lo > 10 ** 6:
                mid = (lo + hi) // 2 // 10 ** 6 * 10 ** 6
                if off(mid) == prev:
                    lo = mid
                else:
                    hi = mid
            if off(hi - 1) == prev and off(hi) == o:
                out.append((hi, prev, o))
        prev, u = o, nxt
    _FOLDS[key] = out
    return out


def fold_transitions(key):
    """[(T, shift)]: the offset decreases (overlaps) among zone_transitions"""
    return [(T, b - a) for T, b, a in zone_transitions(key) if a < b]


def dst_zones():
    return [z for z in ZONES if fold_transitions(z)]


def fold_pair(key, T, shift, pos):
    """the two specs (fold=0, fold=1) of the wall time read `pos` us into the repeated interval, or None"""
    z = zoneinfo.ZoneInfo(key)
    u0 = T - shift + pos
    u1 = u0 + shift
    a = dt_of(u0).replace(tzinfo=UTC).astimezone(z)
    b = dt_of(u1).replace(tzinfo=UTC).astimezone(z)
    if us_of(a) != us_of(b) or (a.fold, b.fold) != (0, 1):
        return None
    loc = us_of(a)
    return ({'us': loc, 'tz': ['zone', key, 0], 'utc': u0}, {'us': loc, 'tz': ['zone', key, 1], 'utc': u1})


def gen_fold_pair(ctx):
    rng = ctx.rng
    zs = dst_zones()
    for _ in range(20):
        if not zs:
            return None
        key = rng.choice(zs)
        T, shift = rng.choice(fold_transitions(key))
        pos = rng.choice([0, shift - 1, rng.randrange(shift), rng.randrange(shift) // 10 ** 6 * 10 ** 6])
        pair = fold_pair(key, T, shift, pos)
        if pair:
            return pair
    return None


def call_on(ctx, what, spec, now, other=None):
    """one call of `what` on the datetime `spec`; a comparison is aligned (within 1 us) with the boundary of
    `spec` or of `other` relative to the clock `now`, so that the two answers differ about half of the time"""
    rng = ctx.rng
    if what == 'norm':
        return ['norm', spec]
    o = off_us(build_dt(spec))
    iso = 1 if what != 'soon' and o % (60 * 10 ** 6) == 0 and rng.random() < 0.25 else 0
    u = spec_utc(other if other is not None and rng.random() < 0.5 else spec)
    delta = rng.choice([-1, 0, 1])
    dist = (now - u if what == 'older' else u - now) - delta          # the seconds value wanted, in us
    if rng.random() < 0.5 and dist % 10 ** 6 == 0:
        sec = ['int', dist // 10 ** 6]
    else:
        sec = ['float', (dist / 1e6).hex()]
        if sec_us(sec) != dist or not float_ok(sec_value(sec)):      # not representable: take whole seconds
            sec = ['int', dist // 10 ** 6]
    return [what, spec, sec, iso]


def gen_foldseq(ctx):
    """Both readings of one ambiguous wall time, back to back in one process, in either order, through
    normalize_time and the three comparisons under a fixed override; some calls repeated."""
    rng = ctx.rng
    pair = gen_fold_pair(ctx)
    if pair is None:
        return gen_seq(ctx, True)
    first = rng.randrange(2)
    a, b = pair[first], pair[1 - first]
    now = pair[0]['utc'] + rng.choice([0, 1, -1, rng.randrange(-3 * 3600 * 10 ** 6, 3 * 3600 * 10 ** 6),
                                       rng.randrange(-10 ** 12, 10 ** 12)])
    what = rng.choice(['norm', 'norm', 'older', 'newer', 'soon', 'mixed'])
    ops = []
    for spec, oth in ((a, b), (b, a)) + (((a, b), (b, a)) if rng.random() < 0.3 else ()):
        w = rng.choice(['norm', 'older', 'newer', 'soon']) if what == 'mixed' else what
        ops.append(call_on(ctx, w, spec, now, oth))
        if rng.random() < 0.15:
            ops.append(list(ops[-1]))                                 # the very same call again
    ctx.count('fold/' + what + '/fold%d-first' % first)
    return {'kind': 'seq', 'init': now, 'ops': ops, 'fixture': rng.random() < 0.1}


def sec_for(dist):
    """a seconds argument whose timedelta is `dist` us if that can be said exactly, else the whole seconds below"""
    if dist % 10 ** 6 == 0:
        return ['int', dist // 10 ** 6]
    sec = ['float', (dist / 1e6).hex()]
    if sec_us(sec) == dist and float_ok(sec_value(sec)):
        return sec
    return ['int', dist // 10 ** 6]


def gen_transition_seq(ctx):
    """Around one offset change of a named zone (gap or overlap): the datetime is a wall time inside the repeated
    interval (either fold), inside the gap (a reading that does not exist, either fold) or next to the interval; the
    override instant lies within two hours of the transition (inside the overlap / the skipped hour included); the
    seconds are chosen so that the instant the datetime is compared with (now - s, now + s) is the datetime's own
    instant, the transition, the other pass of the same wall reading, or any instant nearby, +-1 us."""
    rng = ctx.rng
    zs = [z for z in ZONES if zone_transitions(z)]
    if not zs:
        return gen_seq(ctx, True)
    key = rng.choice(zs)
    T, ob, oa = rng.choice(zone_transitions(key))
    shift = abs(oa - ob)
    hour2 = 2 * 3600 * 10 ** 6
    ops = []
    now = init = T + rng.choice([0, -1, 1, rng.randrange(-shift, shift + 1), rng.randrange(-hour2, hour2)])
    for _ in range(rng.randrange(1, 5)):
        # the wall reading
        lo = T + min(ob, oa)                      # first reading of the repeated / skipped interval
        pos = rng.choice([0, shift - 1, rng.randrange(shift), rng.randrange(shift) // 10 ** 6 * 10 ** 6,
                          -1, shift, rng.randrange(-hour2, hour2)])
        loc = lo + pos
        fold = rng.randrange(2)
        spec = {'us': loc, 'tz': ['zone', key, fold]}
        inside = 0 <= pos < shift
        if inside:          # PEP 495: fold=0 reads the interval with the offset before the change, fold=1 after it
            spec['utc'] = loc - (ob if fold == 0 else oa)
            kind = ('overlap' if oa < ob else 'gap') + '/fold%d' % fold
        else:
            kind = 'near-' + ('overlap' if oa < ob else 'gap')
        u = spec_utc(spec)
        if inside and loc - off_us(build_dt(spec)) != u:      # the tz database disagrees with the construction
            ctx.count('transition/skipped-construction-mismatch')
            continue
        what = rng.choice(['norm', 'older', 'newer', 'soon', 'soon'])
        if what == 'norm':
            ops.append(['norm', spec])
        else:
            # X: the instant the datetime's instant is compared with
            X = rng.choice([u, u, T, u + (oa - ob), u - (oa - ob), T + rng.randrange(-hour2, hour2),
                            u + rng.randrange(-shift, shift + 1)]) + rng.choice([-1, 0, 0, 1])
            sec = sec_for(now - X if what == 'older' else X - now)
            iso = 1 if what != 'soon' and rng.random() < 0.15 and off_us(build_dt(spec)) % (60 * 10 ** 6) == 0 else 0
            ops.append([what, spec, sec, iso])
        ctx.count('transition/' + kind + '/' + what)
        if rng.random() < 0.25:
            now = T + rng.randrange(-hour2, hour2)
            ops.append(['set', now])
    if not ops:
        return gen_seq(ctx, True)
    return {'kind': 'seq', 'init': init, 'ops': ops, 'fixture': rng.random() < 0.1}


def twin(spec):
    """the other `fold` reading of a zone-aware spec (same key for ==/hash when the wall time is ambiguous)"""
    if spec.get('tz') and spec['tz'][0] == 'zone':
        return {'us': spec['us'], 'tz': ['zone', spec['tz'][1], 1 - spec['tz'][2]]}
    return None


def gen_seq(ctx, long):
    rng = ctx.rng
    ops = []
    clock = None
    init = None
    if rng.random() < 0.9:
        init = clock = gen_now_for_boundary(ctx)
    n = rng.randrange(3, 14) if long else rng.randrange(1, 3)
    for _ in range(n):
        k = rng.randrange(20) if long else rng.randrange(8, 20)
        if k == 0:
            clock = gen_instant(rng)
            ops.append(['set', clock])
        elif k == 1:
            clock = None
            ops.append(['clear'])
        elif k < 5:
            d = rng.choice([0, 1, -1, 10 ** 6, -10 ** 6, rng.randrange(-10 ** 9, 10 ** 9),
                            rng.randrange(-10 ** 13, 10 ** 13), rng.randrange(-MAX_US, MAX_US)])
            ops.append(['advd', d])
            if clock is not None and in_range(clock + d):
                clock += d
        elif k < 8:
            s = gen_secs(ctx)
            ops.append(['advs', s])
            w = sec_us(s)
            if clock is not None and TD_MIN_US <= w <= TD_MAX_US and in_range(clock + w):
                clock += w
        elif k < 10:
            ops.append(['now', rng.randrange(2)])
        elif k < 12:
            ops.append(['ts', rng.randrange(2)])
        elif k < 14 and long and any(op[0] in CALLS_WITH_DT for op in ops):
            # an earlier call again - unchanged, on the other fold reading, or with other seconds - possibly after
            # the clock moved: the answer may depend on this call's arguments and the override cell only
            old = rng.choice([op for op in ops if op[0] in CALLS_WITH_DT])
            new = [old[0], dict(old[1])] + [x for x in old[2:]]
            j = rng.randrange(4)
            if (j == 1 and not twin(old[1])) or (j == 2 and new[0] == 'norm') or (j == 3 and old[0] == 'norm'):
                j = 0
            if j == 1:
                new[1] = twin(old[1])
                if new[0] != 'norm' and new[3]:
                    o = off_us(build_dt(new[1]))
                    new[3] = 1 if o % (60 * 10 ** 6) == 0 else 0
            elif j == 2:
                new[2] = gen_secs(ctx)
            elif j == 3:
                new = ['norm', dict(old[1])]
            ctx.count('seq/repeated-call/' + ['same', 'fold-twin', 'other-seconds', 'as-normalize'][j])
            ops.append(new)
        elif k < 15 and long:
            u = gen_instant(rng)
            ops.append(['norm', gen_repr(ctx, u, False)[0]])
        else:
            ops.append(gen_cmp(ctx, clock if clock is not None else gen_instant(rng)))
    return {'kind': 'seq', 'init': init, 'ops': ops, 'fixture': rng.random() < 0.25}


def gen_fields(rng, valid):
    d = dt_of(gen_instant(rng))
    f = [d.year, d.month, d.day, d.hour, d.minute, d.second, d.microsecond]
    if not valid:
        i = rng.randrange(7)
        f[i] = rng.choice([[0, 10000, -1], [0, 13], [0, 31, 30, 29, 32], [-1, 24], [-1, 60], [-1, 60, 61, 59, 100],
                           [-1, 10 ** 6, 999999]][i])
    return f


def gen_marshall(ctx):
    rng = ctx.rng
    u = gen_instant(rng)
    k = rng.randrange(12)
    if k < 3:
        tz = None
    elif k < 5:
        tz = ['utc']
    elif k == 5:
        tz = ['named', 0, 'UTC+00:00']
    elif k == 6:
        tz = ['fixed', 0]
    elif k == 7:
        tz = ['zone', 'UTC', 0]
    elif k == 8:
        tz = ['zone', rng.choice(ZONES), 0] if ZONES else None
    elif k == 9:
        tz = ['fixed', gen_offset(rng)]
    elif k == 10:
        tz = ['named', gen_offset(rng), rng.choice(['UTC', 'Europe/Paris', 'X', ''])]
    else:
        tz = ['named', 0, 'UTC']
    return {'kind': 'marshall', 'dt': {'us': u, 'tz': tz}, 'leap': rng.random() < 0.4,
            'via_override': tz is None and rng.random() < 0.3, 'times': rng.choice([1, 2, 2, 3])}


def gen_unmarshall(ctx):
    rng = ctx.rng
    f = gen_fields(rng, rng.random() < 0.6)
    if rng.random() < 0.3:
        f[5] = rng.choice([59, 60, 61, 62, 1000])
    k = rng.randrange(4)
    tz = 'absent' if k == 0 else ('none' if k == 1 else rng.choice(ZONE_KEYS))
    return {'kind': 'unmarshall', 'fields': f, 'tzname': tz, 'times': rng.choice([2, 2, 3])}


def local_transition_walls(ptz):
    """wall-clock readings at which the process zone changes offset (IANA keys only; [] otherwise)"""
    if ptz in ALL_ZONE_KEYS:
        return [w for T, ob, oa in zone_transitions(ptz) for w in (T + ob, T + oa)]
    return []


def gen_ptz_seq(ctx):
    """Clock reads under a process time zone: override instants in (local) summer and winter, at the wall-clock
    readings where that zone changes offset, around 1970 and at the range edges; timestamps before and after
    advances of days/months (across a DST change); comparisons at the boundary."""
    rng = ctx.rng
    ptz = rng.choice(PROCESS_TZS)
    walls = local_transition_walls(ptz)
    k = rng.randrange(10)
    if k < 4:
        y = rng.randrange(1971, 2038)
        c = us_of(DT(y, rng.choice([1, 2, 6, 7, 8, 12]), rng.randrange(1, 29), rng.randrange(24), rng.randrange(60),
                     rng.randrange(60), rng.choice([0, 1, 999999, rng.randrange(10 ** 6)])))
    elif k < 7 and walls:
        c = rng.choice(walls) + rng.choice([0, -1, 1, -10 ** 6, rng.randrange(-2 * 3600 * 10 ** 6, 2 * 3600 * 10 ** 6)])
    else:
        c = gen_instant(rng)
    init, ops = c, []
    for _ in range(rng.randrange(2, 8)):
        j = rng.randrange(10)
        if j < 4:
            ops.append(['ts', rng.randrange(2)])
        elif j < 5:
            ops.append(['now', rng.randrange(2)])
        elif j < 7:
            d = rng.choice([1, -1, 86400 * 10 ** 6, 120 * DAY_US, -120 * DAY_US, 183 * DAY_US,
                            rng.randrange(-400 * DAY_US, 400 * DAY_US)])
            if in_range(c + d):
                c += d
            ops.append(['advd', d])
        elif j < 8:
            sec = rng.choice([['int', 86400 * 120], ['int', -86400 * 200], ['float', (3600.5).hex()], gen_secs(ctx)])
            w = sec_us(sec)
            if TD_MIN_US <= w <= TD_MAX_US and in_range(c + w):
                c += w
            ops.append(['advs', sec])
        else:
            ops.append(gen_cmp(ctx, c))
    if not any(op[0] == 'ts' for op in ops):
        ops.append(['ts', rng.randrange(2)])
    ctx.count('ptz/' + ptz.split(',')[0])
    return {'kind': 'seq', 'init': init, 'ops': ops, 'fixture': rng.random() < 0.15, 'ptz': ptz}


def gen_fixture_mix(ctx):
    """One override cell, two ways in: TimeFixture objects - the class itself or a subclass overriding one public
    method or none - (set up, advanced, cleaned up, set up again, nested) and the timeutils functions
    (set_time_override, advance_time_*, clear_time_override), interleaved at random, with reads in between; the
    expected clock is the single cell of the property."""
    rng = ctx.rng
    fixtures = []
    for _ in range(rng.randrange(1, 4)):
        t = gen_instant(rng) if rng.random() < 0.3 else rng.randrange(730000 * DAY_US, 745000 * DAY_US)
        if rng.random() < 0.5:
            kind = rng.choice(sorted(FX_KINDS))
            if kind == 'Up_plus_day' and not in_range(t + DAY_US):
                kind = 'sub'
            fixtures.append([t, kind])
            ctx.count('fixture-mix/subclass/' + kind)
        else:
            fixtures.append(t)
    case = {'kind': 'seq', 'init': None, 'ops': [], 'fixture': False, 'fixtures': fixtures}
    up, ops = [], case['ops']
    if rng.random() < 0.3:
        case['init'] = gen_instant(rng)

    def clock():
        cs = spec_clocks(dict(case, ops=ops + [['now', 0]]))
        return cs[-1]

    def adv_amount():
        return rng.choice([1, -1, 10 ** 6, 1500000, -2750001, 60 * 10 ** 6, -3600 * 10 ** 6,
                           rng.randrange(-10 ** 9, 10 ** 9), rng.randrange(-10 ** 13, 10 ** 13)])
    for _ in range(rng.randrange(4, 16)):
        k = rng.randrange(20)
        down = [i for i in range(len(fixtures)) if i not in up]
        if k < 3 and down:
            i = rng.choice(down)
            up.append(i)
            ops.append(['fxup', i])
        elif k < 5 and up:
            i = rng.choice(up)
            up.remove(i)
            ops.append(['fxdown', i])
        elif k < 9:
            i = rng.choice(up) if up and rng.random() < 0.85 else rng.randrange(len(fixtures))
            ops.append(['fxadvd', i, adv_amount()] if rng.random() < 0.5 else ['fxadvs', i, gen_secs(ctx)])
        elif k < 11:
            ops.append(['advd', adv_amount()] if rng.random() < 0.5 else ['advs', gen_secs(ctx)])
        elif k < 12:
            ops.append(['set', gen_instant(rng)])
        elif k < 13:
            ops.append(['clear'])
        elif k < 15:
            ops.append(['now', rng.randrange(2)])
        elif k < 17:
            ops.append(['ts', rng.randrange(2)])
        else:
            c = clock()
            ops.append(gen_cmp(ctx, c if c is not None else gen_instant(rng)))
    ops.append(['now', 0])
    ctx.count('fixture-mix/%d-fixtures' % len(fixtures))
    return case


def gen_case(ctx):
    """a case; about a third of all cases are run under a process time zone other than the harness's own"""
    c = gen_case_plain(ctx)
    if 'ptz' not in c and c['kind'] != 'secs' and ctx.rng.random() < 0.3:
        c['ptz'] = ctx.rng.choice(PROCESS_TZS)
    return c


def gen_case_plain(ctx):
    rng = ctx.rng
    k = rng.randrange(116)
    if k >= 108:
        return gen_fixture_mix(ctx)
    if k >= 100:
        return gen_ptz_seq(ctx)
    if k < 7:
        return gen_foldseq(ctx)
    if k < 16:
        return gen_transition_seq(ctx)
    if k < 45:
        now = gen_now_for_boundary(ctx)
        return {'kind': 'seq', 'init': now, 'ops': [gen_cmp(ctx, now)], 'fixture': False}
    if k < 65:
        return gen_seq(ctx, True)
    if k < 70:
        return gen_seq(ctx, False)
    if k < 80:
        u = gen_instant(rng)
        if rng.random() < 0.15:
            u = rng.choice([-rng.randrange(1, DAY_US), MAX_US + rng.randrange(1, DAY_US)])
        spec, _ = gen_repr(ctx, u, False)
        return {'kind': 'norm', 'dt': spec}
    if k < 85:
        return {'kind': 'secs', 'sec': gen_secs(ctx)}
    if k < 93:
        return gen_marshall(ctx)
    return gen_unmarshall(ctx)


def corpus():
    """fixed cases run first: the boundaries of the statement, written out"""
    now = us_of(DT(1997, 8, 29, 6, 14, 0))
    out = []
    for fn in ('older', 'newer', 'soon'):
        for delta in (-1, 0, 1):
            for sec in (['int', 10], ['float', (2.5).hex()], ['int', -3], ['int', 0], ['float', (1 / 128).hex()]):
                w = sec_us(sec)
                u = now - w - delta if fn == 'older' else now + w + delta
                for tz in (None, ['fixed', 1439 * 60 * 10 ** 6], ['fixed', -1439 * 60 * 10 ** 6], ['utc']):
                    o = tz[1] if tz and tz[0] == 'fixed' else 0
                    for iso in ((0, 1) if fn != 'soon' else (0,)):
                        out.append({'kind': 'seq', 'init': now, 'fixture': False,
                                    'ops': [[fn, {'us': u + o, 'tz': tz}, sec, iso]]})
    out.append({'kind': 'seq', 'init': now, 'fixture': True,
                'ops': [['now', 0], ['advs', ['int', 60]], ['now', 1], ['advd', -1], ['ts', 1], ['ts', 0],
                        ['advs', ['float', (-0.5).hex()]], ['now', 0], ['clear'], ['now', 0], ['advd', 1]]})
    for key in dst_zones():
        T, shift = fold_transitions(key)[-1]
        for order, pos in ((0, shift // 2), (1, shift // 2 + 250001)):
            pair = fold_pair(key, T, shift, pos)
            if not pair:
                continue
            a, b = pair[order], pair[1 - order]
            out.append({'kind': 'seq', 'init': None, 'fixture': False, 'ops': [['norm', a], ['norm', b], ['norm', a]]})
            # a fresh wall time per function (an earlier call must not have primed anything)
            for i, fn in enumerate(('older', 'newer', 'soon')):
                pr = fold_pair(key, T, shift, pos + 7 * (i + 1))
                if not pr:
                    continue
                a, b = pr[order], pr[1 - order]
                u0 = pr[0]['utc']
                # clock and seconds chosen so that the two readings get different answers
                now0 = u0 + shift // 2 if fn == 'older' else u0 - 10 ** 6
                sec = ['int', 60] if fn == 'older' else ['int', 1 + shift // (2 * 10 ** 6)]
                out.append({'kind': 'seq', 'init': now0, 'fixture': False,
                            'ops': [[fn, a, sec, 0], [fn, b, sec, 0], [fn, a, sec, 0]]})
    for key in [z for z in ZONES if zone_transitions(z)]:
        for want_gap in (False, True):
            tr = [t for t in zone_transitions(key) if (t[2] > t[1]) == want_gap]
            if not tr:
                continue
            T, ob, oa = tr[-1]
            shift = abs(oa - ob)
            loc = T + min(ob, oa) + shift // 4            # a quarter into the repeated / skipped interval
            for fold in (0, 1):
                spec = {'us': loc, 'tz': ['zone', key, fold], 'utc': loc - (ob if fold == 0 else oa)}
                u = spec['utc']
                ops = [['norm', spec]]
                for X in (u, T, u + (oa - ob), u - (oa - ob), T + shift // 2, T - shift // 2):
                    now = T + shift // 3                      # the override itself lies inside the interval
                    ops += [['soon', spec, sec_for(X - now), 0], ['newer', spec, sec_for(X - now), 0],
                            ['older', spec, sec_for(now - X), 0]]
                out.append({'kind': 'seq', 'init': T + shift // 3, 'fixture': False, 'ops': ops})
    t0, t1 = us_of(DT(2015, 1, 1, 0, 0, 0)), us_of(DT(2030, 6, 15, 12, 30, 0, 5))
    for ops in (
            # an advance through timeutils, then one through the fixture: both count
            [['fxup', 0], ['advd', 5 * 10 ** 6], ['fxadvd', 0, 10 ** 6], ['now', 0], ['ts', 1],
             ['advs', ['int', 60]], ['fxadvs', 0, ['float', (-0.5).hex()]], ['now', 0]],
            # set_time_override under a fixture, then a fixture advance
            [['fxup', 0], ['set', t1], ['fxadvs', 0, ['int', 1]], ['now', 0], ['older', {'us': t1, 'tz': None}, ['int', 0], 0]],
            # a fixture object used again starts from its constructor's instant
            [['fxup', 0], ['fxadvs', 0, ['int', 3600]], ['now', 0], ['fxdown', 0], ['now', 0], ['fxup', 0], ['now', 0],
             ['fxadvd', 0, 1], ['ts', 1]],
            # nested fixtures; the inner clean-up clears the cell; advancing through a fixture that is not up
            [['fxup', 0], ['fxup', 1], ['fxadvd', 0, 7], ['now', 0], ['fxadvd', 1, 11], ['now', 0], ['fxdown', 1],
             ['now', 0], ['fxadvd', 0, 1], ['set', t0 + 100], ['fxadvd', 1, 13], ['now', 0], ['fxdown', 0], ['now', 0]],
            [['set', t0], ['fxadvs', 1, ['int', 2]], ['advd', 3], ['fxadvd', 0, 4], ['now', 0]]):
        out.append({'kind': 'seq', 'init': None, 'fixture': False, 'fixtures': [t0, t1], 'ops': ops})
    for kind in sorted(FX_KINDS):
        out.append({'kind': 'seq', 'init': None, 'fixture': False, 'fixtures': [[t0, kind]],
                    'ops': [['fxup', 0], ['now', 0], ['fxadvs', 0, ['float', (2.5).hex()]], ['now', 0],
                            ['fxadvd', 0, 1750000], ['now', 0], ['fxadvs', 0, ['int', -3]], ['ts', 1],
                            ['advs', ['int', 1]], ['fxadvd', 0, -250000], ['now', 0], ['fxdown', 0], ['now', 0],
                            ['fxup', 0], ['now', 0]]})
    for tz in (['nulltz'], ['callback', 19800 * 10 ** 6]):
        o = tz[1] if tz[0] == 'callback' else 0
        for ptz in (None, 'Asia/Tokyo', 'America/New_York', 'Pacific/Kiritimati'):
            spec = {'us': t0 + o, 'tz': tz}
            c = {'kind': 'seq', 'init': t0 + 10 ** 6, 'fixture': False,
                 'ops': [['norm', spec], ['older', spec, ['int', 1], 0], ['older', spec, ['float', (0.999999).hex()], 0],
                         ['newer', spec, ['int', -1], 0], ['newer', spec, ['float', (-1.000001).hex()], 0],
                         ['soon', spec, ['int', -1], 0], ['soon', spec, ['float', (-1.000001).hex()], 0],
                         ['older', spec, ['int', 0], 1]]}
            if ptz:
                c['ptz'] = ptz
            out.append(c)
            out.append(dict({'kind': 'norm', 'dt': spec}, **({'ptz': ptz} if ptz else {})))
    for ptz in PROCESS_TZS:
        for y, mo in ((2020, 7), (2020, 1), (1969, 12), (1, 1), (9999, 12)):
            c = us_of(DT(y, mo, 1, 12, 0, 0, 250000))
            ops = [['ts', 0], ['ts', 1], ['now', 0], ['older', {'us': c - 10 ** 6, 'tz': None}, ['int', 1], 0],
                   ['soon', {'us': c + 10 ** 6, 'tz': ['utc']}, ['int', 1], 0]]
            if in_range(c + 120 * DAY_US):
                ops += [['advd', 120 * DAY_US], ['ts', 0], ['advs', ['int', -86400 * 240]], ['ts', 1], ['now', 1]]
            out.append({'kind': 'seq', 'init': c, 'fixture': False, 'ops': ops, 'ptz': ptz})
        for w in local_transition_walls(ptz)[-4:]:
            out.append({'kind': 'seq', 'init': w - 1, 'fixture': False, 'ptz': ptz,
                        'ops': [['ts', 1], ['advd', 1], ['ts', 0], ['advs', ['int', 1800]], ['ts', 0], ['ts', 1]]})
    out.append({'kind': 'norm', 'dt': {'us': MAX_US, 'tz': ['fixed', -3600 * 10 ** 6]}})
    out.append({'kind': 'norm', 'dt': {'us': 0, 'tz': ['fixed', 3600 * 10 ** 6]}})
    for tz in (None, ['utc'], ['named', 0, 'UTC+00:00'], ['zone', 'UTC', 0], ['fixed', 0]):
        for leap in (False, True):
            out.append({'kind': 'marshall', 'dt': {'us': now + 123456, 'tz': tz}, 'leap': leap,
                        'via_override': False, 'times': 3})
    out.append({'kind': 'marshall', 'dt': {'us': now + 999999, 'tz': None}, 'leap': True, 'via_override': True,
                'times': 2})
    for tzn in ('absent', 'none', 'UTC', 'UTC+00:00', 'Nope/Zone', ''):
        for sec in (5, 60):
            out.append({'kind': 'unmarshall', 'fields': [2016, 12, 31, 23, 59, sec, 999999], 'tzname': tzn, 'times': 3})
    return out


# --------------------------------------------------------------------------
# running one case on the implementation / building the model request

def fields_str(f):
    return ','.join(str(x) for x in f)


def dt_fields(d):
    return [d.year, d.month, d.day, d.hour, d.minute, d.second, d.microsecond]


def tz_entry(v, absent):
    if v is absent:
        return 'absent'
    if v is None:
        return 'none'
    return 'name:' + common.hexs(v)


def canon_key(n):
    return 'UTC' if n == 'UTC+00:00' else n


def zone_lookup(key):
    """what zoneinfo.ZoneInfo(key) does (the tz database is a parameter of the model)"""
    try:
        zoneinfo.ZoneInfo(key)
        return 'ok'
    except Exception as e:
        return type(e).__name__


def lookup_word(lk):
    # anything else cannot be expressed; the replies will then differ and be reported
    return lk if lk in ('ok', 'ZoneInfoNotFoundError', 'ValueError') else 'ok'


def fmt_num(r):
    if isinstance(r, bool):
        return 'bool:%d' % r
    if isinstance(r, int):
        return 'int:%d' % r
    if isinstance(r, float):
        return 'float:' + r.hex()
    return 'other:' + type(r).__name__


class SeqRunner:
    """Executes a call sequence on the real timeutils (optionally through TimeFixture)."""

    def __init__(self, fixture, fixtures=()):
        from oslo_utils import timeutils
        self.t = timeutils
        self.use_fixture = fixture
        self.fx = None
        # TimeFixture objects the case names by index (constructing one does not touch the clock); a fixture may
        # be set up, cleaned up and set up again, several may be up at once
        self.fxs = []
        self.up = []
        for e in fixtures:
            t0, kind = fx_entry(e)
            self.fxs.append(fixture_class(kind)(dt_of(t0)))

    def set(self, us):
        if self.use_fixture:
            from oslo_utils import fixture
            if self.fx is not None:
                self.fx.cleanUp()
            self.fx = fixture.TimeFixture(dt_of(us))
            self.fx.setUp()
        else:
            self.t.set_time_override(dt_of(us))

    def call(self, op):
        t = self.t
        k = op[0]
        overridden = t.utcnow.override_time is not None
        if k == 'set':
            return 'none' if self.set(op[1]) is None else 'other'
        if k == 'clear':
            if self.fx is not None:
                self.fx.cleanUp()
                self.fx = None
                return 'none'
            return 'none' if t.clear_time_override() is None else 'other'
        if k == 'fxup':
            self.up.append(op[1])
            return 'none' if self.fxs[op[1]].setUp() is None else 'other'
        if k == 'fxdown':
            self.up.remove(op[1])
            return 'none' if self.fxs[op[1]].cleanUp() is None else 'other'
        if k == 'fxadvd':
            return 'none' if self.fxs[op[1]].advance_time_delta(TD(microseconds=op[2])) is None else 'other'
        if k == 'fxadvs':
            return 'none' if self.fxs[op[1]].advance_time_seconds(sec_value(op[2])) is None else 'other'
        if k == 'advd':
            f = self.fx.advance_time_delta if self.fx is not None else t.advance_time_delta
            return 'none' if f(TD(microseconds=op[1])) is None else 'other'
        if k == 'advs':
            f = self.fx.advance_time_seconds if self.fx is not None else t.advance_time_seconds
            return 'none' if f(sec_value(op[1])) is None else 'other'
        if k == 'now':
            r = t.utcnow(with_timezone=bool(op[1]))
            if not overridden:
                return 'real' if isinstance(r, DT) else 'other'
            if not isinstance(r, DT) or r.tzinfo is not None:
                return 'other:' + repr(r)
            return 'dt:%d' % us_of(r)
        if k == 'ts':
            r = t.utcnow_ts(microsecond=bool(op[1]))
            if not overridden:
                return 'real' if isinstance(r, (int, float)) else 'other'
            return fmt_num(r)
        if k in ('older', 'newer', 'soon'):
            arg = build_dt(op[1])
            if op[3]:
                arg = arg.isoformat()
            f = {'older': t.is_older_than, 'newer': t.is_newer_than, 'soon': t.is_soon}[k]
            try:
                r = f(arg, sec_value(op[2]))
            except OverflowError:
                if not overridden:
                    return 'real'       # against the real clock: not modelled (only "the real clock was read")
                raise
            if not overridden:
                return 'real' if isinstance(r, bool) else 'other'
            return fmt_num(r) if isinstance(r, bool) else 'other:' + repr(r)
        if k == 'norm':
            r = t.normalize_time(build_dt(op[1]))
            if not isinstance(r, DT) or r.utcoffset() is not None:       # naive = no offset (Python's definition)
                return 'other:' + repr(r)
            return 'dt:%d' % us_of(r)
        raise ValueError(op)

    def run(self, init, ops):
        t = self.t
        t.clear_time_override()
        outs = []
        try:
            if init is not None:
                self.set(init)
            for op in ops:
                try:
                    outs.append(self.call(op))
                except Exception as e:
                    outs.append(type(e).__name__)
            st = t.utcnow.override_time
            state = 'N' if st is None else (str(us_of(st)) if isinstance(st, DT) and st.tzinfo is None
                                           else 'other:' + repr(st))
        finally:
            if self.fx is not None:
                self.fx.cleanUp()
                self.fx = None
            for i in self.up:
                try:
                    self.fxs[i].cleanUp()
                except Exception:
                    pass
            self.up = []
            t.clear_time_override()
        return outs, state


FX_OPS = ('fxup', 'fxdown', 'fxadvd', 'fxadvs')
AMBIENT_NAME = os.environ.get('VERIF_AMBIENT') or None      # the ambient-sweep configuration this interpreter runs under

# A fixture of a case is an instant t (the base class TimeFixture(t)) or [t, kind]: a SUBCLASS of TimeFixture that
# overrides exactly one public method (or none).  Every method it does not override must behave as on the base
# class - i.e. act on the one override cell as the property says; the overridden one does what the subclass says.
FX_KINDS = {
    'sub': 'class Sub(TimeFixture): pass',
    'D_noop': 'advance_time_delta overridden: does nothing',
    'D_trunc': 'advance_time_delta overridden: drops the sub-second part, then super()',
    'D_via_seconds': 'advance_time_delta overridden: self.advance_time_seconds(td.total_seconds())',
    'S_noop': 'advance_time_seconds overridden: does nothing',
    'S_via_delta': 'advance_time_seconds overridden: self.advance_time_delta(timedelta(seconds=s))',
    'Up_plus_day': 'setUp overridden: super().setUp() then timeutils.advance_time_delta(1 day)',
}
_FX_CLASSES = {}


def fx_entry(e):
    return (e, 'base') if isinstance(e, int) else (e[0], e[1])


def fixture_class(kind):
    from oslo_utils import fixture as fm
    from oslo_utils import timeutils
    key = (id(fm), kind)
    if key in _FX_CLASSES:
        return _FX_CLASSES[key]
    base = fm.TimeFixture
    if kind == 'base':
        cls = base
    elif kind == 'sub':
        class cls(base):
            pass
    elif kind == 'D_noop':
        class cls(base):
            def advance_time_delta(self, timedelta):
                return None
    elif kind == 'D_trunc':
        class cls(base):
            def advance_time_delta(self, timedelta):
                return super().advance_time_delta(timedelta - timedelta % TD(seconds=1))
    elif kind == 'D_via_seconds':
        class cls(base):
            def advance_time_delta(self, timedelta):
                return self.advance_time_seconds(timedelta.total_seconds())
    elif kind == 'S_noop':
        class cls(base):
            def advance_time_seconds(self, seconds):
                return None
    elif kind == 'S_via_delta':
        class cls(base):
            def advance_time_seconds(self, seconds):
                return self.advance_time_delta(TD(seconds=seconds))
    elif kind == 'Up_plus_day':
        class cls(base):
            def setUp(self):
                super().setUp()
                timeutils.advance_time_delta(TD(days=1))
    else:
        raise ValueError(kind)
    _FX_CLASSES[key] = cls
    return cls


def prims(op, fixtures=()):
    """the cell operations a call amounts to: [(kind, argument)] with kind in set / clear / advd / advs.
    For a fixture call that is what the base class does, unless this subclass overrides that very method."""
    k = op[0]
    if k not in FX_OPS:
        return [(k, op[1] if len(op) > 1 else None)] if k in ('set', 'clear', 'advd', 'advs') else None
    t, kind = fx_entry(fixtures[op[1]])
    if k == 'fxup':
        return [('set', t)] + ([('advd', DAY_US)] if kind == 'Up_plus_day' else [])
    if k == 'fxdown':
        return [('clear', None)]
    if k == 'fxadvd':
        d = op[2]
        if kind == 'D_noop':
            return []
        if kind == 'D_trunc':
            return [('advd', d - d % 10 ** 6)]
        # D_via_seconds: total_seconds() and back is exact below 2^52 us (the generator stays far below)
        return [('advd', d)]
    if kind == 'S_noop':
        return []
    return [('advs', op[2])]          # inherited advance_time_seconds, and S_via_delta, move by timedelta(seconds=s)


def model_ops(op, fixtures=()):
    """the model's ops for one call (fixture entry points use the fixture aliases of the cell ops)"""
    if op[0] not in FX_OPS:
        return [op_str(op, fixtures)]
    out = []
    for k, a in prims(op, fixtures):
        out.append({'set': 'fxup %d', 'advd': 'fxadvd %d'}[k] % a if k in ('set', 'advd') else
                   'fxdown' if k == 'clear' else 'fxadvs ' + sec_str(a))
    return out


def canon_case(case):
    """drop fixture life-cycle calls that cannot be made (setUp of a fixture that is up, cleanUp of one that is
    not, an index without a fixture) - shrinking may produce them; everything else is kept"""
    if case.get('kind') != 'seq' or not any(op[0] in FX_OPS for op in case['ops']):
        return case
    n, up, ops = len(case.get('fixtures') or []), set(), []
    for op in case['ops']:
        if op[0] in FX_OPS:
            if not 0 <= op[1] < n or (op[0] == 'fxup' and op[1] in up) or (op[0] == 'fxdown' and op[1] not in up):
                continue
            if op[0] == 'fxup':
                up.add(op[1])
            elif op[0] == 'fxdown':
                up.discard(op[1])
        ops.append(op)
    return dict(case, ops=ops)


def op_str(op, fixtures=()):
    k = op[0]
    if k == 'fxup':
        return 'fxup %d' % fixtures[op[1]]          # setUp installs the constructor's instant
    if k == 'fxdown':
        return 'fxdown'
    if k == 'fxadvd':
        return 'fxadvd %d' % op[2]
    if k == 'fxadvs':
        return 'fxadvs ' + sec_str(op[2])
    if k in ('set', 'advd', 'now', 'ts'):
        return '%s %d' % (k, op[1])
    if k == 'advs':
        return 'advs ' + sec_str(op[1])
    if k == 'clear':
        return 'clear'
    return '%s %s %s' % (k, model_dt(op[1], bool(op[3])), sec_str(op[2]))


# The process environment: the model is environment-free (the override cell holds a naive UTC instant, every
# datetime carries its own offset), so every answer must be the same whatever time zone the *process* runs in.
# A case may carry 'ptz': the value of TZ under which the implementation is called (time.tzset(), restored after).
PROCESS_TZS = ['UTC', 'Europe/Berlin', 'America/New_York', 'Australia/Lord_Howe', 'Asia/Kolkata', 'Pacific/Apia',
               'America/St_Johns', 'Asia/Kathmandu',
               'XST-3:17XDT-5:02,M2.3.4/01:30,M9.1.2/23:15',      # POSIX rule: odd offsets, 1h45 DST Feb..Sep
               'AAA+11:30BBB+9,J60/0,J300/26',                     # west of UTC, 2h30 DST, Julian-day rule
               'EST5EDT,M3.2.0,M11.1.0']


@contextlib.contextmanager
def process_tz(tz):
    if not tz:
        yield
        return
    old = os.environ.get('TZ')
    os.environ['TZ'] = tz
    time.tzset()
    try:
        yield
    finally:
        if old is None:
            os.environ.pop('TZ', None)
        else:
            os.environ['TZ'] = old
        time.tzset()


def run_impl(case):
    """canonical outcome of the case on the implementation (called under the case's process time zone)"""
    case = canon_case(case)
    with process_tz(case.get('ptz')):
        return run_impl_here(case)


def run_impl_here(case):
    from oslo_utils import timeutils
    _remember(case)
    kind = case['kind']
    if kind == 'seq':
        outs, state = SeqRunner(case.get('fixture', False), case.get('fixtures') or ()).run(case['init'], case['ops'])
        return [';'.join(outs), state]
    if kind == 'norm':
        try:
            r = timeutils.normalize_time(build_dt(case['dt']))
        except Exception as e:
            return ['err:' + type(e).__name__]
        o = off_us(r)
        return ['ok:n:%d' % us_of(r) if o is None else 'ok:a:%d:%s' % (us_of(r), o)]
    if kind == 'secs':
        try:
            return ['ok:%d' % (TD(seconds=sec_value(case['sec'])) // ONE_US)]
        except Exception as e:
            return ['err:' + type(e).__name__]
    if kind == 'marshall':
        d = build_dt(case['dt'])
        timeutils.clear_time_override()
        try:
            if case.get('via_override'):
                timeutils.set_time_override(d)
                m = timeutils.marshall_now()
            else:
                m = timeutils.marshall_now(d)
        except Exception as e:
            return ['err:' + type(e).__name__]
        finally:
            timeutils.clear_time_override()
        absent = object()
        out = [fields_str([m[k] for k in ('year', 'month', 'day', 'hour', 'minute', 'second', 'microsecond')]),
               tz_entry(m.get('tzname', absent), absent)]
        extra = sorted(set(m) - {'year', 'month', 'day', 'hour', 'minute', 'second', 'microsecond', 'tzname'})
        if extra:
            out.append('extra:' + ','.join(extra))
        if case.get('leap'):
            m = dict(m, second=60)
        outs, status, first = unmarshall_many(m, case.get('times', 2))
        out += outs + [status]
        # marshall the first result again
        try:
            m2 = timeutils.marshall_now(first) if isinstance(first, DT) else None
        except Exception as e:
            m2 = None
            out.append('re:err:' + type(e).__name__)
        else:
            out.append('re:-' if m2 is None else
                       're:' + fields_str([m2[k] for k in FIELD_KEYS]) + '\t' + tz_entry(m2.get('tzname', absent), absent))
        return out
    if kind == 'unmarshall':
        outs, status, _ = unmarshall_many(record_of(case), case.get('times', 2))
        return outs + [status]
    raise ValueError(kind)


FIELD_KEYS = ('year', 'month', 'day', 'hour', 'minute', 'second', 'microsecond')


def snapshot(m):
    return sorted((repr(k), repr(v)) for k, v in m.items())


def unmarshall_many(m, times):
    """unmarshall_time on the very same dict object `times` times: the canonical outcomes, whether the dict was
    left as it was, and the first result"""
    before = snapshot(m)
    outs, first = [], None
    for i in range(times):
        o, r = unmarshall_obj(m)
        outs.append(o)
        if i == 0:
            first = r
    after = snapshot(m)
    return outs, 'arg:unchanged' if after == before else 'arg:changed-to:' + repr(m), first


def record_of(case):
    f = case['fields']
    m = dict(zip(('year', 'month', 'day', 'hour', 'minute', 'second', 'microsecond'), f))
    if case['tzname'] == 'none':
        m['tzname'] = None
    elif case['tzname'] != 'absent':
        m['tzname'] = case['tzname']
    return m


def unmarshall_obj(m):
    from oslo_utils import timeutils
    try:
        r = timeutils.unmarshall_time(m)
    except Exception as e:
        return 'err:' + type(e).__name__, None
    if not isinstance(r, DT):
        return 'other:' + repr(r), None
    if r.tzinfo is None:
        tz = 'naive'
    else:
        tz = 'name:' + common.hexs(getattr(r.tzinfo, 'key', None) or ('?' + repr(r.tzinfo)))
    return 'ok\t' + fields_str(dt_fields(r)) + '\t' + tz, r


def unmarshall_req(m):
    absent = object()
    n = m.get('tzname', absent)
    lk = lookup_word(zone_lookup(canon_key(n))) if isinstance(n, str) and n else 'ok'
    return req('unmarshall', fields_str([m[k] for k in ('year', 'month', 'day', 'hour', 'minute', 'second',
                                                         'microsecond')]), tz_entry(n, absent), lk)


def model_requests(case):
    """request lines for the case (one or two)"""
    case = canon_case(case)
    kind = case['kind']
    if kind == 'seq':
        fxt = case.get('fixtures') or ()
        return [req('run', 'N' if case['init'] is None else case['init'],
                    ';'.join(m for op in case['ops'] if op[0] != 'norm' for m in model_ops(op, fxt)) or '-')] + \
               [req('norm', model_dt(op[1])) for op in case['ops'] if op[0] == 'norm']
    if kind == 'norm':
        return [req('norm', model_dt(case['dt']))]
    if kind == 'secs':
        return [req('secs', sec_str(case['sec']))]
    if kind == 'marshall':
        d = build_dt(case['dt'])
        f = dt_fields(d)
        leap = 1 if case.get('leap') else 0
        n = None if d.tzinfo is None else d.tzinfo.tzname(None)
        # the tz database is a parameter: what ZoneInfo() says about the key that will be asked for
        lk = lookup_word(zone_lookup(canon_key(n))) if n else 'ok'
        if case.get('via_override'):
            # the calendar is a parameter: the fields of the override instant are supplied with the request
            return [req('roundtrip_now', case['dt']['us'], fields_str(f), leap, lk)]
        tz = 'naive' if d.tzinfo is None else ('none' if n is None else 'name:' + common.hexs(n))
        return [req('roundtrip', fields_str(f), tz, leap, lk)]
    if kind == 'unmarshall':
        return [unmarshall_req(record_of(case))]
    raise ValueError(kind)


def same_out(impl, model):
    if impl == model:
        return True
    if impl.startswith('float:') and model.startswith('us:'):
        x = Fraction(float.fromhex(impl[6:]))
        q = Fraction(int(model[3:]), 10 ** 6)
        return abs(x - q) <= Fraction(1, 2 ** 52) * max(1, abs(q))
    return False


def compare(case, impl, replies):
    """impl: canonical strings; replies: the model's reply lines. Returns (equal, model canonical)."""
    case = canon_case(case)
    kind = case['kind']
    if kind == 'seq':
        parts = replies[0].split('\t')
        if len(parts) != 2:
            return False, replies
        fxt = case.get('fixtures') or ()
        run_outs = iter(parts[0].split(';') if parts[0] else [])
        norm_outs = iter(replies[1:])
        mo = []
        for op in case['ops']:
            if op[0] == 'norm':
                r = next(norm_outs, '?')
                mo.append('dt:' + r[5:] if r.startswith('ok:n:') else (r[4:] if r.startswith('err:') else r))
            else:
                # one call may amount to several cell ops (a subclass hook) or none: the call returns None unless
                # one of them raises
                outs = [next(run_outs, '?') for _ in model_ops(op, fxt)]
                mo.append(next((o for o in outs if o != 'none'), 'none'))
        io = impl[0].split(';') if case['ops'] else []
        if AMBIENT_NAME == 'O':
            # python -O compiles out `assert utcnow.override_time is not None` in advance_time_delta: advancing
            # without an override then fails a few lines later with TypeError (None is not iterable / None += td)
            # instead of the AssertionError the model names.  Only this one misuse error is identified, only here.
            for j, op in enumerate(case['ops']):
                if op[0] in ('advd', 'advs', 'fxadvd', 'fxadvs') and j < len(io) and j < len(mo) and \
                        mo[j] == 'AssertionError' and io[j] == 'TypeError':
                    mo[j] = io[j] = 'err:no-override'
        ok = len(mo) == len(io) and all(same_out(a, b) for a, b in zip(io, mo)) and parts[1] == impl[1]
        return ok, [';'.join(mo), parts[1]]
    if kind == 'marshall':
        # model reply: fields, tz entry, unmarshall outcome (1 or 3 fields), re-marshalled record.  The model is a
        # function of the record: every further unmarshall of the same dict gives the same outcome, the dict is a
        # value (unchanged), and re-marshalling is compared where the result's tzname(None) is its key (naive, UTC)
        parts = replies[0].split('\t')
        if len(parts) < 4:
            return False, replies
        k = 5 if parts[2] == 'ok' else 3
        unm, re_m = '\t'.join(parts[2:k]), '\t'.join(parts[k:])
        times = case.get('times', 2)
        if not (unm.startswith('err:') or unm.endswith('\tnaive') or unm.endswith('\tname:' + common.hexs('UTC'))):
            re_m = impl[-1]
        model = parts[:2] + [unm] * times + ['arg:unchanged', re_m]
        return model == impl, model
    if kind == 'unmarshall':
        model = replies * case.get('times', 2) + ['arg:unchanged']
        return model == impl, model
    return replies == impl, replies


def is_nontrivial(case, impl):
    if case['kind'] == 'seq':
        return any(o.startswith(('dt:', 'int:', 'float:', 'bool:')) for o in impl[0].split(';'))
    if case['kind'] in ('marshall', 'unmarshall'):
        return any(o.startswith('ok') for o in impl)
    return impl[-1].startswith('ok')


def correspondence(ctx):
    n = 20000 if ctx.quick else 200000
    cases = corpus()
    ncorpus = len(cases)
    while len(cases) < n + ncorpus:
        cases.append(gen_case(ctx))
    lines, spans = [], []
    for c in cases:
        r = model_requests(c)
        spans.append((len(lines), len(r)))
        lines += r
    replies = ctx.driver.ask_many(lines)
    out = []
    for i, (c, (a, k)) in enumerate(zip(cases, spans)):
        ctx.evaluations += 1
        ctx.count('corr/' + ('corpus' if i < ncorpus else c['kind'] + ('/fixture' if c.get('fixture') else '')))
        impl = run_impl(c)
        for o in (impl[0].split(';') if c['kind'] == 'seq' else
                  impl[-1:] if c['kind'] not in ('marshall', 'unmarshall') else impl[-3:-2]):
            ctx.count('out/' + o.split(':')[0].split('\t')[0])
        if is_nontrivial(c, impl):
            ctx.nontrivial(common.json.dumps(c, sort_keys=True))
        if i >= ncorpus:
            ctx.sample({'case': c, 'implementation': impl}, 5)
        ok, model = compare(c, impl, replies[a:a + k])
        if not ok:
            out.append(Disagreement(c, impl, model))
    return out


# --------------------------------------------------------------------------
# failing-input search: the property stated directly on the real implementation,
# expected values computed here with integer microseconds (no Lean, no timedelta)

def td_of(sec):
    """timedelta(seconds=sec) in whole microseconds, or None when timedelta cannot hold it"""
    w = sec_us(sec)
    return w if TD_MIN_US <= w <= TD_MAX_US else None


def expected_cmp(fn, now, spec, sec):
    """'bool:x' or 'OverflowError' (outside the property's domain only OverflowError is acceptable)"""
    u = spec_utc(spec)
    w = td_of(sec)
    if w is None or not in_range(u):
        return 'OverflowError'
    if fn == 'older':
        return 'bool:%d' % (now - u > w)
    if fn == 'newer':
        return 'bool:%d' % (u - now > w)
    if not in_range(now + w):
        return 'OverflowError'
    return 'bool:%d' % (u <= now + w)


def oracle_seq(case):
    """first way the property fails on this call sequence, or None"""
    fxt = case.get('fixtures') or ()
    outs, state = SeqRunner(case.get('fixture', False), fxt).run(case['init'], case['ops'])
    clock = case['init']
    unknown = False                # an advance was asked for without an override: the property says nothing about
    #                                the cell from then on, until it is set or cleared again
    for i, (op, got) in enumerate(zip(case['ops'], outs)):
        k = op[0]
        want = None                # None: the property does not speak about this call
        if unknown and k not in ('set', 'fxup', 'clear', 'fxdown', 'norm'):
            continue
        # there is one override cell: a TimeFixture's setUp installs its constructor's instant, its clean-up
        # clears, its advance_* move the cell by the given amount - whoever moved it before
        # (a method a subclass does not override must do what the base class does: prims())
        pr = prims(op, fxt)
        if pr is not None:
            want = 'none'
            for pk, a in pr:
                if pk == 'set':
                    clock, unknown = a, False
                elif pk == 'clear':
                    clock, unknown = None, False
                else:
                    d = a if pk == 'advd' else td_of(a)
                    if clock is None:
                        want, unknown = None, True
                        break
                    if d is None or not in_range(clock + d):
                        want = 'OverflowError'         # cannot be represented: must fail loudly, clock unmoved
                        break
                    clock += d
        elif k == 'norm':          # whatever was called before, whatever the clock says
            u = spec_utc(op[1])
            want = 'dt:%d' % u if in_range(u) else 'OverflowError'
        elif clock is None:
            want = 'real' if got == 'real' else None
        elif k == 'now':
            want = 'dt:%d' % clock
        elif k == 'ts':
            if op[1]:
                want = 'us:%d' % (clock - EPOCH_US)
            else:
                want = 'int:%d' % ((clock - EPOCH_US) // 10 ** 6)
        else:
            want = expected_cmp(k, clock, op[1], op[2])
        if want is not None and not same_out(got, want):
            shown = got + ' = %r' % float.fromhex(got[6:]) if got.startswith('float:') else got
            if want.startswith('us:'):
                want = '%s (%s s since 1970)' % (want, Fraction(int(want[3:]), 10 ** 6))
            return 'call %d (%s): returned %s, the property requires %s (clock at %s)' % (i, op_name(op), shown, want, clock)
    want_state = 'N' if clock is None else str(clock)
    if state != want_state and not unknown:
        return 'override cell after the sequence holds %s, the property requires %s' % (state, want_state)
    from oslo_utils import timeutils
    if timeutils.utcnow.override_time is not None:
        return 'override not cleared'
    return None


def op_name(op):
    k = op[0]
    if k in ('older', 'newer', 'soon'):
        d = build_dt(op[1])
        return '%s(%s, %r)' % ({'older': 'is_older_than', 'newer': 'is_newer_than', 'soon': 'is_soon'}[k],
                               repr(d.isoformat()) if op[3] else repr(d), sec_value(op[2]))
    if k == 'advs':
        return 'advance_time_seconds(%r)' % sec_value(op[1])
    if k == 'advd':
        return 'advance_time_delta(timedelta(microseconds=%d))' % op[1]
    if k == 'set':
        return 'set_time_override(%r)' % dt_of(op[1])
    if k == 'norm':
        return 'normalize_time(%r)' % build_dt(op[1])
    if k == 'fxup':
        return 'fixture%d.setUp()' % op[1]
    if k == 'fxdown':
        return 'fixture%d.cleanUp()' % op[1]
    if k == 'fxadvd':
        return 'fixture%d.advance_time_delta(timedelta(microseconds=%d))' % (op[1], op[2])
    if k == 'fxadvs':
        return 'fixture%d.advance_time_seconds(%r)' % (op[1], sec_value(op[2]))
    return {'now': 'utcnow(with_timezone=%s)', 'ts': 'utcnow_ts(microsecond=%s)', 'clear': 'clear_time_override()%s'}[k] % (
        bool(op[1]) if len(op) > 1 else '')


def oracle_norm(case):
    from oslo_utils import timeutils
    spec = case['dt']
    d = build_dt(spec)
    u = spec_utc(spec)
    try:
        r = timeutils.normalize_time(d)
    except OverflowError:
        return None if not in_range(u) else 'normalize_time(%r) raised OverflowError but denotes a representable instant' % d
    except Exception as e:
        return 'normalize_time(%r) raised %s' % (d, type(e).__name__)
    if r.utcoffset() is not None:
        return 'normalize_time(%r) returned an aware datetime %r' % (d, r)
    if d.utcoffset() is None and r is not d and dt_fields(r) != dt_fields(d):
        return 'normalize_time changed a naive datetime: %r -> %r' % (d, r)
    if us_of(r) != u:
        return 'normalize_time(%r) = %r, but it denotes the UTC instant %r' % (d, r, dt_of(u) if in_range(u) else u)
    if d.utcoffset() is not None and in_range(u):
        # cross-check with the runtime's own aware arithmetic
        if d.astimezone(UTC).replace(tzinfo=None) != r:
            return 'normalize_time(%r) = %r differs from astimezone(UTC)' % (d, r)
    return None


def oracle_iso(case):
    """parse_isotime inverts isoformat"""
    from oslo_utils import timeutils
    d = build_dt(case['dt'])
    s = d.isoformat()
    try:
        r = timeutils.parse_isotime(s)
    except Exception as e:
        return 'parse_isotime(%r) raised %s: %s' % (s, type(e).__name__, e)
    want_off = off_us(d) or 0
    if r.tzinfo is None or off_us(r) != want_off or us_of(r) != case['dt']['us']:
        return 'parse_isotime(%r) = %r: not the datetime that was formatted' % (s, r)
    # (no `r != d` here: Python never calls an inter-zone pair equal when one side lies in a repeated interval,
    # PEP 495; reading and offset are compared above, the instant below - all as integers)
    if us_of(r) - off_us(r) != case['dt']['us'] - want_off:
        return 'parse_isotime(%r) = %r denotes another instant than %r' % (s, r, d)
    return None


def oracle_secs(case):
    try:
        got = TD(seconds=sec_value(case['sec'])) // ONE_US
    except OverflowError:
        got = None
    want = td_of(case['sec'])
    return None if got == want else 'timedelta(seconds=%r) is %s us, nearest-even of the exact value is %s' % (
        sec_value(case['sec']), got, want)


def is_utc_spec(tz):
    return tz is not None and (tz[0] == 'utc' or (tz[0] in ('fixed', 'named') and tz[1] == 0 and
                                                 (tz[0] == 'fixed' or tz[2] in ('UTC', 'UTC+00:00')))
                               or (tz[0] == 'zone' and tz[1] == 'UTC'))


def same_dt(a, b):
    """same datetime value: fields, awareness and offset (no inter-zone ==, see oracle_iso)"""
    return dt_fields(a) == dt_fields(b) and off_us(a) == off_us(b)


def oracle_marshall(case):
    """unmarshall_time inverts marshall_now for naive and UTC datetimes - every time it is asked, not only the first:
    the same marshalled dict unmarshalled `times` times, left as it was, and re-marshalled to itself; leap second
    capped; microsecond kept"""
    from oslo_utils import timeutils
    tz = case['dt'].get('tz')
    if tz is not None and not is_utc_spec(tz):
        return None                               # outside the property
    d = build_dt(case['dt'])
    leap = ' with second=60' if case.get('leap') else ''
    timeutils.clear_time_override()
    try:
        if case.get('via_override'):
            timeutils.set_time_override(d)
            m = timeutils.marshall_now()
        else:
            m = timeutils.marshall_now(d)
        want = dt_fields(d)
        if [m.get(k) for k in FIELD_KEYS] != want:
            return 'marshall_now(%r) = %r: fields differ' % (d, m)
        m0 = dict(m)
        if case.get('leap'):
            m = dict(m, second=60)
            want = want[:5] + [59] + want[6:]
        before, shown = snapshot(m), repr(m)
        results, changed = [], None
        for i in range(case.get('times', 2)):
            results.append(timeutils.unmarshall_time(m))
            if changed is None and snapshot(m) != before:
                changed = 'unmarshall_time changed the dict it was given: %s became %r (call %d)' % (shown, dict(m), i + 1)
        again = timeutils.marshall_now(results[0])
    except Exception as e:
        return 'marshalling %r%s raised %s: %s' % (d, leap, type(e).__name__, e)
    finally:
        timeutils.clear_time_override()
    for i, r in enumerate(results):
        nth = 'call %d of unmarshall_time(%s)' % (i + 1, shown)
        if dt_fields(r) != want:
            return '%s = %r: fields differ from %r' % (nth, r, want)
        if tz is None:
            if r.tzinfo is not None:
                return '%s for a naive %r is aware: %r' % (nth, d, r)
        else:
            if r.tzinfo is None or off_us(r) != 0:
                return '%s = %r is not a UTC datetime (marshalled from %r)' % (nth, r, d)
            if not case.get('leap') and r != d:
                return '%s = %r, not %r' % (nth, r, d)
        if not same_dt(r, results[0]):
            return '%s = %r but the first call returned %r' % (nth, r, results[0])
    if changed:
        return changed
    if not case.get('leap') and snapshot(again) != snapshot(m0):
        return 'marshall_now(unmarshall_time(m)) = %r is not m = %r' % (again, m0)
    return None


def oracle_unmarshall(case):
    """any record: the dict is left as it was and a second call on it behaves like the first (whether it returns or
    raises); second above 59 behaves like 59"""
    from oslo_utils import timeutils
    m = record_of(case)
    before, shown = snapshot(m), repr(m)
    outs = []
    for i in range(max(2, case.get('times', 2))):
        try:
            r = timeutils.unmarshall_time(m)
            outs.append((dt_fields(r), off_us(r), getattr(r.tzinfo, 'key', None)))
        except Exception as e:
            outs.append(type(e).__name__)
        if snapshot(m) != before:
            return 'unmarshall_time changed the dict it was given: %s became %r (call %d)' % (shown, m, i + 1)
        if outs[i] != outs[0]:
            return 'call %d of unmarshall_time(%s) -> %r but the first call -> %r' % (i + 1, shown, outs[i], outs[0])
    if m['second'] < 59 or case['tzname'] not in ('absent', 'none', 'UTC', 'UTC+00:00'):
        return None
    try:
        r = timeutils.unmarshall_time(dict(m, second=59))
        capped = (dt_fields(r), off_us(r), getattr(r.tzinfo, 'key', None))
    except Exception as e:
        capped = type(e).__name__
    if outs[0] != capped:
        return 'unmarshall_time(%s) -> %r but with second=59 -> %r' % (shown, outs[0], capped)
    return None


def oracle(case):
    """the property on the implementation; the expected values never depend on the process time zone, the
    implementation is called under the case's one"""
    case = canon_case(case)
    k = case['kind']
    _remember(case)
    with process_tz(case.get('ptz')):
        return {'seq': oracle_seq, 'norm': oracle_norm, 'iso': oracle_iso, 'secs': oracle_secs,
                'marshall': oracle_marshall, 'unmarshall': oracle_unmarshall, 'multi': oracle_multi}[k](case)


def oracle_multi(case):
    """several cases one after the other in one process: each must hold whatever ran before it"""
    for i, c in enumerate(case['cases']):
        why = oracle(c)
        if why:
            return 'case %d of %d, after the earlier ones ran in the same process: %s' % (i + 1, len(case['cases']), why)
    return None


# Every call's result may depend on its arguments and the override cell only - not on what was called earlier
# in the process.  A failure observed here may therefore be caused by an *earlier* case (hidden state in the
# implementation); to produce a replay that fails in a fresh process, cases that handed a zone-aware datetime
# to the implementation are remembered by (zone, wall-clock reading): that is the key under which Python's
# ==/hash identify aware datetimes of one zone, `fold` ignored.

_EXECUTED = []          # [(keys, case)] in execution order (correspondence and search)


def dt_keys(case):
    specs = []
    if case['kind'] == 'seq':
        specs = [op[1] for op in case['ops'] if op[0] in CALLS_WITH_DT]
    elif case['kind'] in ('norm', 'iso', 'marshall'):
        specs = [case['dt']]
    return {(sp['tz'][1], sp['us']) for sp in specs if sp.get('tz') and sp['tz'][0] == 'zone'}


def _remember(case):
    if case['kind'] == 'multi':
        return
    keys = dt_keys(case)
    if keys:
        _EXECUTED.append((keys, case))


FRESH_BUDGET_S = float(__import__('os').environ.get('VERIF_C12_FRESH_BUDGET', '60'))   # wall-clock seconds per search() for confirming and shrinking in fresh interpreters
_BUDGET = {'deadline': None}


class BudgetUsedUp(Exception):
    pass


def budget_left():
    return 10 ** 9 if _BUDGET['deadline'] is None else _BUDGET['deadline'] - time.time()


def fresh_oracle(case):
    """oracle(case) in a fresh interpreter: nothing left behind by earlier calls. Returns the reason or None.
    Raises BudgetUsedUp when the wall-clock budget of this search is spent."""
    import os
    import subprocess
    import sys
    if budget_left() <= 0:
        raise BudgetUsedUp()
    # same ambient configuration as this interpreter (flags, environment, pre/post-import set-up): ambient.py
    import ambient
    harness_dir = os.path.dirname(os.path.dirname(os.path.abspath(__file__)))
    code = ('import sys, json\nsys.path.insert(0, %r)\ncase = json.loads(sys.stdin.read())\n' % harness_dir
            + ambient.setup_snippet('import common\nfrom props import C12')
            + 'print("\\n@@" + json.dumps(C12.oracle(case)))\n')
    env = dict(os.environ, PYTHONDONTWRITEBYTECODE='1')
    try:
        p = subprocess.run(ambient.fresh_interpreter_argv() + ['-c', code], input=common.json.dumps(case).encode(), env=env,
                           stdout=subprocess.PIPE, stderr=subprocess.PIPE, timeout=max(2, min(60, budget_left())))
        line = [l for l in p.stdout.decode('utf-8', 'replace').splitlines() if l.startswith('@@')][-1]
        return common.json.loads(line[2:])
    except Exception:            # could not be established: treat as "does not reproduce"
        return None


def spec_clocks(case):
    """the clock the property prescribes before each call (integer arithmetic only)"""
    clock, out = case['init'], []
    for op in case['ops']:
        out.append(clock)
        k = op[0]
        for pk, a in prims(op, case.get('fixtures') or ()) or []:
            if pk == 'set':
                clock = a
            elif pk == 'clear':
                clock = None
            elif clock is not None:
                d = a if pk == 'advd' else td_of(a)
                if d is not None and in_range(clock + d):
                    clock += d
                else:
                    break
    return out


def shrink_seq(case):
    """smaller call sequence that still fails *in a fresh process*"""
    case = canon_case(case)
    if case['kind'] != 'seq' or len(case['ops']) < 2:
        return case

    def fails_fresh(c):      # cheap in-process test first; a reduction is accepted only if it also fails fresh
        if budget_left() <= 0 or oracle(c) is None:
            return False
        try:
            return fresh_oracle(c) is not None
        except BudgetUsedUp:
            return False

    def still(sub):
        return fails_fresh(dict(case, ops=sub))
    small = dict(case, ops=common.shrink_list(case['ops'], still, max_steps=60))
    clocks = spec_clocks(small)
    for i in range(len(small['ops']) - 1, 0, -1):       # fold the prefix into the initial override
        cand = dict(small, init=clocks[i], ops=small['ops'][i:])
        if fails_fresh(cand):
            small = cand
            break
    if small.get('fixture') and fails_fresh(dict(small, fixture=False)):
        small['fixture'] = False
    if small.get('ptz') and fails_fresh(dict(small, ptz=None)):
        small['ptz'] = None
    return small


def reproducible(case, n_before):
    """A case (possibly preceded by the earlier cases it depends on) that fails in a fresh process, shrunk as far
    as the wall-clock budget allows; returns (case, reason, note)."""
    try:
        why = fresh_oracle(case)
    except BudgetUsedUp:
        return case, None, 'not confirmed in a fresh interpreter and not shrunk: the wall-clock budget for that was used up'
    if why:
        small = shrink_seq(case)        # every accepted reduction was confirmed fresh; stops when the budget is spent
        note = None if budget_left() > 0 else 'shrinking stopped: wall-clock budget used up'
        return small, (oracle(small) or why), note
    # fails here but not on its own: an earlier case of this process left something behind
    keys = dt_keys(case)
    earlier = [c for k, c in _EXECUTED[:n_before] if k & keys]
    uniq = []
    for c in earlier:
        if c not in uniq:
            uniq.append(c)
    multi = {'kind': 'multi', 'cases': uniq[-40:] + [case]}
    try:
        why = fresh_oracle(multi) if uniq else None
    except BudgetUsedUp:
        why = None
    if why:
        def still(sub):
            try:
                return fresh_oracle({'kind': 'multi', 'cases': sub + [case]}) is not None
            except BudgetUsedUp:
                return False
        pre = multi['cases'][:-1]
        if len(pre) > 1:
            pre = common.shrink_list(pre, still, max_steps=40)
        multi = {'kind': 'multi', 'cases': pre + [case]}
        return multi, why, 'depends on an earlier call in the same process'
    return case, None, 'failed in the search process only; not reproduced in a fresh process, nor after the earlier ' \
                       'cases that used an equal datetime'


def failure_kind(case, why):
    """what failed, independent of how far the case was shrunk (used to report each kind once)"""
    last = case['cases'][-1] if case['kind'] == 'multi' else case
    if last['kind'] == 'seq':
        m = re.search(r'call \d+ \((?:fixture\d+\.)?(\w+)\(', why)
        return 'seq/' + (m.group(1) if m else ' '.join(why.split()[:3]))
    head = why.split(':')[0].split(' raised')[0].split('(')[0]
    return last['kind'] + '/' + ' '.join(w for w in head.split() if not w.isdigit())[:50]


def search(ctx, seeds, full=False):
    rng = ctx.rng
    fails, kinds = [], set()
    todo = list(seeds[:300]) + corpus()
    n = (60000 if full else 15000) if ctx.quick else (400000 if full else 150000)
    for i in range(n):
        if i % 8 == 7:
            u = gen_instant(rng)
            spec, iso = gen_repr(ctx, u, True)
            o = off_us(build_dt(spec))
            if o is None or o % (60 * 10 ** 6) == 0:
                todo.append({'kind': 'iso', 'dt': spec})
                continue
        todo.append(gen_case(ctx))
    _BUDGET['deadline'] = time.time() + FRESH_BUDGET_S
    for case in todo:
        ctx.evaluations += 1
        ctx.count('search/' + case['kind'])
        n_before = len(_EXECUTED)
        why = oracle(case)
        if why:
            kind = failure_kind(case, why)
            if kind in kinds and (len(fails) >= 3 or budget_left() <= 0):
                continue                    # this kind is reported already: no confirmation / shrinking spent on it
            small, why2, note = reproducible(case, n_before)
            why = why2 or why
            kinds.add(kind)
            detail = {'kind': kind, 'what': why}
            if note:
                detail['note'] = note
            fails.append(Failure(small, detail))
            if len(fails) >= 6:
                break
    _BUDGET['deadline'] = None
    return fails


def replay(ctx, payload):
    case = payload.get('failure', {}).get('case') or payload.get('case')
    if not case:
        print('nothing to replay: this file names the obligation that no longer checks:')
        print(payload.get('no_longer_checks'))
        return 0
    print('case          :', common.json.dumps(case, sort_keys=True))
    why = oracle(case)            # first, in this fresh process: nothing has been called yet
    for c in (case['cases'] if case['kind'] == 'multi' else [case]):
        c = canon_case(c)
        if c['kind'] == 'seq':
            print('calls         :', '; '.join(op_name(op) for op in c['ops']),
                  '| override initially', None if c['init'] is None else repr(dt_of(c['init'])),
                  '| through TimeFixture' if c.get('fixture') else '')
        if c.get('fixtures'):
            for i, e in enumerate(c['fixtures']):
                t0, kind = fx_entry(e)
                print('fixtures      : fixture%d = %s(%r)%s' % (
                    i, 'TimeFixture' if kind == 'base' else 'Subclass_' + kind, dt_of(t0),
                    '' if kind == 'base' else '   # subclass of TimeFixture, ' + FX_KINDS[kind]))
        if c.get('ptz'):
            print('process TZ    :', c['ptz'], '(os.environ["TZ"] + time.tzset() around the calls)')
        if c['kind'] != 'iso':
            print('implementation:', run_impl(c), '(same calls once more, after the oracle\'s run)')
            print('model         :', ctx.driver.ask_many(model_requests(c)))
    print('property oracle on the implementation:', why)
    return 1 if why else 0


LEVEL_TEXT = ('Machine-checked proof (Lean 4), partial. Proved over a hand-written model in which instants are integer '
              'microseconds, for all instants, offsets, rational seconds and call sequences: normalize_time returns the '
              'naive UTC instant an aware datetime denotes and leaves naive ones alone (OverflowError exactly when that '
              'instant is outside 0001..9999); under an override utcnow/utcnow_ts return that instant, any sequence of '
              'advance_time_delta/advance_time_seconds interleaved with reads leaves the clock at t0 + sum(d_i) (induction '
              'over the call list), an unrepresentable advance raises and moves nothing, clearing restores the real clock; '
              'is_older_than / is_newer_than / is_soon are exactly now - t > s, t - now > s, t <= now + w with s, w read at '
              'timedelta resolution (nearest microsecond, ties to even - proved properties of the conversion), for naive '
              'and aware t; the same against the exact rational s where its sub-microsecond part does not round up '
              '(*_exact_partial); unmarshall_time(marshall_now(d)) = d field for field for naive and UTC d, second > 59 read '
              'as 59, microsecond kept, re-marshalling the result gives the same record (remarshall_fixpoint). NOT proved, only exercised by the differential correspondence on every run: the '
              'calendar (fields <-> instant), the tz database (utcoffset, ZoneInfo), iso8601 parsing (parse_isotime o '
              'isoformat = id is a search oracle, not a theorem), calendar.timegm, binary64 rounding in '
              'timedelta(seconds=float) and utcnow_ts(microsecond=True).')
LEVEL_NOTE = ('Trusted: Lean kernel; axioms propext/Quot.sound/Classical.choice only (audited each run); the hand model, the '
              'harness integer<->datetime conversions and the correspondence; the runtime libraries named above are '
              'parameters of the model. Partial theorems: older_exact_partial, newer_exact_partial, soon_exact_partial.')
TECHNIQUE = 'Lean 4 theorems (induction over the call list, integer arithmetic) + model/implementation correspondence'
DESIGN_REF = 'DESIGN.md section 5, C12'
