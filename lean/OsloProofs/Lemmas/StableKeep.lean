/-
Two facts `eat_chunk` preserves whether or not it raises, for all ten formats: the `finished`
flag, and "no end-capture region has been closed" (`endDone` is set only by `finish()`).
-/
import OsloProofs.Lemmas.Bounded
namespace Oslo.Insp

/-- no end-capture region has been closed (only `finish()` closes one) -/
def Quiet (s : Insp) : Prop := ∀ p ∈ s.regions, p.2.endDone = false

structure Keep (s s' : Insp) : Prop where
  fin : s'.finished = s.finished
  quiet : Quiet s → Quiet s'

theorem lemma_keep_refl (s : Insp) : Keep s s := ⟨rfl, fun h => h⟩

theorem lemma_keep_trans {a b c : Insp} (h1 : Keep a b) (h2 : Keep b c) : Keep a c :=
  ⟨h2.fin.trans h1.fin, fun h => h2.quiet (h1.quiet h)⟩

theorem lemma_capture_endDone (r : Region) (c : Bytes) (pos : Nat) : (r.capture c pos).endDone = r.endDone := by
  unfold Region.capture
  split
  · rfl
  · dsimp only; split <;> rfl

theorem lemma_capture_rid (r : Region) (c : Bytes) (pos : Nat) : (r.capture c pos).rid = r.rid := by
  unfold Region.capture
  split
  · rfl
  · dsimp only; split <;> rfl

theorem lemma_keep_captureAll (s : Insp) (c : Bytes) (only : List String) : Keep s (s.captureAll c only) := by
  refine ⟨rfl, fun hq p hp => ?_⟩
  simp only [Insp.captureAll, List.mem_map] at hp
  obtain ⟨y, hy, rfl⟩ := hp
  split
  · exact (lemma_capture_endDone _ _ _).trans (hq y hy)
  · exact hq y hy

theorem lemma_keep_new (s s' : Insp) (n : String) (off len : Nat) (ml : Option Nat) (isEnd : Bool)
    (h : s.newRegion n off len ml isEnd = .ok s') : Keep s s' := by
  unfold Insp.newRegion at h
  split at h
  · simp at h
  · simp only [Except.ok.injEq] at h
    subst h
    refine ⟨rfl, fun hq p hp => ?_⟩
    simp only [List.mem_append, List.mem_singleton] at hp
    rcases hp with hp | rfl
    · exact hq p hp
    · rfl

theorem lemma_keep_delete (s s' : Insp) (n : String) (h : s.deleteRegion n = .ok s') : Keep s s' := by
  unfold Insp.deleteRegion at h
  split at h
  · simp only [Except.ok.injEq] at h
    subst h
    exact ⟨rfl, fun hq p hp => hq p (List.mem_filter.mp hp).1⟩
  · simp at h

theorem lemma_keep_trunc (s : Insp) (n : String) :
    Keep s (s.updRegion n (fun r => { r with length := r.data.length })) := by
  refine ⟨rfl, fun hq p hp => ?_⟩
  simp only [Insp.updRegion, List.mem_map] at hp
  obtain ⟨y, hy, rfl⟩ := hp
  split
  · exact hq y hy
  · exact hq y hy

theorem lemma_keep_fields (s s' : Insp) (h1 : s'.regions = s.regions) (h2 : s'.finished = s.finished) :
    Keep s s' := by
  refine ⟨h2, fun hq p hp => ?_⟩
  rw [h1] at hp
  exact hq p hp

theorem lemma_vhdxAddVds_keep (s : Insp) (m : Region) (ioff ilen : Nat) :
    Keep s (vhdxAddVds s m ioff ilen).1 := by
  have h1 := lemma_keep_trunc s "metadata"
  unfold vhdxAddVds
  split
  · exact h1
  · rename_i s2 hn
    exact lemma_keep_trans h1 (lemma_keep_new _ _ _ _ _ _ _ hn)

theorem lemma_vhdxPP_keep (s : Insp) : Keep s (vhdxPostProcess s).1 := by
  unfold vhdxPostProcess
  split
  · exact lemma_keep_refl s
  · split
    · split
      · exact lemma_keep_refl s
      · exact lemma_keep_refl s
      · split
        · exact lemma_keep_refl s
        · rename_i s' hn
          exact lemma_keep_new _ _ _ _ _ _ _ hn
    · split
      · split
        · exact lemma_keep_refl s
        · exact lemma_keep_refl s
        · split
          · exact lemma_keep_refl s
          · exact lemma_vhdxAddVds_keep s _ _ _
      · exact lemma_keep_refl s

theorem lemma_vmdkAddFooter_keep (s s1 : Insp) (g : Nat) (he : vmdkAddFooter s g = .ok s1) : Keep s s1 := by
  unfold vmdkAddFooter at he
  split at he
  · split at he
    · simp at he
    · rename_i s' hn
      split at he
      · simp at he
      · simp only [Except.ok.injEq] at he
        subst he
        exact lemma_keep_trans (lemma_keep_new _ _ _ _ _ _ _ hn) (lemma_keep_fields _ _ rfl rfl)
  · simp only [Except.ok.injEq] at he
    subst he
    exact lemma_keep_refl s

theorem lemma_vmdkRelocate_keep (s1 : Insp) (a b : Nat) : Keep s1 (vmdkRelocate s1 a b).1 := by
  unfold vmdkRelocate
  split
  · exact lemma_keep_refl _
  · split
    · exact lemma_keep_refl _
    · split
      · split
        · exact lemma_keep_refl _
        · rename_i s2 hd
          split
          · exact lemma_keep_delete _ _ _ hd
          · rename_i s3 hn
            exact lemma_keep_trans (lemma_keep_delete _ _ _ hd) (lemma_keep_new _ _ _ _ _ _ _ hn)
      · exact lemma_keep_refl _

theorem lemma_vmdkPP_keep (s : Insp) : Keep s (vmdkPostProcess s).1 := by
  unfold vmdkPostProcess
  split
  · exact lemma_keep_refl s
  · split
    · exact lemma_keep_refl s
    · split
      · exact lemma_keep_refl s
      · split
        · split
          · split
            · exact lemma_keep_refl s
            · rename_i s' hd
              exact lemma_keep_delete _ _ _ hd
          · exact lemma_keep_refl s
        · split
          · exact lemma_keep_refl s
          · split
            · exact lemma_keep_refl s
            · rename_i s1 he
              exact lemma_keep_trans (lemma_vmdkAddFooter_keep _ _ _ he) (lemma_vmdkRelocate_keep s1 _ _)

theorem lemma_postProcess_keep (s : Insp) : Keep s (postProcess s).1 := by
  unfold postProcess
  split
  · exact lemma_vhdxPP_keep s
  · exact lemma_vmdkPP_keep s
  · exact lemma_keep_refl s

theorem lemma_followUp_keep (fuel : Nat) : ∀ (s : Insp) (c : Bytes) (seen : List Nat),
    Keep s (followUp fuel s c seen).1 := by
  induction fuel with
  | zero => intro s c seen; unfold followUp; split <;> exact lemma_keep_refl s
  | succ n ih =>
    intro s c seen
    unfold followUp
    dsimp only
    split
    · exact lemma_keep_refl s
    · have k1 := lemma_keep_captureAll s c ((s.regions.filter (fun p => !seen.contains p.2.rid)).map (·.1))
      have k2 := lemma_postProcess_keep (s.captureAll c ((s.regions.filter (fun p => !seen.contains p.2.rid)).map (·.1)))
      split
      · rename_i s2 e heq
        rw [heq] at k2
        exact lemma_keep_trans k1 k2
      · rename_i s2 heq
        rw [heq] at k2
        exact lemma_keep_trans k1 (lemma_keep_trans k2 (ih s2 c _))

theorem lemma_regionComplete_finished (s : Insp) (n : String) :
    (regionComplete s n).1.finished = s.finished := by
  unfold regionComplete
  split
  · unfold qcowRegionComplete
    split
    · rfl
    · dsimp only
      repeat' split
      all_goals rfl
  · split
    · unfold vmdkParseDescriptor
      split
      · rfl
      · dsimp only
        repeat' split
        all_goals rfl
    · rfl
  · rfl

theorem lemma_runCallbacks_keep (names : List String) : ∀ (s : Insp), Keep s (runCallbacks s names).1 := by
  induction names with
  | nil => intro s; exact lemma_keep_refl s
  | cons n ns ih =>
    intro s
    unfold runCallbacks
    have k1 : Keep s (regionComplete s n).1 :=
      lemma_keep_fields _ _ (lemma_regionComplete_regions s n).1 (lemma_regionComplete_finished s n)
    split
    · rename_i s1 e heq
      rw [heq] at k1
      exact k1
    · rename_i s1 heq
      rw [heq] at k1
      exact lemma_keep_trans k1 (ih s1)

/-- `eat_chunk` never sets `finished` and never closes an end-capture region, raise or not -/
theorem lemma_eatChunk_keep (s : Insp) (c : Bytes) : Keep s (eatChunk s c).1 := by
  unfold eatChunk
  dsimp only
  have k0 : Keep s { s with total := s.total + c.length } := ⟨rfl, fun h => h⟩
  split
  · exact k0
  · have k1 := lemma_keep_captureAll { s with total := s.total + c.length } c []
    have k2 := lemma_postProcess_keep (({ s with total := s.total + c.length } : Insp).captureAll c [])
    split
    · rename_i s3 e heq
      rw [heq] at k2
      exact lemma_keep_trans k0 (lemma_keep_trans k1 k2)
    · rename_i s3 heq
      rw [heq] at k2
      have k3 := lemma_followUp_keep 8 s3 c (s.regions.map (·.2.rid))
      split
      · rename_i s4 e heq4
        rw [heq4] at k3
        exact lemma_keep_trans k0 (lemma_keep_trans k1 (lemma_keep_trans k2 k3))
      · rename_i s4 heq4
        rw [heq4] at k3
        exact lemma_keep_trans k0 (lemma_keep_trans k1 (lemma_keep_trans k2 (lemma_keep_trans k3
          (lemma_runCallbacks_keep _ s4))))

end Oslo.Insp
