/-
Line protocol shared by all drivers.  One request per line, fields separated by
TAB, every byte/string field hex-encoded (UTF-8 for text), "-" for the empty
field.  One reply line per request.  Nothing here is part of any theorem.
-/
namespace Oslo.Proto

def hexVal (c : Char) : Option Nat :=
  if '0' ≤ c ∧ c ≤ '9' then some (c.toNat - 48)
  else if 'a' ≤ c ∧ c ≤ 'f' then some (c.toNat - 87)
  else if 'A' ≤ c ∧ c ≤ 'F' then some (c.toNat - 55)
  else none

def unhexAux : List Char → List UInt8 → Option (List UInt8)
  | [], acc => some acc.reverse
  | [_], _ => none
  | a :: b :: rest, acc =>
    match hexVal a, hexVal b with
    | some x, some y => unhexAux rest (UInt8.ofNat (x * 16 + y) :: acc)
    | _, _ => none

/-- hex field -> bytes ("-" is empty) -/
def unhex (s : String) : Option (List UInt8) :=
  if s = "-" then some [] else unhexAux s.toList []

def hexChar (n : Nat) : Char :=
  if n < 10 then Char.ofNat (48 + n) else Char.ofNat (87 + n)

def hex (b : List UInt8) : String :=
  if b.isEmpty then "-" else
  String.ofList (b.foldr (fun x acc => hexChar (x.toNat / 16) :: hexChar (x.toNat % 16) :: acc) [])

/-- hex field -> text (UTF-8) -/
def unhexStr (s : String) : Option String := do
  let b ← unhex s
  String.fromUTF8? (ByteArray.mk b.toArray)

def hexStr (s : String) : String := hex s.toUTF8.toList

def unhexChars (s : String) : Option (List Char) := (unhexStr s).map String.toList
def hexChars (s : List Char) : String := hexStr (String.ofList s)

def stripNl (s : String) : String :=
  String.ofList (s.toList.reverse.dropWhile (fun c => c == '\n' || c == '\r')).reverse

partial def loop (h : IO.FS.Stream) (out : IO.FS.Stream) (handle : List String → String) : IO Unit := do
  let line ← h.getLine
  if line.isEmpty then return ()
  let fields := (stripNl line).splitOn "\t"
  out.putStrLn (handle fields)
  loop h out handle

/-- Serve requests on stdin until EOF. -/
def serve (handle : List String → String) : IO Unit := do
  let i ← IO.getStdin
  let o ← IO.getStdout
  loop i o handle
  o.flush

def optInt (s : String) : Option (Option Int) :=
  if s = "N" then some none else (s.toInt?).map some

def showOptInt : Option Int → String
  | none => "N"
  | some v => toString v

end Oslo.Proto
