"""C03 - format detection is exclusive, conservative about raw, and total."""
import io
import os
import shutil
import tempfile

import common
import gen_insp
import images
import insp_gen_b as G
import insp_impl
from common import Disagreement, Failure

ID = 'C03'
DRIVER = 'drv_insp'
DRIVER_ROOT = 'Drivers.Insp'
PROOF_MODULES = ['OsloProofs.Props.C03', 'OsloProofs.Props.C03Stable', 'OsloProofs.Props.C03All']
LEVEL = 'proof'
RULE = ('contents: every subset-overlay of the nine format signatures (images.SIGNATURES, ISO with its three '
        'identifiers) and the FAT boot-sector look-alike on zero / random / text / 0xff backgrounds of lengths on both '
        'sides of every inspector\'s decision point (64, 512, 592, 34 KiB, 256 KiB), polyglots built on purpose (one '
        'offset-0 signature + vdi + gpt + iso), valid images of each format, ISO/VDI images carrying foreign '
        'signatures, text files (with a late non-ASCII byte, a NUL, a createType line early or late) and binary '
        'files; x allowed_formats from a bounded family of 19 subsets (with / without raw, singletons, all) x '
        'read-size sequences (1, 17, 64, 512, 4096, 65536, 1 MiB, random with empty reads; always a final empty read); '
        'the public interface used in every legal way of the pinned signatures (InspectWrapper(source, '
        'expected_format=None, allowed_formats=None) with each optional argument positional / keyword / omitted, '
        'read(size) by keyword, sizes None / -1 / -2 / 0, io.BytesIO or a real file, iterator sources consumed by '
        'next / for / break-and-resume / iter() twice, close() twice, detect_file_format / get_inspector positional '
        'and by keyword) with decisions equal to those of the plain usage; the decision (format / formats) is read three times after every read and after close; x expected_format '
        'none / inside / outside allowed_formats / unknown name (all 19+2 subsets x all 12 names on six contents), '
        'names passed as str, (str, Enum) member, str subclass, subclass with overridden __str__/__repr__/__format__; '
        'plus sequences in one process: '
        'a valid image of each format (and 2 KiB of zeros) inspected first, then short / empty / other-format '
        'streams, whose decisions must be those of the stream alone; and text VMDK descriptors with the createType '
        'line at offsets 64..4097 and beyond 256 KiB x small allowed_formats x reads of 1..512 bytes (no revision '
        'within a read sequence). A case is non-trivial when a '
        'non-raw inspector matched, or a decision was reached before the last read, or allowed_formats excludes raw; '
        'distinct by (content digest, allowed_formats, read sizes)')
TRUSTED_BASE = [
    'Lean 4 kernel; axioms audited per theorem (subset of propext, Classical.choice, Quot.sound)',
    'hand-written model OsloModel/Wrapper.lean (Wrap.formats, Wrap.format, processChunk, detectFileFormat) over '
    'OsloModel/Inspector.lean, tied to InspectWrapper / detect_file_format by this correspondence; ALL_FORMATS order, '
    'region tables and constants come from the translator (Generated/Insp.lean)',
    'the set `_inspectors` is modelled as a list in ALL_FORMATS order: `formats` is compared as a sorted list',
]
UNMODELLED = [
    'order of the list returned by `formats` (set iteration order)',
    'the file object, open() and _chunked_reader of detect_file_format (the model cuts the content into 4096-byte reads)',
    'log output',
]
ASSUMPTIONS = [
    'when an expected_format cuts the stream off (C06), only the decisions before the cut-off, the way it ended and that '
    'inspector are compared; the source returns exactly the requested number of bytes until it is exhausted',
]

KF = 'KF_F1'


def generate():
    gen_insp.generate()


def proj(reply):
    parts = reply.split('\t')
    if len(parts) != 4:
        return reply
    per = []
    for ent in parts[3].split(';'):
        nm = ent.split(' ')[0]
        v = G.verdict_fields(ent)
        per.append('%s m=%s c=%s' % (nm, v.get('match'), v.get('complete')))
    return '\t'.join(parts[:3] + [';'.join(per)])


def cut_abort(p, expected):
    """when the expected inspector cut the stream off, what the other inspectors saw of the last chunk (and with it
    the decision after close) depends on set order: keep the decisions before, how it ended, and that inspector"""
    parts = p.split('\t')
    if len(parts) != 4 or parts[1] == 'done':
        return p
    own = [e for e in parts[3].split(';') if e.split(' ')[0].rstrip('!') == expected]
    return '\t'.join([parts[0], parts[1], '-', ';'.join(own)])


def impl_wrap(al, data, sizes, expected=None, names='str', u=None):
    """the implementation's `wrap` rendering (every decision read three times; names optionally passed as str
    subclasses), with anything that escapes (e.g. from close()) rendered instead of crashing"""
    try:
        return cut_abort(proj(G.run_wrap_b(al, expected, data, sizes, names, u)), expected)
    except G.CallFormError as e:
        return 'CALL-FORM-REJECTED: %s' % e
    except Exception as e:
        return 'ESCAPED:%s' % type(e).__name__


EXPECTEDS = G.ALLF + ['foo', '']


def pick_opts(rng, al):
    """(expected_format, how names are passed): half the cases plain; otherwise an expected format inside the
    allowed set, outside it, or unknown, and names as str subclasses"""
    if rng.random() < 0.5:
        return None, 'str'
    pool = [rng.choice(EXPECTEDS), rng.choice(G.ALLF)]
    if al:
        pool += [rng.choice(al), rng.choice([f for f in G.ALLF if f not in al] or G.ALLF)]
    return rng.choice(pool + [None]), rng.choice(G.NAME_KINDS)


def cross_cases(rng, quick):
    """every allowed_formats subset of the family x every expected_format - inside the subset, outside it,
    unknown names - on a few contents: formats outside allowed_formats are never considered"""
    contents = [('image-qcow2', images.qcow2(total=1024)[0]), ('zeros-1024', bytes(1024)),
                ('image-vmdk', images.vmdk()[0]), ('image-gpt', images.gpt()[0]),
                ('image-vdi+gpt', G.overlay(images.vdi()[0], ['gpt'], rng)), ('empty', b'')]
    out = []
    for label, data in contents:
        n = len(data)
        for al in G.ALLOWED_FAMILY + [['foo'], ['foo', 'raw']]:
            for e in EXPECTEDS:
                if quick and rng.random() < 0.93:
                    continue
                out.append((label, data, al, rng.choice([[n, 0], [512] * (n // 512 + 1) + [0], [64, n, 0]]),
                            {'expected': e, 'names': rng.choice(G.NAME_KINDS)}))
    return out


thin = G.thin


def thin_contents(ctx, contents):
    """children of the ambient sweep take a third of the short contents but keep every content that is long enough
    to reach the late decision points (ISO at 34 KiB, VHDX at 256 KiB)"""
    long_ = [c for c in contents if len(c[1]) >= 34 * images.K]
    return thin(ctx, [c for c in contents if len(c[1]) < 34 * images.K]) + \
        (long_ if getattr(ctx, 'ambient', None) is None else thin(ctx, long_, 2))


def gen_cases(ctx):
    rng = ctx.rng
    out = []
    contents = thin_contents(ctx, G.c03_contents(rng, ctx.quick))
    for label, data in contents:
        n = len(data)
        alloweds = [rng.choice(G.ALLOWED_FAMILY)]
        if rng.random() < (0.35 if ctx.quick else 0.8):
            alloweds.append(None)
        if not ctx.quick:
            alloweds.append(rng.choice(G.ALLOWED_FAMILY))
        rs = G.read_sizes(n, rng, ctx.quick)
        for al in alloweds:
            for sizes in rng.sample(rs, min(len(rs), 2 if ctx.quick else 4)):
                out.append((label, data, al, sizes))
    out += thin(ctx, G.c03_text_descriptors(rng, ctx.quick))
    for label, data in thin(ctx, G.c03_huge_contents(rng, ctx.quick), 2):
        n = len(data)
        for al, sizes in [(None, [65536] * (n // 65536 + 2)), (['vhdx', 'raw'], [1 << 20] * (n // (1 << 20) + 2)),
                          (None, [4096] * (n // 4096 + 2))][:2 if ctx.quick else 3]:
            out.append((label, data, al, sizes))
    out2 = []
    for c in out:
        e, nk = pick_opts(rng, c[2])
        out2.append(tuple(c) + ({'expected': e, 'names': nk},))
    res = []
    for label, data, al, sizes, o in out2 + thin(ctx, cross_cases(rng, ctx.quick)):
        # how the public interface is used: constructor call form, read(size=) keyword, real file, unusual read
        # sizes (None / -1 / -2 / 0), or an iterator source consumed by one of the iteration protocols
        uu = G.pick_usage(rng, o['expected'], al, iterator=False, p_plain=0.5)
        if uu != G.DEFAULT_USAGE:
            if rng.random() < 0.35 and len(sizes) <= 64:
                uu['iterator'] = True
                uu['proto'] = rng.choice(G.ITER_PROTOS)
            elif rng.random() < 0.6:
                sizes = G.vary_ops(sizes, len(data), rng, uu['source'])
        res.append((label, data, al, sizes, dict(o, usage=uu)))
    return res


def case_of(label, data, allowed, sizes, sizes_b=None, prior=None, prior_b=None, expected=None, names='str', u=None):
    c = {'label': label, 'allowed': allowed, 'content': insp_impl.content_field(data), 'sizes': list(sizes)}
    if expected is not None:
        c['expected'] = expected
    if names != 'str':
        c['names'] = names
    if u and G.usage(u) != G.DEFAULT_USAGE:
        c['usage'] = G.usage(u)
    if sizes_b is not None:
        c['sizes_b'] = list(sizes_b)
    if prior is not None:
        c['prior'] = [insp_impl.content_field(p) for p in prior]
    if prior_b is not None:
        c['prior_b'] = [insp_impl.content_field(p) for p in prior_b]
    return c


def priors_of(case, key='prior'):
    return [G.decode_content(p) for p in case.get(key, [])]


def correspondence(ctx):
    rng = ctx.rng
    cases = gen_cases(ctx)
    lines = [G.wrap_req(al, o['expected'], data, sizes) for _, data, al, sizes, o in cases]
    replies = G.ask_par(ctx.driver, lines)
    out = []
    for (label, data, al, sizes, o), rep in zip(cases, replies):
        ctx.evaluations += 1
        exp, nk, uu = o['expected'], o['names'], o.get('usage')
        pi, pm = impl_wrap(al, data, sizes, exp, nk, uu), cut_abort(proj(rep), exp)
        if uu and uu != G.DEFAULT_USAGE:
            ctx.count('ctor-form/' + str(uu['form']))
            ctx.count('consumed-by/' + (('iteration:' + uu['proto']) if uu.get('iterator') else 'read:' + uu['source']))
        ctx.count('expected/' + ('none' if exp is None else 'unknown' if exp not in G.ALLF else
                                 'allowed' if (not al or exp in al) else 'outside-allowed'))
        ctx.count('names-as/' + nk)
        parts = pi.split('\t')
        decs = parts[0].split('|') if parts[0] else []
        final = parts[2] if len(parts) > 2 else '?'
        ctx.count('corr/' + label.split('-')[0])
        ctx.count('final/' + final.split('/')[0])
        ctx.count('allowed/' + ('all' if not al else ('with-raw' if 'raw' in al else 'without-raw')))
        early = any(not d.startswith('None/') for d in decs[:-1])
        if early:
            ctx.count('decided-before-last-read')
        if early or final not in ('raw/[raw]',) or (al and 'raw' not in al):
            ctx.nontrivial((G.digest(data), tuple(al or ()), tuple(sizes), exp, nk))
        if ctx.evaluations % 97 == 1:
            ctx.sample({'label': label, 'allowed': al, 'length': len(data), 'reads': sizes[:8],
                        'decisions': decs[:6], 'after_close': final}, 8)
        if pi != pm:
            out.append(Disagreement(case_of(label, data, al, sizes, expected=exp, names=nk, u=uu), pi, pm))
    # sequences: a valid image of some format is inspected first, then short / other streams in the same
    # process; the model has no state between requests, so the later stream must look exactly as it does alone
    priors = G.c03_priors(rng, ctx.quick)
    laters = thin(ctx, G.c03_laters(rng, ctx.quick))
    seq = []
    for plabel, pdata in priors:
        for llabel, ldata in (rng.sample(laters, min(6, len(laters))) if ctx.quick else laters):
            al = rng.choice([None, None, rng.choice(G.ALLOWED_FAMILY)])
            seq.append((plabel, pdata, llabel, ldata, al, rng.choice([[4096, 0], [len(ldata), 0], [64, 512, 4096, 0]])))
    replies = G.ask_par(ctx.driver, [G.wrap_req(al, None, ldata, sizes) for _, _, _, ldata, al, sizes in seq])
    for (plabel, pdata, llabel, ldata, al, sizes), rep in zip(seq, replies):
        ctx.evaluations += 1
        ctx.count('corr/after-prior/' + plabel)
        inspect_prior([pdata])
        pi, pm = impl_wrap(al, ldata, sizes), proj(rep)
        ctx.nontrivial(('seq', plabel, G.digest(ldata), tuple(al or ()), tuple(sizes)))
        if pi != pm:
            out.append(Disagreement(case_of('%s after %s' % (llabel, plabel), ldata, al, sizes, prior=[pdata]), pi, pm))
    # detect_file_format on files (the model's `detect` request; the exit status belongs to C02)
    files = [(l, d) for l, d in G.c03_contents(rng, True) if len(d) <= 64 * images.K]
    rng.shuffle(files)
    files = files[:25 if ctx.quick else 300]
    replies = G.ask_par(ctx.driver, [G.detect_req(d) for _, d in files])
    tmp = tempfile.mkdtemp(prefix='verif-C03-')
    try:
        for (label, data), rep in zip(files, replies):
            ctx.evaluations += 1
            try:
                impl = insp_impl.run_detect(data, tmp)
            except Exception as e:
                impl = 'ESCAPED:%s' % type(e).__name__
            pi, pm = impl.split(' ')[0].split('\t')[0], rep.split(' ')[0].split('\t')[0]
            ctx.count('corr/detect_file_format/' + pi)
            if pi != pm:
                out.append(Disagreement(dict(case_of(label, data, None, []), detect=True), pi, pm))
    finally:
        shutil.rmtree(tmp, ignore_errors=True)
    return out


# --------------------------------------------------------------------------
# failing-input search: the clauses of the property on the implementation only

def inspect_prior(priors):
    """inspect earlier streams in this process (wrapper with all formats, 4096-byte reads, close; then the
    decision is read) - whatever they leave behind must not influence the next stream"""
    F = G.fi()
    for data in priors:
        # whatever these earlier streams do (raise included) is judged where THEY are the stream under test
        try:
            w = F.InspectWrapper(G.io.BytesIO(data))
            while w.read(4096):
                pass
            w.close()
            w.format
        except Exception:
            pass


def show_usage(u, ops):
    if not u or G.usage(u) == G.DEFAULT_USAGE:
        return ''
    uu = G.usage(u)
    bits = ['%s=%s' % (k, v) for k, v in sorted(uu.items()) if v != G.DEFAULT_USAGE.get(k)]
    if u.get('iterator'):
        bits.append('iterator source')
    return ' [usage: %s; read ops %s]' % (', '.join(bits), list(ops)[:12])


def diff_summary(a, b):
    """where two run summaries (decisions, final, matches, escaped) first differ"""
    for k, (x, y) in enumerate(zip(a[0], b[0])):
        if x != y:
            return 'after chunk %d the plain usage decides %s / %s, this usage %s / %s' % (
                k, x[0], list(x[1]) if isinstance(x[1], tuple) else x[1], y[0], list(y[1]) if isinstance(y[1], tuple) else y[1])
    if len(a[0]) != len(b[0]):
        return 'the plain usage delivered %d chunks, this usage %d' % (len(a[0]), len(b[0]))
    if a[1] != b[1]:
        return 'after close the plain usage decides %s, this usage %s' % (a[1], b[1])
    if a[2] != b[2]:
        return 'the inspectors that match are %s with the plain usage, %s with this one' % (
            [k for k, v in a[2] if v], [k for k, v in b[2] if v])
    return 'with the plain usage %s escaped from the reads, with this usage %s' % (a[3], b[3])


def summary(t):
    return (tuple(t['decisions']), t['final'], tuple(sorted(t['matches'].items())), t['escaped'])


def oracle(allowed, data, sizes, prior=(), expected=None, names='str', u=None):
    """(why or None, trace); `prior`: byte strings inspected before, in the same process; `expected`: the
    expected_format handed to the wrapper (its cut-off of the stream is C06's subject; every clause about the
    decision still applies); `names`: how format names are passed (plain str or a str subclass)"""
    inspect_prior(prior)
    try:
        t = G.wrap_trace(allowed, data, sizes, expected, names, u)
    except G.CallFormError as e:
        return str(e), {'decisions': [], 'final': (None, None), 'matches': {}, 'escaped': None}
    except Exception as e:        # never take the harness down: an escaping exception is judged
        return ('%s escaped while the wrapper was being constructed or read' % type(e).__name__,
                {'decisions': [], 'final': (None, None), 'matches': {}, 'escaped': type(e).__name__})
    allowed_set = set(allowed) if allowed else set(G.ALLF)
    if set(t['names']) - allowed_set:
        return 'inspectors outside allowed_formats were created: %s%s' % (
            sorted(set(t['names']) - allowed_set), '' if expected is None else ' (expected_format=%r)' % expected), t
    if t['escaped'] and not (expected is not None and expected in t['names']):
        return 'read() through the wrapper let %s escape' % t['escaped'], t
    if t['close_escaped']:
        return 'close() let %s escape (after close: format=%s formats=%s)' % (
            t['close_escaped'], t['final'][0], t['final'][1]), t
    if t['unstable']:
        where, ds = t['unstable'][0]
        return 'format / formats read three times %s gave different answers: %s' % (
            where, ' then '.join('%s / %s' % (f, list(l) if isinstance(l, tuple) else l) for f, l in ds)), t
    seq = t['decisions'] + [t['final']]
    for k, (f, l) in enumerate(seq):
        where = 'after close' if k == len(seq) - 1 else 'after read %d' % k
        if isinstance(l, str):
            if l != 'EXC:ImageFormatError':
                return 'formats raised %s %s' % (l[4:], where), t
            continue
        if isinstance(f, str) and f.startswith('EXC:') and f != 'EXC:ImageFormatError':
            return 'format raised %s %s' % (f[4:], where), t
        if l is None:
            if f is not None:
                return 'format is %s while formats is None %s' % (f, where), t
            continue
        if set(l) - allowed_set or (f in G.ALLF and f not in allowed_set):
            return 'a format outside allowed_formats was reported %s: %s / %s' % (where, f, list(l)), t
        if 'raw' in l and len(l) > 1:
            return 'raw reported together with %s %s' % ([x for x in l if x != 'raw'], where), t
        if len(l) >= 2 and f != 'EXC:ImageFormatError':
            return '%d formats match %s but format is %s instead of ImageFormatError' % (len(l), where, f), t
        if len(l) == 1 and f != l[0]:
            return 'formats is [%s] but format is %s %s' % (l[0], f, where), t
        if len(l) == 0 and f != 'EXC:ImageFormatError':
            return 'nothing allowed matches %s but format is %s instead of ImageFormatError' % (where, f), t
    # no revision: once a decision has been announced, later reads and close leave it alone
    for which in (0, 1):
        first = None
        for k, d in enumerate(seq):
            if first is None:
                if d[which] is not None:
                    first = (k, d[which])
            elif d[which] != first[1]:
                return ('%s was %s after read %d and %s %s' %
                        (('format', 'formats')[which], first[1], first[0], d[which],
                         'after close' if k == len(seq) - 1 else 'after read %d' % k)), t
    # after close: against the inspectors' own format_match and the content
    f, l = t['final']
    bad = sorted(n for n, m in t['matches'].items() if m not in (True, False))
    if bad:
        return 'format_match of %s raised %s' % (bad[0], t['matches'][bad[0]]), t
    matches = sorted((n for n, m in t['matches'].items() if m and n != 'raw'), key=G.ALLF.index)
    if l is None or isinstance(l, str):
        return 'no decision after close (formats = %s)' % (l,), t
    if matches and list(l) != matches:
        return 'after close %s match but formats is %s' % (matches, list(l)), t
    if not matches and list(l) != (['raw'] if 'raw' in t['names'] else []):
        return 'after close nothing matches but formats is %s' % (list(l),), t
    if f in G.ALLF and f != 'raw':
        if not G.signature_present(f, data):
            return 'format is %s but its signature bytes are not in the content' % f, t
        if matches != [f]:
            return 'format is %s although %s match' % (f, matches), t
    if f == 'raw' and (matches or 'raw' not in allowed_set):
        return 'format is raw although %s' % ('%s match' % matches if matches else 'raw is not allowed'), t
    return None, t


def detect_oracle(data, tmp):
    F = G.fi()
    path = os.path.join(tmp, 'img')
    with open(path, 'wb') as fh:
        fh.write(data)
    names = []
    for tag in G.call_tags('detect_file_format', [path]):          # positional and filename=...
        try:
            i = G.invoke(F.detect_file_format, 'detect_file_format', [path], tag)
            names.append(i.NAME if i is not None else None)
        except F.ImageFormatError:
            names.append('ImageFormatError')
        except G.CallFormError as e:
            return str(e)
        except Exception as e:
            return 'detect_file_format raised %s' % type(e).__name__
    if len(set(names)) != 1:
        return 'detect_file_format(path) and detect_file_format(filename=path) disagree: %s' % names
    if names[0] == 'ImageFormatError':
        return None
    if i is None:
        return 'detect_file_format returned None'
    if i.NAME != 'raw' and not G.signature_present(i.NAME, data):
        return 'detect_file_format answered %s but its signature bytes are not in the content' % i.NAME
    return None


def registry_oracle():
    """get_inspector(format_name) in both call forms: the class registered under that name, None otherwise"""
    F = G.fi()
    for name in G.ALLF + ['foo', '', 'QCOW2']:
        for tag in G.call_tags('get_inspector', [name]):
            try:
                cls = G.invoke(F.get_inspector, 'get_inspector', [name], tag)
            except G.CallFormError as e:
                return str(e)
            except Exception as e:
                return '%s raised %s' % (G.render_call('get_inspector', [name], tag), type(e).__name__)
            if name in G.ALLF:
                if cls is None or getattr(cls, 'NAME', None) != name:
                    return '%s returned %r' % (G.render_call('get_inspector', [name], tag), cls)
            elif cls is not None:
                return '%s returned %r for an unknown name' % (G.render_call('get_inspector', [name], tag), cls)
    return None


def search(ctx, seeds, full=False):
    rng = ctx.rng
    known_like, fresh = [], []
    kinds = {}
    ctx.evaluations += 1
    why0 = registry_oracle()
    if why0:
        fresh.append(Failure({'registry': True}, {'kind': 'get_inspector', 'what': why0}))

    def add(case, why, f1=False):
        kind = ' '.join(w for w in why.split(' ') if not any(ch.isdigit() for ch in w))[:70]
        if f1:
            kind = 'read-size-dependent VMDK decision ' + ('(others match too)' if "', '" in why else '(vmdk or raw)')
        kinds[kind] = kinds.get(kind, 0) + 1
        if kinds[kind] > 2:
            return
        (known_like if f1 else fresh).append(Failure(case, {'kind': kind, 'what': why}))

    def run(label, data, al, sizes, prior=(), expected=None, names='str', u=None):
        ctx.evaluations += 1
        why, t = oracle(al, data, sizes, prior, expected, names, u)
        if why and len(fresh) < 8:
            if names != 'str' and oracle(al, data, sizes, prior, expected, 'str', u)[0]:
                names = 'str'
            if expected is not None and oracle(al, data, sizes, prior, None, names, u)[0]:
                expected = None
            if u and G.usage(u) != G.DEFAULT_USAGE and oracle(al, data, G.effective(len(data), sizes), prior, expected,
                                                              names, None)[0]:
                u, sizes = None, G.effective(len(data), sizes)          # the usage is not what makes it fail

            def still(sub):
                return oracle(al, data, sub, prior, expected, names, u)[0] is not None
            small = sizes
            for cand in ([len(data), 0], [4096] * (len(data) // 4096 + 1) + [0], [512] * (len(data) // 512 + 1) + [0]):
                if len(cand) < len(small) and still(cand):
                    small = cand
                    break
            if 1 < len(small) <= 48:
                small = common.shrink_list(small, still, max_steps=30)
            add(case_of(label, data, al, small, prior=list(prior) or None, expected=expected, names=names, u=u),
                '%s: %s%s%s' % (label, oracle(al, data, small, prior, expected, names, u)[0],
                                '' if names == 'str' else ' [format names passed as %s]' % names, show_usage(u, small)))
        return t

    def variants(label, data, al, sizes):
        """the same content, allowed_formats and chunking through the plain usage and through an unusual but
        legal one (constructor call form, read(size=...), sizes None / -1 / -2 / 0, a real file, an iterator
        source consumed by next / for / break-and-resume / iter() twice, close() twice): every clause holds and
        the decisions are the same"""
        n = len(data)
        u = G.pick_usage(rng, None, al, iterator=False, p_plain=0.0)
        ops = list(sizes)
        if rng.random() < 0.4 and len(sizes) <= 64:
            u['iterator'] = True
            u['proto'] = rng.choice(G.ITER_PROTOS)
        elif rng.random() < 0.7:
            ops = G.vary_ops(sizes, n, rng, u['source'])
        eff = G.effective(n, ops)
        if u.get('iterator'):
            # the iterator's items are the chunks; the model / baseline read exactly those
            keep = eff
        else:
            keep = eff
        t0 = run(label, data, al, keep)
        t1 = run(label, data, al, ops, (), None, 'str', u)
        if 'wrapper' in t0 and 'wrapper' in t1 and len(fresh) < 8:
            a, b = summary(t0), summary(t1)
            if u.get('iterator'):
                # an iterator source ends with StopIteration, a file-like one with whatever reads were issued:
                # compare the decisions chunk by chunk and the final one
                k = min(len(a[0]), len(b[0]))
                a, b = (a[0][:k],) + a[1:], (b[0][:k],) + b[1:]
            if a != b:
                add(case_of(label, data, al, ops, u=u),
                    '%s: the decisions depend on how the wrapper is used: %s%s' % (label, diff_summary(a, b),
                                                                                    show_usage(u, ops)))

    def sequences(n_later):
        """a valid image of each format first, then one or two later streams: every clause on the later
        streams, and their whole trace must not depend on what was inspected before"""
        priors = G.c03_priors(rng, ctx.quick)
        laters = G.c03_laters(rng, ctx.quick)
        for llabel, ldata in thin(ctx, laters):
            if len(fresh) >= 8:
                return
            al = rng.choice([None, None, rng.choice(G.ALLOWED_FAMILY)])
            sizes = rng.choice([[4096, 0], [len(ldata), 0], [64, 512, 4096, 0]])
            seen = []
            for plabel, pdata in priors:
                prior = [pdata]
                if rng.random() < 0.3:          # a second, short stream in between
                    prior.append(rng.choice(laters[:8])[1])
                t = run('%s after %s' % (llabel, plabel), ldata, al, sizes, prior)
                seen.append((summary(t), plabel, prior))
            base = seen[-1]                      # after 2048 zero bytes
            for sm, plabel, prior in seen[:-1]:
                if sm != base[0]:
                    add(case_of('%s after %s' % (llabel, plabel), ldata, al, sizes, prior=prior, prior_b=base[2]),
                        '%s: the decisions depend on what was inspected before: after %s %s / matches %s, after %s '
                        '%s / matches %s' % (llabel, plabel, sm[1], [k for k, v in sm[2] if v],
                                             base[1], base[0][1], [k for k, v in base[0][2] if v]))
                    break

    tmp = tempfile.mkdtemp(prefix='verif-C03s-')
    try:
        for s in seeds[:300]:
            data = G.decode_content(s.get('content', '-'))
            if s.get('detect'):
                ctx.evaluations += 1
                why = detect_oracle(data, tmp)
                if why:
                    add(dict(s), why)
                run(s.get('label', 'seed'), data, None, [4096] * (len(data) // 4096 + 2))
            else:
                run(s.get('label', 'seed'), data, s.get('allowed'), s['sizes'], priors_of(s), s.get('expected'),
                    s.get('names', 'str'), s.get('usage'))
        rounds = (2 if full else 1) if ctx.quick else (4 if full else 2)
        for _ in range(rounds):
            for label, data, al, sizes in thin(ctx, G.c03_text_descriptors(rng, ctx.quick)):
                if len(fresh) >= 8:
                    break
                run(label, data, al, sizes)
            sequences(2)
            for label, data, al, sizes, o in thin(ctx, cross_cases(rng, ctx.quick and not full)):
                if len(fresh) >= 8:
                    break
                run(label, data, al, sizes, (), o['expected'], o['names'])
            contents = thin_contents(ctx, G.c03_contents(rng, ctx.quick))
            if full or not ctx.quick:
                contents += G.c03_huge_contents(rng, True)
            for label, data in contents:
                if len(fresh) >= 8:
                    break
                n = len(data)
                big = n > 64 * images.K
                rs = G.read_sizes(n, rng, ctx.quick)
                for al in ([None] if big else [None, rng.choice(G.ALLOWED_FAMILY)] +
                           ([] if ctx.quick and not full else [rng.choice(G.ALLOWED_FAMILY)])):
                    finals = []
                    for sizes in (rs[:2] if big else rng.sample(rs, min(len(rs), 3))):
                        t = run(label, data, al, sizes)
                        finals.append((t['final'][1], sizes))
                    # the decision after close does not depend on the read sizes
                    a = finals[0]
                    for b in finals[1:]:
                        if b[0] != a[0]:
                            f1 = G.in_class_f1(data) and (not al or 'vmdk' in al)
                            add(case_of(label, data, al, a[1], b[1]),
                                '%s: read-size-dependent decision: formats %s with one read sequence, %s with another'
                                % (label, a[0], b[0]), f1)
                            break
                if not big:
                    variants(label, data, rng.choice([None, None, rng.choice(G.ALLOWED_FAMILY)]),
                             rng.choice([s_ for s_ in rs if len(s_) <= 200] or rs[:1]))
                if not big:            # an expected format (inside / outside allowed, unknown), names as str subclasses
                    al = rng.choice([None, rng.choice(G.ALLOWED_FAMILY)])
                    e, nk = pick_opts(rng, al)
                    run(label, data, al, rng.choice(rs), (), e, nk)
                if not big and rng.random() < 0.3:
                    ctx.evaluations += 1
                    why = detect_oracle(data, tmp)
                    if why:
                        add(dict(case_of(label, data, None, []), detect=True), '%s: %s' % (label, why))
            if len(fresh) >= 6:
                break
    finally:
        shutil.rmtree(tmp, ignore_errors=True)
    return fresh[:6] + known_like[:4]


# --------------------------------------------------------------------------
# known finding KF_F1 (only read-size dependence of a VMDK decision; a revision is never known)

def finals(ctx, case):
    """((impl final a, impl final b), (model final a, model final b))"""
    data = G.decode_content(case['content'])
    al = case.get('allowed')
    impl, model = [], []
    for sizes in (case['sizes'], case['sizes_b']):
        impl.append(impl_wrap(al, data, sizes).split('\t')[2])
        model.append(proj(ctx.driver.ask(G.wrap_req(al, None, data, sizes))).split('\t')[2])
    return impl, model


def names_of(final):
    l = final.split('/', 1)[1] if '/' in final else ''
    return set(x for x in l.strip('[]').split(',') if x)


def classify(ctx, failure, listed_findings):
    if KF not in {f['id'] for f in listed_findings} or ctx.driver is None:
        return None
    case = failure.case
    if 'sizes_b' not in case or 'read-size-dependent' not in str(failure.detail.get('what', '')):
        return None
    data = G.decode_content(case['content'])
    al = case.get('allowed')
    if not G.in_class_f1(data) or (al and 'vmdk' not in al):
        return None
    impl, model = finals(ctx, case)
    if impl != model or impl[0] == impl[1]:
        return None
    # the two decisions differ only in whether vmdk matched (raw stands in when nothing else does)
    if not (names_of(impl[0]) ^ names_of(impl[1])) <= {'vmdk', 'raw'}:
        return None
    return KF


def witness_reproduces(ctx, finding):
    w = finding.get('witness') or {}
    if finding.get('id') != KF or 'content_ascii' not in w or ctx.driver is None:
        return False
    data = w['content_ascii'].encode('ascii')
    case = {'allowed': None, 'content': insp_impl.content_field(data), 'sizes': list(w['sizes_a']) + [0],
            'sizes_b': list(w['sizes_b']) + [0]}
    impl, model = finals(ctx, case)
    return impl == model and impl[0] != impl[1] and (names_of(impl[0]) ^ names_of(impl[1])) <= {'vmdk', 'raw'}


# --------------------------------------------------------------------------

def replay(ctx, payload):
    case = payload.get('failure', {}).get('case') or payload.get('case')
    if not case:
        print('nothing to replay: this file names the obligation that no longer checks:')
        print(payload.get('no_longer_checks'))
        return 0
    if case.get('registry'):
        why = registry_oracle()
        print('property oracle on the implementation:', why)
        return 1 if why else 0
    data = G.decode_content(case['content'])
    al = case.get('allowed')
    exp, nk = case.get('expected'), case.get('names', 'str')
    print('content: %s, %d bytes; allowed_formats=%s%s%s' % (
        case.get('label'), len(data), al, '' if exp is None else ' expected_format=%r' % exp,
        '' if nk == 'str' else ' (names passed as %s)' % nk))
    rc = 0
    if case.get('detect'):
        tmp = tempfile.mkdtemp(prefix='verif-C03r-')
        try:
            print('implementation: detect_file_format ->', insp_impl.run_detect(data, tmp).split('\t')[0])
            why = detect_oracle(data, tmp)
        finally:
            shutil.rmtree(tmp, ignore_errors=True)
        print('model         : detect ->', ctx.driver.ask(G.detect_req(data)).split('\t')[0])
        print('property oracle on the implementation:', why)
        return 1 if why else 0
    if 'prior' in case:
        summaries = []
        for key in ('prior', 'prior_b'):
            if key not in case:
                continue
            pr = priors_of(case, key)
            print('inspected before, in the same process: %s' % ['%d bytes starting %r' % (len(p), p[:8]) for p in pr])
            inspect_prior(pr)
            print('  implementation:', impl_wrap(al, data, case['sizes']).replace('\t', '  ||  '))
            why, t = oracle(al, data, case['sizes'], pr)
            summaries.append(summary(t))
            print('  property oracle on the implementation:', why)
            rc = rc or (1 if why else 0)
        print('model (no state between streams):',
              proj(ctx.driver.ask(G.wrap_req(al, None, data, case['sizes']))).replace('\t', '  ||  '))
        if len(summaries) == 2 and summaries[0] != summaries[1]:
            print('the decisions for the same stream depend on what was inspected before')
            rc = 1
        return rc
    for key in ('sizes', 'sizes_b'):
        if key not in case:
            continue
        sizes = case[key]
        print('read sizes    :', sizes[:40])
        uu = case.get('usage') if key == 'sizes' else None
        if uu:
            print('usage         :', show_usage(uu, sizes))
            if uu.get('form'):
                print('               ', G.render_call('InspectWrapper', [io.BytesIO(), exp, al or None], uu['form']))
        print('implementation:', impl_wrap(al, data, sizes, exp, nk, uu).replace('\t', '  ||  '))
        print('model         :', cut_abort(proj(ctx.driver.ask(G.wrap_req(al, exp, data, sizes))), exp).replace('\t', '  ||  '))
        why, _ = oracle(al, data, sizes, (), exp, nk, uu)
        if uu and not why:
            eff = G.effective(len(data), sizes)
            a, b = summary(oracle(al, data, eff, (), exp, nk)[1]), summary(oracle(al, data, sizes, (), exp, nk, uu)[1])
            if uu.get('iterator'):
                k = min(len(a[0]), len(b[0]))
                a, b = (a[0][:k],) + a[1:], (b[0][:k],) + b[1:]
            if a != b:
                why = 'the decisions depend on how the wrapper is used: ' + diff_summary(a, b)
        print('property oracle on the implementation:', why)
        rc = rc or (1 if why else 0)
    if 'sizes_b' in case:
        impl, model = finals(ctx, case)
        if impl[0] != impl[1]:
            print('decision after close depends on the read sizes: %s vs %s (model: %s vs %s; class KF_F1: %s)'
                  % (impl[0], impl[1], model[0], model[1], G.in_class_f1(data)))
            rc = 1
    return rc


LEVEL_TEXT = ('Machine-checked proof (Lean 4) over a hand-written model of InspectWrapper.formats / format / '
              '_process_chunk and detect_file_format on top of the ten model inspectors; see the theorem list in '
              'lean/OsloProofs/Props/C03*.lean (exclusivity, raw only when nothing else matches, allowed_formats '
              'respected, totality, stability of an announced decision for wrappers over the eight fixed-region formats). The model is tied to the code by a differential '
              'correspondence on signature overlays, images and text/binary files x allowed_formats x read sizes on '
              'every run, sampling the decision after every read.')
LEVEL_NOTE = ('Trusted: Lean kernel; the hand model and the translator; the correspondence harness. The read-size '
              'dependence of a VMDK text-descriptor decision is known finding KF_F1 (not a revision within one read '
              'sequence).')
TECHNIQUE = 'Lean 4 theorems over the wrapper model + model/implementation correspondence + direct clause oracle'
DESIGN_REF = 'DESIGN.md section 5, C03'
