/-
Helper lemmas for the qcow2 acceptance characterisation (C02).
-/
import OsloProofs.Props.C02Gate
namespace Oslo.Insp

theorem lemma_and255 : ∀ n < 256, (n &&& 255 = 0 ↔ n = 0) := by decide +kernel
theorem lemma_and240 : ∀ n < 256, (n &&& 240 = 0 ↔ n < 16) := by decide +kernel

theorem lemma_feature_loop (f : Bytes) (hf : f.length = 8) :
    qcowFeatureLoop 4 8 f 0 = true ↔ beNat f < 16 := by
  match f, hf with
  | [b0, b1, b2, b3, b4, b5, b6, b7], _ =>
    have h0 := lemma_and255 b0.toNat b0.toNat_lt
    have h1 := lemma_and255 b1.toNat b1.toNat_lt
    have h2 := lemma_and255 b2.toNat b2.toNat_lt
    have h3 := lemma_and255 b3.toNat b3.toNat_lt
    have h4 := lemma_and255 b4.toNat b4.toNat_lt
    have h5 := lemma_and255 b5.toNat b5.toNat_lt
    have h6 := lemma_and255 b6.toNat b6.toNat_lt
    have h7 := lemma_and240 b7.toNat b7.toNat_lt
    have l0 := b0.toNat_lt; have l1 := b1.toNat_lt; have l2 := b2.toNat_lt; have l3 := b3.toNat_lt
    have l4 := b4.toNat_lt; have l5 := b5.toNat_lt; have l6 := b6.toNat_lt; have l7 := b7.toNat_lt
    simp only [qcowFeatureLoop, beNat, List.foldl]
    simp
    omega

/-- the qcow2 acceptance condition on the header bytes `d = stream[0:512]` -/
def QcowSafe (d : Bytes) : Prop :=
  d.length = 512 ∧ slice d 0 4 = qcowMagic ∧ beNat (slice d 8 16) = 0 ∧
  (∀ b, d[79]? = some b → b.toNat &&& 4 = 0) ∧
  (beNat (slice d 4 8) = 2 ∨ (beNat (slice d 4 8) = 3 ∧ beNat (slice d 72 80) < 16))

theorem lemma_slice_len (d : Bytes) (a e : Nat) (h : e ≤ d.length) (hae : a ≤ e) : (slice d a e).length = e - a := by
  simp [slice]; omega

theorem lemma_slice_slice0 (d : Bytes) (n a e : Nat) (h : e ≤ n) : slice (slice d 0 n) a e = slice d a e := by
  simp only [slice, List.drop_zero, List.take_take]
  congr 2; omega

theorem lemma_qcow_state_accept (s : Insp) (d : Bytes) (hfmt : s.fmt = .qcow2)
    (hreg : s.regions = [("header", ⟨0, 0, 512, none, d, false, false⟩)])
    (hchk : s.checks = ["backing_file", "data_file", "unknown_features"])
    (hinfo : s.qcowInfo = qinfoR ⟨0, 0, 512, none, d, false, false⟩) :
    safetyCheck s = .ok ↔ QcowSafe d := by
  rw [safety_ok_iff]
  have hcomp : s.complete = decide (512 = d.length) := by
    simp [Insp.complete, hreg, Region.complete]
  by_cases hl : d.length = 512
  · have hc : s.complete = true := by rw [hcomp]; simp [hl]
    have hrc : (⟨0, 0, 512, none, d, false, false⟩ : Region).complete = true := by
      simp [Region.complete, hl]
    have hfm : formatMatch s = .ok (slice d 0 4 == qcowMagic) := by
      simp only [formatMatch, hfmt, Insp.region, hreg, lookupR, if_true, hrc, hinfo, qinfoR,
        lemma_slice_slice0 d 32 0 4 (by omega)]
      cases hm : (slice d 0 4 == qcowMagic) <;> simp [bind, Except.bind, pure, Except.pure, hrc]
    have l816 : (slice d 8 16).length = 8 := lemma_slice_len d 8 16 (by omega) (by omega)
    have l7280 : (slice d 72 80).length = 8 := lemma_slice_len d 72 80 (by omega) (by omega)
    have hbf : runCheck s "backing_file" = if beNat (slice d 8 16) = 0 then .pass else .violation := by
      simp only [runCheck, hfmt, qcowCheckBackingFile, Insp.region, hreg, lookupR, if_true, unpackBE,
        Gen.qcowBfOffset, Gen.qcowBfOffsetLen, bind, Except.bind, pure, Except.pure]
      simp only [Nat.reduceAdd, l816, if_true, CheckRes.ofExcept]
      by_cases hz : beNat (slice d 8 16) = 0
      · simp [hz]
      · have : (beNat (slice d 8 16) == 0) = false := by simp [hz]
        simp [hz, this]
    have hdf : runCheck s "data_file" = if (∀ b, d[79]? = some b → b.toNat &&& 4 = 0) then .pass else .violation := by
      have h79 : (slice d 72 80)[7]? = d[79]? := by
        simp [slice, List.getElem?_drop, List.getElem?_take]
      simp only [runCheck, hfmt, qcowCheckDataFile, Insp.region, hreg, lookupR, if_true,
        Gen.qcowIFeatures, Gen.qcowIFeaturesLen, Gen.qcowDatafileBit, bind, Except.bind, pure, Except.pure]
      simp only [Nat.reduceAdd, Nat.reduceSub, Nat.reduceDiv, Nat.reduceMod, Nat.reduceShiftLeft, h79]
      have : ∃ b, d[79]? = some b := ⟨d[79]'(by omega), by simp⟩
      obtain ⟨b, hb⟩ := this
      simp only [hb, CheckRes.ofExcept, Option.some.injEq, forall_eq']
      by_cases hz : b.toNat &&& 4 = 0
      · simp [hz]
      · have : (b.toNat &&& 4 == 0) = false := by simp [hz]
        simp [hz, this]
    cases hm : (slice d 0 4 == qcowMagic)
    · have hne : slice d 0 4 ≠ qcowMagic := by simpa using hm
      simp [hfm, hm, QcowSafe, hne]
    · have heq : slice d 0 4 = qcowMagic := by simpa using hm
      have huf : runCheck s "unknown_features" =
          if (beNat (slice d 4 8) = 2 ∨ (beNat (slice d 4 8) = 3 ∧ beNat (slice d 72 80) < 16)) then .pass
          else .violation := by
        have hv : (slice (slice d 0 32) 4 8) = slice d 4 8 := lemma_slice_slice0 d 32 4 8 (by omega)
        simp only [runCheck, hfmt, qcowCheckUnknownFeatures, hinfo, qinfoR, hrc, Bool.true_and,
          lemma_slice_slice0 d 32 0 4 (by omega), hv, hm, if_true, Insp.region, hreg, lookupR,
          Gen.qcowIFeatures, Gen.qcowIFeaturesLen, Gen.qcowMaxBit, bind, Except.bind, pure, Except.pure]
        simp only [Nat.reduceAdd, l7280, Nat.lt_irrefl, if_false]
        by_cases h2 : beNat (slice d 4 8) = 2
        · simp [h2, CheckRes.ofExcept]
        · by_cases h3 : beNat (slice d 4 8) = 3
          · simp only [h2, h3, if_false, ne_eq, not_true_eq_false, false_or, true_and]
            have := lemma_feature_loop (slice d 72 80) l7280
            by_cases hlt : beNat (slice d 72 80) < 16
            · simp [hlt, this.mpr hlt, CheckRes.ofExcept]
            · have : qcowFeatureLoop 4 8 (slice d 72 80) 0 = false := by
                cases hq : qcowFeatureLoop 4 8 (slice d 72 80) 0
                · rfl
                · exact absurd (this.mp hq) hlt
              simp [hlt, this, CheckRes.ofExcept]
          · simp [h2, h3, CheckRes.ofExcept]
      simp only [hc, hfm, hm, hchk, true_and, List.mem_cons, List.not_mem_nil, or_false, forall_eq_or_imp,
        forall_eq, QcowSafe, hl, hbf, hdf, huf, heq]
      by_cases a1 : beNat (slice d 8 16) = 0 <;>
      by_cases a2 : (∀ b, d[79]? = some b → b.toNat &&& 4 = 0) <;>
      by_cases a3 : (beNat (slice d 4 8) = 2 ∨ (beNat (slice d 4 8) = 3 ∧ beNat (slice d 72 80) < 16)) <;>
      simp [a1, a2, a3]
  · have hc : s.complete = false := by rw [hcomp]; simp; omega
    simp [hc, QcowSafe, hl]
end Oslo.Insp
