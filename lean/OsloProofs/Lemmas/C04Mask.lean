/-
Helper definitions and lemmas for C04 about keys: how `re` matches a key
(`keyPrefix`, `occursCI`), "a pattern that contains the key cannot match a text in
which the key does not occur", and the key literals as pattern items.
-/
import OsloModel.Mask
import OsloProofs.Lemmas.C04Flat
namespace Oslo.Mask
open Oslo.Flat

/-- `w` is the key `K` as the compiled pattern reads it: character by character, each in the
    class the key character compiles to (case variants, and U+0130/U+0131/U+017F/U+212A) -/
def keyMatch : List Char → List Char → Bool
  | [], [] => true
  | k :: K, c :: w => (keyCls k).test c && keyMatch K w
  | _, _ => false

/-- the text starts with the key (as `re` reads it) -/
def keyPrefix : List Char → List Char → Bool
  | [], _ => true
  | k :: K, c :: s => (keyCls k).test c && keyPrefix K s
  | _ :: _, [] => false

/-- the key occurs somewhere in the text (as `re` reads it) -/
def occursCI (K : List Char) : List Char → Bool
  | [] => keyPrefix K []
  | c :: s => keyPrefix K (c :: s) || occursCI K s

theorem keyPrefix_of_keyMatch : ∀ (K w t : List Char), keyMatch K w = true → keyPrefix K (w ++ t) = true := by
  intro K
  induction K with
  | nil => intro w t _; rfl
  | cons k K ih =>
    intro w t h
    cases w with
    | nil => simp [keyMatch] at h
    | cons c w =>
      simp only [keyMatch, Bool.and_eq_true] at h
      simp [keyPrefix, h.1, ih w t h.2]

theorem keyMatch_length : ∀ (K w : List Char), keyMatch K w = true → w.length = K.length := by
  intro K
  induction K with
  | nil => intro w h; cases w <;> simp_all [keyMatch]
  | cons k K ih =>
    intro w h
    cases w with
    | nil => simp [keyMatch] at h
    | cons c w =>
      simp only [keyMatch, Bool.and_eq_true] at h
      simp [ih w h.2]

theorem occursCI_of_suffix (K : List Char) : ∀ (a s : List Char), keyPrefix K s = true → occursCI K (a ++ s) = true := by
  intro a
  induction a with
  | nil => intro s h; cases s <;> simp_all [occursCI]
  | cons x a ih => intro s h; simp [occursCI, ih s h]

theorem occursCI_drop (K : List Char) : ∀ (s : List Char) (j : Nat), occursCI K (s.drop j) = true → occursCI K s = true := by
  intro s
  induction s with
  | nil => intro j h; simpa using h
  | cons c s ih =>
    intro j h
    cases j with
    | zero => simpa using h
    | succ j => simp only [List.drop] at h; simp [occursCI, ih j h]

theorem occursCI_append_right (K a b : List Char) (h : occursCI K b = true) : occursCI K (a ++ b) = true := by
  have := occursCI_drop K (a ++ b) a.length (by simpa using h)
  exact this

/-- the key literals at the head of a pattern: exact behaviour -/
theorem matchSeq_keyItems {α} (rest : List Item) (k : List Char → Option α) :
    ∀ (K s : List Char), matchSeq (keyItems K ++ rest) k s =
      if keyPrefix K s then matchSeq rest k (s.drop K.length) else none := by
  intro K
  induction K with
  | nil => intro s; simp [keyItems, keyPrefix]
  | cons c K ih =>
    intro s
    have hki : keyItems (c :: K) = ⟨keyCls c, 1, some 1⟩ :: keyItems K := by simp [keyItems]
    rw [hki, List.cons_append, matchSeq_one]
    cases s with
    | nil => simp [keyPrefix]
    | cons a t =>
      by_cases ha : (keyCls c).test a = true
      · simp only [ha, if_true, keyPrefix, Bool.true_and, List.length_cons, List.drop_succ_cons]
        exact ih t
      · simp [ha, keyPrefix]

theorem Consumes_keyItems : ∀ (K s s' : List Char), Consumes (keyItems K) s s' → keyPrefix K s = true := by
  intro K
  induction K with
  | nil => intro s s' _; rfl
  | cons c K ih =>
    intro s s' h
    have hki : keyItems (c :: K) = ⟨keyCls c, 1, some 1⟩ :: keyItems K := by simp [keyItems]
    rw [hki] at h
    cases h with
    | cons _ _ seg s1 _ hseg hlo hhi hrest =>
      have h1 : seg.length = 1 := by
        have := hhi 1 rfl
        simp at hlo; omega
      match seg, h1 with
      | [a], _ =>
        simp [keyPrefix, hseg a (by simp), ih s1 s' hrest]

/-- instantiating a template item list that contains the key hole puts the key literals somewhere -/
theorem instItems_key (ki : List Item) : ∀ (ts : List TItem), TItem.key ∈ ts →
    ∃ A B, instItems ki ts = A ++ ki ++ B := by
  intro ts
  induction ts with
  | nil => intro h; simp at h
  | cons t ts ih =>
    intro h
    cases t with
    | key => exact ⟨[], instItems ki ts, by simp [instItems]⟩
    | it i =>
      have : TItem.key ∈ ts := by simpa using h
      obtain ⟨A, B, hAB⟩ := ih this
      exact ⟨i :: A, B, by simp [instItems, hAB]⟩

theorem Consumes_contains_key (K : List Char) (A B : List Item) (s s' : List Char)
    (h : Consumes (A ++ keyItems K ++ B) s s') : occursCI K s = true := by
  rw [List.append_assoc] at h
  obtain ⟨s1, h1, h2⟩ := Consumes.split h
  obtain ⟨s2, h3, _⟩ := Consumes.split h2
  obtain ⟨a, ha⟩ := h1.suffix
  rw [ha]
  exact occursCI_of_suffix K a s1 (Consumes_keyItems K s1 s2 h3)

/-- a template whose first group contains the key cannot match where the key does not occur -/
theorem matchPat_none_of_noKey (t : Template) (K s : List Char) (hkey : TItem.key ∈ t.g1)
    (h : occursCI K s = false) : matchPat (t.inst (keyItems K)) s = none := by
  cases hm : matchPat (t.inst (keyItems K)) s with
  | none => rfl
  | some b =>
    obtain ⟨s1, s2, s3, c1, _, _, _⟩ := matchPat_some _ _ _ hm
    obtain ⟨A, B, hAB⟩ := instItems_key (keyItems K) t.g1 hkey
    simp only [Template.inst] at c1
    rw [hAB] at c1
    rw [Consumes_contains_key K A B s s1 c1] at h
    cases h

/-- … so `re.sub` with such a pattern leaves the text unchanged -/
theorem subPat_noKey (t : Template) (rep : List RepTok) (K mask s : List Char) (hkey : TItem.key ∈ t.g1)
    (h : occursCI K s = false) : subPat (t.inst (keyItems K)) rep mask s = s := by
  unfold subPat
  apply subAux_none
  intro j _
  apply matchRepl_none
  apply matchPat_none_of_noKey t K _ hkey
  cases hd : occursCI K (s.drop j) with
  | false => rfl
  | true => rw [occursCI_drop K s j hd] at h; cases h

end Oslo.Mask
