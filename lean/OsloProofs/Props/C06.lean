/-
C06 — InspectWrapper is a transparent pipe that isolates inspector faults.

The wrapper model is generic in the inspectors (`IOps σ`): every theorem below holds for
*arbitrary* inspector behaviour — any fault placement, any completeness/match answers — for
every chunk list, expected format and inspector list.  The only assumption is that an
inspector does not change its name (`NameStable`), which is how the model identifies members
of `_errored_inspectors`.
-/
import OsloModel.Wrapper
import OsloProofs.Lemmas.Fmt
namespace Oslo.Insp

variable {σ : Type}

def NameStable (ops : IOps σ) : Prop := ∀ i c, ops.name (ops.eat i c).1 = ops.name i

/-- `b` is what became of inspector `a`: an inspector already marked errored is not touched -/
def Untouched (ops : IOps σ) (errd : List String) (a b : σ) : Prop :=
  ops.name b = ops.name a ∧ (ops.name a ∈ errd → b = a)

/-- position-by-position relation between two lists -/
inductive Pointwise (R : σ → σ → Prop) : List σ → List σ → Prop
  | nil : Pointwise R [] []
  | cons {a b : σ} {l₁ l₂ : List σ} : R a b → Pointwise R l₁ l₂ → Pointwise R (a :: l₁) (b :: l₂)

theorem lemma_pointwise_imp {R S : σ → σ → Prop} (h : ∀ a b, R a b → S a b) {l₁ l₂ : List σ}
    (hp : Pointwise R l₁ l₂) : Pointwise S l₁ l₂ := by
  induction hp with
  | nil => exact .nil
  | cons hr _ ih => exact .cons (h _ _ hr) ih

theorem lemma_forall2_refl (ops : IOps σ) (errd : List String) (l : List σ) :
    Pointwise (Untouched ops errd) l l := by
  induction l with
  | nil => exact .nil
  | cons a l ih => exact .cons ⟨rfl, fun _ => rfl⟩ ih

/-- the loop of `_process_chunk`: what it does to the inspector list, the errored set and how it ends -/
theorem lemma_processLoop (ops : IOps σ) (hn : NameStable ops) (expected : Option String) (chunk : Bytes) :
    ∀ (todo acc : List σ) (errd : List String),
      let r := processLoop ops expected chunk todo acc errd
      (∃ done', r.1 = acc.reverse ++ done' ∧ Pointwise (Untouched ops errd) todo done') ∧
      (∀ n ∈ errd, n ∈ r.2.1) ∧
      (expected = none → r.2.2 = .done) ∧
      (∀ e, r.2.2 = .raised e → ∃ i ∈ todo, some (ops.name i) = expected ∧
          ((ops.eat i chunk).2 = some e ∨
           ((ops.eat i chunk).2 = none ∧ ops.fmatch (ops.eat i chunk).1 = .error e))) ∧
      (r.2.2 = .mismatch → ∃ i ∈ todo, some (ops.name i) = expected ∧ (ops.eat i chunk).2 = none ∧
          ops.complete (ops.eat i chunk).1 = true ∧ ops.fmatch (ops.eat i chunk).1 = .ok false) := by
  intro todo
  induction todo with
  | nil =>
    intro acc errd
    simp only [processLoop]
    exact ⟨⟨[], by simp, .nil⟩, fun n h => h, fun _ => trivial, fun e h => by simp at h, fun h => by simp at h⟩
  | cons i rest ih =>
    intro acc errd
    simp only [processLoop]
    split
    · -- already errored: skipped
      rename_i herr
      obtain ⟨⟨d, hd, hf⟩, hm, hno, hr, hmm⟩ := ih (i :: acc) errd
      refine ⟨⟨i :: d, by simp [hd], .cons ⟨rfl, fun _ => rfl⟩ hf⟩, hm, hno, ?_, ?_⟩
      · intro e he
        obtain ⟨j, hj, rest'⟩ := hr e he
        exact ⟨j, List.mem_cons_of_mem _ hj, rest'⟩
      · intro he
        obtain ⟨j, hj, rest'⟩ := hmm he
        exact ⟨j, List.mem_cons_of_mem _ hj, rest'⟩
    · rename_i herr
      have hnotin : ops.name i ∉ errd := by simpa using herr
      split
      · -- eat raised
        rename_i i' e heat
        have hname : ops.name i' = ops.name i := by
          have := hn i chunk; rw [heat] at this; exact this
        split
        · rename_i hexp
          refine ⟨⟨i' :: rest, by simp, .cons ⟨hname, fun h => absurd h hnotin⟩ (lemma_forall2_refl ops errd rest)⟩,
            fun n h => h, fun h => by rw [h] at hexp; simp at hexp, ?_, fun h => by simp at h⟩
          intro e' he'
          simp only [POut.raised.injEq] at he'
          subst he'
          exact ⟨i, by simp, hexp, Or.inl (by rw [heat])⟩
        · rename_i hexp
          obtain ⟨⟨d, hd, hf⟩, hm, hno, hr, hmm⟩ := ih (i' :: acc) (errd ++ [ops.name i])
          have hf' : Pointwise (Untouched ops errd) rest d := by
            apply lemma_pointwise_imp _ hf
            intro a b ⟨h1, h2⟩
            exact ⟨h1, fun h => h2 (by simp [h])⟩
          refine ⟨⟨i' :: d, by simp [hd], .cons ⟨hname, fun h => absurd h hnotin⟩ hf'⟩,
            fun n h => hm n (by simp [h]), hno, ?_, ?_⟩
          · intro e' he'
            obtain ⟨j, hj, rest'⟩ := hr e' he'
            exact ⟨j, List.mem_cons_of_mem _ hj, rest'⟩
          · intro he'
            obtain ⟨j, hj, rest'⟩ := hmm he'
            exact ⟨j, List.mem_cons_of_mem _ hj, rest'⟩
      · -- eat returned
        rename_i i' heat
        have hname : ops.name i' = ops.name i := by
          have := hn i chunk; rw [heat] at this; exact this
        have hcont :
            (∃ done', (processLoop ops expected chunk rest (i' :: acc) errd).1 = acc.reverse ++ done' ∧
               Pointwise (Untouched ops errd) (i :: rest) done') ∧
            (∀ n ∈ errd, n ∈ (processLoop ops expected chunk rest (i' :: acc) errd).2.1) ∧
            (expected = none → (processLoop ops expected chunk rest (i' :: acc) errd).2.2 = .done) ∧
            (∀ e, (processLoop ops expected chunk rest (i' :: acc) errd).2.2 = .raised e →
              ∃ j ∈ i :: rest, some (ops.name j) = expected ∧
              ((ops.eat j chunk).2 = some e ∨
               ((ops.eat j chunk).2 = none ∧ ops.fmatch (ops.eat j chunk).1 = .error e))) ∧
            ((processLoop ops expected chunk rest (i' :: acc) errd).2.2 = .mismatch →
              ∃ j ∈ i :: rest, some (ops.name j) = expected ∧ (ops.eat j chunk).2 = none ∧
              ops.complete (ops.eat j chunk).1 = true ∧ ops.fmatch (ops.eat j chunk).1 = .ok false) := by
          obtain ⟨⟨d, hd, hf⟩, hm, hno, hr, hmm⟩ := ih (i' :: acc) errd
          refine ⟨⟨i' :: d, by simp [hd], .cons ⟨hname, fun h => absurd h hnotin⟩ hf⟩, hm, hno, ?_, ?_⟩
          · intro e' he'
            obtain ⟨j, hj, rest'⟩ := hr e' he'
            exact ⟨j, List.mem_cons_of_mem _ hj, rest'⟩
          · intro he'
            obtain ⟨j, hj, rest'⟩ := hmm he'
            exact ⟨j, List.mem_cons_of_mem _ hj, rest'⟩
        split
        · rename_i hexp
          simp only [Bool.and_eq_true, decide_eq_true_eq] at hexp
          obtain ⟨hexp, hcomp⟩ := hexp
          have hexp' : some (ops.name i) = expected := by simpa using hexp
          split
          · rename_i e hfm
            refine ⟨⟨i' :: rest, by simp, .cons ⟨hname, fun h => absurd h hnotin⟩ (lemma_forall2_refl ops errd rest)⟩,
              fun n h => h, fun h => by rw [h] at hexp'; simp at hexp', ?_, fun h => by simp at h⟩
            intro e' he'
            simp only [POut.raised.injEq] at he'
            subst he'
            exact ⟨i, by simp, hexp', Or.inr ⟨by rw [heat], by rw [heat]; exact hfm⟩⟩
          · rename_i hfm
            refine ⟨⟨i' :: rest, by simp, .cons ⟨hname, fun h => absurd h hnotin⟩ (lemma_forall2_refl ops errd rest)⟩,
              fun n h => h, fun h => by rw [h] at hexp'; simp at hexp', fun e h => by simp at h, ?_⟩
            intro _
            exact ⟨i, by simp, hexp', by rw [heat], by rw [heat]; exact hcomp, by rw [heat]; exact hfm⟩
          · exact hcont
        · exact hcont

/-! ### the property theorems -/

/-- **nonexpected_fault_contained** — without an expected format nothing an inspector does ever
    reaches the reader: `_process_chunk` always returns normally -/
theorem nonexpected_fault_contained (ops : IOps σ) (hn : NameStable ops) (w : Wrap σ) (chunk : Bytes)
    (h : w.expected = none) : (w.processChunk ops chunk).2 = .done := by
  have := (lemma_processLoop ops hn w.expected chunk w.insps [] w.errored).2.2.1 h
  simpa [Wrap.processChunk] using this

/-- … and with an expected format, an exception reaches the reader only as that format's own
    inspector's error (raised by its `eat_chunk`, or by its `format_match` once complete) -/
theorem raised_only_by_expected (ops : IOps σ) (hn : NameStable ops) (w : Wrap σ) (chunk : Bytes) (e : Err)
    (h : (w.processChunk ops chunk).2 = .raised e) :
    ∃ i ∈ w.insps, some (ops.name i) = w.expected ∧
      ((ops.eat i chunk).2 = some e ∨
       ((ops.eat i chunk).2 = none ∧ ops.fmatch (ops.eat i chunk).1 = .error e)) := by
  have := (lemma_processLoop ops hn w.expected chunk w.insps [] w.errored).2.2.2.1 e
  simp only [Wrap.processChunk] at h
  exact this h

/-- the ImageFormatError "content does not match expected format" is raised exactly for the expected
    inspector being complete without matching -/
theorem mismatch_only_by_expected (ops : IOps σ) (hn : NameStable ops) (w : Wrap σ) (chunk : Bytes)
    (h : (w.processChunk ops chunk).2 = .mismatch) :
    ∃ i ∈ w.insps, some (ops.name i) = w.expected ∧ (ops.eat i chunk).2 = none ∧
      ops.complete (ops.eat i chunk).1 = true ∧ ops.fmatch (ops.eat i chunk).1 = .ok false := by
  have := (lemma_processLoop ops hn w.expected chunk w.insps [] w.errored).2.2.2.2
  simp only [Wrap.processChunk] at h
  exact this h

/-- **errored_never_fed** — an inspector that has failed is never fed again: one `_process_chunk`
    leaves every inspector already in the errored set exactly as it was (position by position),
    no inspector changes its name, and the errored set only grows -/
theorem errored_never_fed (ops : IOps σ) (hn : NameStable ops) (w : Wrap σ) (chunk : Bytes) :
    Pointwise (Untouched ops w.errored) w.insps (w.processChunk ops chunk).1.insps ∧
    (∀ n ∈ w.errored, n ∈ (w.processChunk ops chunk).1.errored) := by
  obtain ⟨⟨d, hd, hf⟩, hm, _⟩ := lemma_processLoop ops hn w.expected chunk w.insps [] w.errored
  simp only [List.reverse_nil, List.nil_append] at hd
  refine ⟨?_, ?_⟩
  · simp only [Wrap.processChunk]; rw [hd]; exact hf
  · simpa [Wrap.processChunk] using hm

theorem lemma_pipe_prefix (ops : IOps σ) : ∀ (src : List Bytes) (w : Wrap σ) (out : List Bytes),
    ∃ k, (Wrap.pipe ops w src out).1 = out.reverse ++ src.take k ∧
         ((Wrap.pipe ops w src out).2.2 = .done → k = src.length) := by
  intro src
  induction src with
  | nil => intro w out; exact ⟨0, by simp [Wrap.pipe], fun _ => rfl⟩
  | cons c cs ih =>
    intro w out
    simp only [Wrap.pipe]
    cases hpc : w.processChunk ops c with
    | mk w' o =>
      cases o with
      | done =>
        obtain ⟨k, hk, hd⟩ := ih w' (c :: out)
        exact ⟨k + 1, by simp [hk], fun h => by simp [hd h]⟩
      | raised e => exact ⟨0, by simp, fun h => by simp at h⟩
      | mismatch => exact ⟨0, by simp, fun h => by simp at h⟩

/-- **pipe_transparent** — the chunks handed to the reader are exactly the source's chunks, in
    order, up to the abort point; when nothing aborted they are all of them -/
theorem pipe_transparent (ops : IOps σ) (w : Wrap σ) (src : List Bytes) :
    ∃ k, (Wrap.pipe ops w src []).1 = src.take k ∧
         ((Wrap.pipe ops w src []).2.2 = .done → k = src.length) := by
  simpa using lemma_pipe_prefix ops src w []

/-- **abort_at_first** — when the stream is cut off at some chunk (the reader got exactly the chunks
    before it), what was read and how it ended do not depend on anything after that chunk: no
    further source data is consumed -/
theorem abort_at_first (ops : IOps σ) (w : Wrap σ) (pre : List Bytes) (c : Bytes) (rest rest' : List Bytes)
    (hlen : (Wrap.pipe ops w (pre ++ c :: rest) []).1.length = pre.length) :
    Wrap.pipe ops w (pre ++ c :: rest') [] = Wrap.pipe ops w (pre ++ c :: rest) [] := by
  have : ∀ (pre : List Bytes) (w : Wrap σ) (out : List Bytes),
      (Wrap.pipe ops w (pre ++ c :: rest) out).1.length = out.length + pre.length →
      Wrap.pipe ops w (pre ++ c :: rest') out = Wrap.pipe ops w (pre ++ c :: rest) out := by
    intro pre
    induction pre with
    | nil =>
      intro w out hlen
      simp only [List.nil_append, Wrap.pipe] at hlen ⊢
      cases hpc : w.processChunk ops c with
      | mk w' o =>
        cases o with
        | done =>
          simp only [hpc] at hlen
          obtain ⟨k, hk, _⟩ := lemma_pipe_prefix ops rest w' (c :: out)
          rw [hk] at hlen
          simp at hlen
        | raised e => rfl
        | mismatch => rfl
    | cons p ps ih =>
      intro w out hlen
      simp only [List.cons_append, Wrap.pipe] at hlen ⊢
      cases hpc : w.processChunk ops p with
      | mk w' o =>
        cases o with
        | done =>
          simp only [hpc] at hlen
          exact ih w' (p :: out) (by simp at hlen ⊢; omega)
        | raised e => rfl
        | mismatch => rfl
  exact this pre w [] (by simpa using hlen)

/-- the stream is cut off at the *first* chunk on which `_process_chunk` does not return normally -/
theorem abort_is_first_failing_chunk (ops : IOps σ) (w : Wrap σ) (src : List Bytes) (k : Nat)
    (hk : (Wrap.pipe ops w src []).1 = src.take k) (hlt : k < src.length) :
    (Wrap.pipe ops w src []).2.2 ≠ .done := by
  intro hd
  obtain ⟨k', hk', hd'⟩ := lemma_pipe_prefix ops src w []
  have := hd' hd
  simp only [List.reverse_nil, List.nil_append] at hk'
  rw [hk'] at hk
  have h1 := congrArg List.length hk
  simp at h1
  omega

/-- `_process_chunk` never changes which format is expected, nor the finished flag -/
theorem processChunk_keeps_expected (ops : IOps σ) (w : Wrap σ) (chunk : Bytes) :
    (w.processChunk ops chunk).1.expected = w.expected ∧
    (w.processChunk ops chunk).1.finished = w.finished := by
  simp [Wrap.processChunk]

theorem lemma_pipe_total (ops : IOps σ) (hn : NameStable ops) : ∀ (src : List Bytes) (w : Wrap σ)
    (out : List Bytes), w.expected = none →
    (Wrap.pipe ops w src out).1 = out.reverse ++ src ∧ (Wrap.pipe ops w src out).2.2 = .done ∧
    (Wrap.pipe ops w src out).2.1.finished = true := by
  intro src
  induction src with
  | nil => intro w out _; simp [Wrap.pipe, Wrap.finish]
  | cons c cs ih =>
    intro w out h
    have hd := nonexpected_fault_contained ops hn w c h
    have he := (processChunk_keeps_expected ops w c).1
    cases hpc : w.processChunk ops c with
    | mk w' o =>
      rw [hpc] at hd he
      simp only at hd he
      subst hd
      simp only [Wrap.pipe, hpc]
      obtain ⟨a, b, d⟩ := ih w' (c :: out) (he.trans h)
      exact ⟨by simp [a], b, d⟩

/-- **pipe_total_without_expected** — a wrapper without an expected format is a total, transparent
    pipe: for every source and every inspector behaviour (faults of any kind, in any inspectors, at
    any chunks) the reader receives exactly the source's chunks, all of them, in order; the stream
    ends normally and the wrapper ends up finished (closed) -/
theorem pipe_total_without_expected (ops : IOps σ) (hn : NameStable ops) (w : Wrap σ) (src : List Bytes)
    (h : w.expected = none) :
    (Wrap.pipe ops w src []).1 = src ∧ (Wrap.pipe ops w src []).2.2 = .done ∧
    (Wrap.pipe ops w src []).2.1.finished = true := by
  simpa using lemma_pipe_total ops hn src w [] h

theorem lemma_loop_isolated (ops : IOps σ) (chunk : Bytes) : ∀ (todo acc : List σ) (errd : List String),
    (todo.map ops.name).Nodup →
    (processLoop ops none chunk todo acc errd).1 =
      acc.reverse ++ todo.map (fun i => if errd.contains (ops.name i) then i else (ops.eat i chunk).1) := by
  intro todo
  induction todo with
  | nil => intro acc errd _; simp [processLoop]
  | cons i rest ih =>
    intro acc errd hnd
    simp only [List.map_cons, List.nodup_cons] at hnd
    obtain ⟨hni, hnd'⟩ := hnd
    by_cases herr : errd.contains (ops.name i) = true
    · simp only [processLoop, herr, if_true]
      rw [ih _ _ hnd']
      have herr' : ops.name i ∈ errd := by simpa using herr
      simp [herr']
    · have herr' : ops.name i ∉ errd := by simpa using herr
      have hcongr : ∀ (e2 : List String), (∀ j ∈ rest, e2.contains (ops.name j) = errd.contains (ops.name j)) →
          rest.map (fun j => if e2.contains (ops.name j) then j else (ops.eat j chunk).1) =
          rest.map (fun j => if errd.contains (ops.name j) then j else (ops.eat j chunk).1) := by
        intro e2 h
        apply List.map_congr_left
        intro j hj
        rw [h j hj]
      cases heat : ops.eat i chunk with
      | mk i' oe =>
        cases oe with
        | some e =>
          simp only [processLoop, herr, heat]
          simp only [reduceCtorEq, if_false, Bool.false_eq_true]
          rw [ih _ _ hnd', hcongr]
          · simp [herr', heat]
          · intro j hj
            have hne : ops.name j ≠ ops.name i := fun h => hni (h ▸ List.mem_map.2 ⟨j, hj, rfl⟩)
            simp [hne]
        | none =>
          simp only [processLoop, herr, heat]
          simp only [reduceCtorEq, decide_false, Bool.false_and, if_false, Bool.false_eq_true]
          rw [ih _ _ hnd']
          simp [herr', heat]

/-- **fault_isolated** — without an expected format, and with inspectors of pairwise different names (true
    of every real wrapper), what one `_process_chunk` does to an inspector depends on that inspector alone:
    it is left as it was if it had failed before, and otherwise becomes what its own `eat_chunk` makes of it --
    whatever the other inspectors do on this chunk (raise, misbehave, finish) -/
theorem fault_isolated (ops : IOps σ) (w : Wrap σ) (chunk : Bytes) (h : w.expected = none)
    (hnd : (w.insps.map ops.name).Nodup) :
    (w.processChunk ops chunk).1.insps =
      w.insps.map (fun i => if w.errored.contains (ops.name i) then i else (ops.eat i chunk).1) := by
  have := lemma_loop_isolated ops chunk w.insps [] w.errored hnd
  simp only [Wrap.processChunk, h]
  simpa using this

/-- the real inspectors never change their name, so the theorems apply to them -/
theorem realOps_nameStable : NameStable realOps := by
  intro i c
  show (eatChunk i c).1.fmt.name = i.fmt.name
  rw [lemma_eatChunk_fmt]

/-- … in particular for the real inspectors, whatever the bytes are and however they are chunked -/
theorem pipe_total_real (allowed : List String) (src : List Bytes) :
    (Wrap.pipe realOps (Wrap.mk' none allowed) src []).1 = src ∧
    (Wrap.pipe realOps (Wrap.mk' none allowed) src []).2.2 = .done :=
  have h := pipe_total_without_expected realOps realOps_nameStable (Wrap.mk' none allowed) src rfl
  ⟨h.1, h.2.1⟩

/-! non-vacuity: a three-chunk stream through a wrapper expecting qcow2 is cut at the chunk that
    completes the (non-matching) qcow2 header; the reader has received exactly the chunks before it -/
example :
    let w := Wrap.mk' (some "qcow2") ["qcow2", "raw"]
    let src : List Bytes := [List.replicate 300 0, List.replicate 300 0, List.replicate 300 0]
    (Wrap.pipe realOps w src []).1.length = 1 ∧ (Wrap.pipe realOps w src []).2.2 = .mismatch := by
  decide +kernel

end Oslo.Insp
