"""C08 - mask_dict_password masks recursively and never modifies its argument."""
import collections
import collections.abc
import json
import sys
import types

import common
import gen_mask
from common import Disagreement, Failure, req, hexs, unhexs
from props import C04

ID = 'C08'
DRIVER = 'drv_mask'
DRIVER_ROOT = 'Drivers.Mask'
PROOF_MODULES = ['OsloProofs.Props.C08']
LEVEL = 'proof'
RULE = ('nested mappings of depth <= 4 and width <= 5 built from dict, OrderedDict, defaultdict, UserDict, '
        'MappingProxyType and a non-dict collections.abc.Mapping; keys str (every sanitize key embedded in lower/'
        'UPPER/Capitalised/mixed/non-ASCII-folded case at the start, middle or end; near-misses), int, float, tuple, '
        'bytes, None, frozenset; values str (plain, or carrying a rendering of a secret), bytes, numbers, None, lists '
        '(also lists holding dicts) and mappings; plus non-mapping arguments; plus call sequences in one process '
        '(the same mapping re-masked with different secrets, a result fed to the next call with another secret, '
        'strings whose embedded secret already equals the mask, repeated and interleaved calls); plus, for every '
        'sanitize key and rendering, the shortest strings that rendering can take (one-character and empty secrets, '
        'length len(key)+2 upwards) under non-sanitize keys at depth 1..4 in every Mapping type; DAG-shaped arguments '
        '(one Mapping object, dict or not, empty or not, reachable through several key paths: siblings, different '
        'depths, under sanitize keys); non-mappings that have items()/keys()/__getitem__ (ad-hoc classes, '
        'email.message.Message, xml Element, SimpleNamespace(items=..)) as the argument (TypeError) and as values '
        '(left alone), and a registered virtual Mapping subclass (accepted); keys that are instances of str '
        'subclasses (plain subclass, a wrapper overriding __str__/lower/__contains__/__eq__/__hash__, (str, Enum) and '
        'StrEnum members) for every sanitize key, at every depth -- the same key object must be in the result; bytes '
        'keys spelling every sanitize key; str values and Mappings whose own methods re-enter the library with other '
        'arguments; the call made from a caller depth swept across the recursion limit (answer or RecursionError). '
        'Non-trivial: the result differs from the '
        'argument (something was masked) or TypeError was raised; distinct by the encoded tree and mask')
TRUSTED_BASE = [
    'Lean 4 kernel; axioms audited per theorem (subset of propext, Classical.choice, Quot.sound)',
    'hand-written model OsloModel/MaskDict.lean (values abstracted to str / mapping / opaque object), tied to '
    'strutils.mask_dict_password by this correspondence; mask_password for string leaves is the C04 model',
    'isinstance(x, collections.abc.Mapping), dict insertion order and dict.items(): decided by the harness when it '
    'encodes the argument (a value is a mapping node iff isinstance says so)',
]
UNMODELLED = ['Mapping objects whose items() is not a function of their content (side effects, duplicate keys)',
              'str subclasses as VALUES (keys that are instances of str subclasses are covered: the key text is '
              'str.__str__(key))', 'a mask containing a backslash (see C04)']
ASSUMPTIONS = ['keys of one mapping are pairwise unequal (true of every dict)']

NONSTR_KEYS = [0, 1, 7, -3, 2.5, (1, 2), ('password',), b'password', b'x', None, frozenset({1}), ('token', 3)]


class FrozenMap(collections.abc.Mapping):
    """A Mapping that is not a dict."""

    def __init__(self, d):
        self._d = dict(d)

    def __getitem__(self, k):
        return self._d[k]

    def __iter__(self):
        return iter(self._d)

    def __len__(self):
        return len(self._d)

    def __repr__(self):
        return 'FrozenMap(%r)' % (self._d,)


class _PairStore:
    """items()/keys()/values()/__getitem__/__iter__/__len__/__contains__ over a private dict."""

    def __init__(self, d=()):
        self._d = dict(d)

    def items(self):
        return self._d.items()

    def keys(self):
        return self._d.keys()

    def values(self):
        return self._d.values()

    def __getitem__(self, k):
        return self._d[k]

    def __iter__(self):
        return iter(self._d)

    def __len__(self):
        return len(self._d)

    def __contains__(self, k):
        return k in self._d

    def __repr__(self):
        return '%s(%r)' % (type(self).__name__, self._d)


class VirtualMap(_PairStore):
    """Not derived from Mapping but registered as a virtual subclass: it IS a collections.abc.Mapping."""


collections.abc.Mapping.register(VirtualMap)


class DuckItems(_PairStore):
    """Looks like a mapping (items, keys, __getitem__, __iter__ ...) but is NOT a collections.abc.Mapping."""


class ItemsOnly:
    def items(self):
        return [('password', 'x'), ('user', 'token=abc')]


def _email_message():
    import email.message
    m = email.message.Message()
    m['password'] = 'x'
    m['user'] = 'password=abc'
    return m


def _xml_element():
    import xml.etree.ElementTree as ET
    return ET.Element('server', {'password': 'x', 'note': 'token=abc'})


# non-mappings that have items() (and more): the property demands TypeError for each of them as the argument,
# and "returned as it is" when one is a value inside a mapping.  Named so that a replay can rebuild them.
SPECIALS = {
    'duck-items': lambda: DuckItems({'password': 'x', 'user': 'password=abc', 'n': {'token': 'y'}}),
    'duck-empty': lambda: DuckItems(),
    'items-only': ItemsOnly,
    'namespace-items': lambda: types.SimpleNamespace(items=lambda: [('password', 'x')], keys=lambda: ['password']),
    'email-message': _email_message,
    'xml-element': _xml_element,
    'dict-items-view': lambda: {'password': 'x'}.items(),
    'class-dict': lambda: dict,
}

INNER_CALLS = [0]


def reenter_library():
    """What a caller-supplied object does inside its own method: call back into the library with OTHER arguments."""
    INNER_CALLS[0] += 1
    st = gen_mask.load_strutils()
    st.mask_password('password=abc <token>x</token>', secret='<inner>')
    st.mask_dict_password({'password': 'x', 'n': {'u': 'token=abc'}}, secret='<inner2>')


class ReentrantStr(str):
    """A str value whose __str__ / __repr__ / __format__ re-enter the library before giving its own text
    (mask_dict_password hands str values to mask_password, which starts with str(message))."""

    def __str__(self):
        reenter_library()
        return str.__str__(self)

    def __repr__(self):
        reenter_library()
        return str.__repr__(self)

    def __format__(self, spec):
        reenter_library()
        return str.__format__(str.__str__(self), spec)


MAPPING_KINDS = ['dict', 'dict', 'dict', 'ordered', 'default', 'user', 'proxy', 'frozen', 'virtual']


def make_mapping(rng, items, kind=None):
    kind = kind or (rng.choice(MAPPING_KINDS) if rng.random() > 0.04 else 'reentrant')
    d = dict(items)
    if kind == 'reentrant':
        return ReentrantMap(d)
    if kind == 'virtual':
        return VirtualMap(d)
    if kind == 'dict':
        return d
    if kind == 'ordered':
        return collections.OrderedDict(items)
    if kind == 'default':
        dd = collections.defaultdict(list)
        dd.update(d)
        return dd
    if kind == 'user':
        return collections.UserDict(d)
    if kind == 'proxy':
        return types.MappingProxyType(d)
    return FrozenMap(d)


def _is_bytes(x):
    return isinstance(x, (bytes, bytearray))


def keys_collide(a, b):
    """May the two keys not live in one dict of a generated argument?  Equal keys, and -- never comparing bytes with
    str, which is an error under `python -bb` and would be raised by dict itself, since hash(b'x') == hash('x') -- a
    bytes key and a str key with the same ASCII text."""
    if _is_bytes(a) != _is_bytes(b):
        if isinstance(a, str) or isinstance(b, str):
            t, y = (a, b) if isinstance(a, str) else (b, a)
            return bytes(y) == str.__str__(t).encode('utf-8', 'surrogatepass')
        return False
    return a == b


def gen_nonstr_key(rng):
    """int / float / tuple / None / frozenset keys and bytes keys; one bytes key in three is the ASCII encoding of
    a sanitize key in some letter case (b'password', b'TOKEN'): not a string key, so never a reason to mask."""
    x = rng.random()
    if x < 0.25:
        key = rng.choice(C04.all_keys())
        return C04.case_form(rng, key, rng.choice(['lower', 'lower', 'upper', 'cap'])).encode('ascii')
    if x < 0.32:
        return rng.choice(C04.all_keys())[:-1].encode('ascii') + rng.choice([b'', b'_', b'2'])
    return rng.choice(NONSTR_KEYS)


class PlainSub(str):
    """a str subclass that adds nothing"""


class LazyText(str):
    """a lazy-translation style wrapper: overrides __str__ / lower / __contains__ / __eq__ / __hash__, all
    consistently with the text it carries"""

    def __str__(self):
        return str.__str__(self)

    def lower(self):
        return LazyText(str.lower(self))

    def __contains__(self, x):
        return str.__contains__(self, x)

    def __eq__(self, other):
        return str.__eq__(self, other)

    def __ne__(self, other):
        return str.__ne__(self, other)

    def __hash__(self):
        return str.__hash__(self)


SUBKEY_KINDS = ['plain-sub', 'lazy', 'str-enum', 'strenum']


def make_subkey(kind, text):
    """A key that IS a str (an instance of a str subclass) carrying `text`."""
    import enum
    if kind == 'plain-sub':
        return PlainSub(text)
    if kind == 'lazy':
        return LazyText(text)
    if kind == 'str-enum':                      # class Field(str, enum.Enum)
        return enum.Enum('Field', {'MEMBER': text}, type=str).MEMBER
    if hasattr(enum, 'StrEnum'):
        return enum.StrEnum('Names', {'MEMBER': text}).MEMBER
    return PlainSub(text)


def subkey_kind(k):
    import enum
    if type(k) is PlainSub:
        return 'plain-sub'
    if type(k) is LazyText:
        return 'lazy'
    if hasattr(enum, 'StrEnum') and isinstance(k, enum.StrEnum):
        return 'strenum'
    if isinstance(k, enum.Enum):
        return 'str-enum'
    return 'plain-sub'


class ReentrantMap(FrozenMap):
    """A Mapping whose iteration re-enters the library with other arguments (its content is what it was given)."""

    def __iter__(self):
        reenter_library()
        return iter(self._d)


def gen_str_key(rng):
    """A string key; about one in eight is an instance of a str SUBCLASS (the property says "string key":
    isinstance semantics), the text being generated in the same way."""
    text = gen_str_key_text(rng)
    if rng.random() < 0.13 and text:
        return make_subkey(rng.choice(SUBKEY_KINDS), text)
    return text


def gen_str_key_text(rng):
    keys = C04.all_keys()
    x = rng.random()
    if x < 0.55:
        k = C04.case_form(rng, rng.choice(keys), rng.choice(['lower', 'upper', 'cap', 'mixed', 'folded']))
        pos = rng.choice(['alone', 'start', 'mid', 'end'])
        a = rng.choice(['', 'os_', 'x-', 'my ', 'É', '1'])
        b = rng.choice(['', '_id', '2', ' x', '.v', 'İ'])
        return {'alone': k, 'start': k + b, 'mid': (a or 'a') + k + (b or 'b'), 'end': a + k}[pos]
    if x < 0.75:                        # near misses
        k = rng.choice(keys)
        i = rng.randrange(len(k))
        return rng.choice([k[:i] + k[i + 1:], k[:i] + ' ' + k[i:], k[:i] + '_' + k[i:], k[::-1],
                           k[:i] + 'ſ' + k[i + 1:], k.upper()[:i] + '-' + k[i:]])
    return rng.choice(['user', 'name', 'id', 'home-dir', 'nested', 'data', '', ' ', 'Key', 'pass', 'word', 'tok'])


SHORT_CHARS = 'x7-^=.*_Z#:/ſ'      # one-character secrets: non-space, non-quote


def short_secret_strings(rng, key, form=None):
    """The shortest strings each rendering of `key` can take (one-character or empty secrets: len(key)+2 upwards)
    and their neighbours -- every one of them must come back as mask_password(value)."""
    K = C04.case_form(rng, key, form or rng.choice(['lower', 'upper', 'cap', 'mixed']))
    c, c2 = rng.choice(SHORT_CHARS), rng.choice(SHORT_CHARS)
    d = rng.choice('0123456789')
    return [K + '=' + c, K + '=' + c + c2, K + d + '=' + c, K + ' =' + c, K + '= ' + c, K + '\t=' + c,
            K + '=""', K + "=''", K + '="' + c + '"', K + "='" + c + "'", K + ' ""', K + " '" + c + "'",
            '--' + K + ' ' + c, '--' + K + '\n' + c + c2, '"' + K + '":""', "'" + K + "':'" + c + "'",
            '"' + K + '": u"' + c + '"', '<' + K + '></' + K + '>', '<' + K + '>' + c + '</' + K + '>',
            K + '-a ' + c, K + ' --_ ' + c, "'" + K + "','-a','" + c + "'",
            K + ':' + c, K + ' ' + c, K + '=', K[:-1] + '=' + c, c + K + '=' + c]


def short_secret_tree(rng, key, form=None, depth=None):
    """A mapping (random Mapping type at every level) holding the shortest maskable strings of `key` under keys that
    are not sanitize keys, `depth` levels down."""
    vals = short_secret_strings(rng, key, form)
    items = [('v%d' % i, v) for i, v in enumerate(vals)]
    rng.shuffle(items)
    cut = rng.randrange(1, len(items))
    inner = make_mapping(rng, items[:cut])
    for lvl in range((depth or rng.randrange(1, 5)) - 1):
        inner = make_mapping(rng, [('n%d' % lvl, inner), ('id', lvl)])
    outer = dict(items[cut:])
    outer['nested'] = inner
    return make_mapping(rng, list(outer.items()))


def short_secret_grid(rng, passes):
    keys = C04.all_keys()
    for p in range(passes):
        for key in keys:
            yield short_secret_tree(rng, key, ['lower', 'upper', 'cap', 'mixed'][p % 4], depth=1 + (p + len(key)) % 4)


def subkey_grid(rng, passes):
    """Every sanitize key x every kind of str-subclass key (alone / embedded, some case form), the secret stored as
    a str, a number, None, a list, at depth 1..3 in every Mapping type; near-miss texts alongside."""
    for p in range(passes):
        for key in C04.all_keys():
            for kind in SUBKEY_KINDS:
                text = C04.case_form(rng, key, rng.choice(['lower', 'upper', 'cap', 'mixed']))
                text = rng.choice([text, 'x_' + text, text + '2', 'os-' + text + '_id'])
                inner = make_mapping(rng, [(make_subkey(kind, text), rng.choice(['s3cr3t', 5, None, ['a'], b'raw'])),
                                           (make_subkey(kind, 'user'), 'plain ' + key + '=abc'),
                                           (make_subkey(kind, key[:-1]), 'kept')])
                for lvl in range((p + len(key)) % 3):
                    inner = make_mapping(rng, [(make_subkey(kind, 'n%d' % lvl), inner), ('id', lvl)])
                yield inner


def byteskey_grid(rng):
    """Every sanitize key as a BYTES key (exact lower-case ASCII, and other cases), holding str / number / None
    values, alone and next to str keys, at depth 1..3: bytes keys are not string keys -- values under them are
    only passed through mask_password (str) or left alone."""
    for i, key in enumerate(C04.all_keys()):
        b = key.encode('ascii')
        inner = make_mapping(rng, [(b, rng.choice(['s3cr3t', 'user ' + key + '=abc', 5, None])),
                                   (key.upper().encode('ascii'), 'plain'), ('user', 'bob'),
                                   ('x_' + key, 'masked-by-str-key')])
        for lvl in range(i % 3):
            inner = make_mapping(rng, [(b, inner), ('id', lvl)])
        yield inner


def gen_leaf(rng):
    v = gen_leaf_plain(rng)
    if type(v) is str and rng.random() < 0.05:
        return ReentrantStr(v)
    return v


def gen_leaf_plain(rng):
    if rng.random() < 0.12:
        keys = C04.all_keys()
        key = rng.choice(sorted(keys, key=len)[:6]) if rng.random() < 0.5 else rng.choice(keys)
        return rng.choice(short_secret_strings(rng, key))
    x = rng.random()
    if x < 0.45:
        y = rng.random()
        if y < 0.5:
            return C04.gen_rendering_case(rng, nparts=rng.choice([1, 1, 2]), allow_wildcard_class=True)['message']
        if y < 0.7:
            return C04.gen_malformed(rng)
        return rng.choice(['admin', '/home/admin', '', 'd81juxmEW_', 'plain text', 'password', 'x=1'])
    return _other_leaf(rng)


def _other_leaf(rng):
    k = rng.randrange(9)
    if k == 0:
        return None
    if k == 1:
        return rng.choice([0, 1, 42, -7, 10 ** 20])
    if k == 2:
        return rng.choice([1.5, -0.0, float('inf')])
    if k == 3:
        return rng.choice([True, False])
    if k == 4:
        return rng.choice([b'password=abc', b'', bytearray(b'token=1')])
    if k == 5:
        return ['password=abc', {'password': 'in-a-list'}, 3]       # lists are not descended into
    if k == 6:
        return ('token', 'x')
    if k == 7:
        return {'set'}
    return object()


def gen_tree(rng, depth, width, pool=None):
    """`pool` collects the finished sub-mappings of this argument: one of them is sometimes REUSED as a value (the same
    object at two or more key paths -- an acyclic, DAG-shaped argument; the result is a function of structure)."""
    pool = [] if pool is None else pool
    n = rng.randrange(0, width + 1)
    items, used = [], []
    for _ in range(n):
        k = gen_str_key(rng) if rng.random() < 0.75 else gen_nonstr_key(rng)
        if any(keys_collide(k, u) for u in used):
            continue
        used.append(k)
        x = rng.random()
        if pool and x < 0.12:
            v = rng.choice(pool)
        elif depth > 1 and x < 0.42:
            v = gen_tree(rng, depth - 1, width, pool)
        elif x > 0.97:
            v = SPECIALS[rng.choice(sorted(SPECIALS))]()       # a non-mapping with items(): left alone as a value
        else:
            v = gen_leaf(rng)
        items.append((k, v))
    m = make_mapping(rng, items)
    pool.append(m)
    return m


def gen_dag(rng):
    """Arguments in which one Mapping object is reachable through several key paths."""
    kind = rng.choice(MAPPING_KINDS)
    shape = rng.choice(['siblings', 'depths', 'empty', 'thrice', 'nested-shared', 'under-sanitize-key', 'random'])
    if shape == 'random':
        return gen_tree(rng, rng.choice([2, 3, 4]), rng.choice([3, 4, 5]), [make_mapping(rng, [('user', 'bob')])])
    creds = make_mapping(rng, [] if shape == 'empty' else
                         [('user', 'admin'), (rng.choice(['password', 'Token', 'id']), gen_leaf(rng)),
                          ('note', 'password=abc')], kind)
    if shape in ('siblings', 'empty'):
        return make_mapping(rng, [('primary', creds), ('fallback', creds), ('n', 1)])
    if shape == 'depths':
        return make_mapping(rng, [('a', creds), ('b', make_mapping(rng, [('c', make_mapping(rng, [('d', creds)]))]))])
    if shape == 'thrice':
        return make_mapping(rng, [('x', creds), (7, creds), ('y', make_mapping(rng, [('z', creds)]))])
    if shape == 'nested-shared':
        mid = make_mapping(rng, [('creds', creds), ('again', creds)])
        return make_mapping(rng, [('one', mid), ('two', mid), ('three', creds)])
    return make_mapping(rng, [('password', creds), ('backup', creds), ('auth_token', creds)])


# ------------------------------------------------------------------ encoding for the model

class Enc:
    """Encodes a Python value as the model's tree; remembers which object each opaque id / key id stands for."""

    def __init__(self):
        self.objs = []          # opaque leaves by identity
        self.keys = []          # non-str keys by identity

    def oid(self, v):
        for i, o in enumerate(self.objs):
            if o is v:
                return i
        self.objs.append(v)
        return len(self.objs) - 1

    def kid(self, k):
        for i, o in enumerate(self.keys):
            if o is k or (type(o) is type(k) and o == k):
                return i
        self.keys.append(k)
        return len(self.keys) - 1

    def key(self, k):
        return 'K:' + hexs(str.__str__(k)) if isinstance(k, str) else 'X:%d' % self.kid(k)

    def val(self, v):
        if isinstance(v, collections.abc.Mapping):
            items = list(v.items())
            return ' '.join(['M:%d' % len(items)] + [self.key(k) + ' ' + self.val(x) for k, x in items])
        if type(v) is str or isinstance(v, ReentrantStr):
            return 'S:' + hexs(str.__str__(v))           # the text; a ReentrantStr's own methods only re-enter
        return 'O:%d' % self.oid(v)

    # canonical form of the implementation's result, in the same syntax
    def out_key(self, k):
        if isinstance(k, str):
            return 'K:' + hexs(str.__str__(k))
        for i, o in enumerate(self.keys):
            if o is k or (type(o) is type(k) and o == k):      # the same rule as kid(); object identity of keys is
                return 'X:%d' % i                               # checked separately by key_objects_kept
        return 'X:?%r' % (k,)

    def out_val(self, v, inputs):
        if isinstance(v, collections.abc.Mapping):
            if type(v) is not dict:
                return 'NOT-A-DICT:%s' % type(v).__name__
            if any(v is c for c in inputs):
                return 'ALIASES-ARGUMENT'
            items = list(v.items())
            return ' '.join(['M:%d' % len(items)] + [self.out_key(k) + ' ' + self.out_val(x, inputs) for k, x in items])
        if type(v) is str:
            return 'S:' + hexs(v)
        for i, o in enumerate(self.objs):
            if o is v:
                return 'O:%d' % i
        return 'O:?%r' % (v,)


def containers(v, acc=None):
    acc = [] if acc is None else acc
    if isinstance(v, collections.abc.Mapping):
        acc.append(v)
        for x in v.values():
            containers(x, acc)
    return acc


def snapshot(v):
    """Everything reachable from the argument: identities and contents."""
    if isinstance(v, collections.abc.Mapping):
        return ('M', type(v).__name__, id(v), [(id(k), repr(k), snapshot(x)) for k, x in v.items()])
    if isinstance(v, (list, tuple)):
        return ('L', type(v).__name__, id(v), [snapshot(x) for x in v])
    if isinstance(v, (set, frozenset)):
        return ('S', id(v), sorted(map(repr, v)))
    try:
        r = repr(v)
    except Exception:
        r = '<unrepr>'
    return ('V', type(v).__name__, id(v), r)


def key_objects_kept(arg, res):
    """Every key of the argument that is an instance of a str subclass (or not a str at all) must be THE SAME
    object in the result (for plain str keys equal text is enough)."""
    if not (isinstance(arg, collections.abc.Mapping) and isinstance(res, collections.abc.Mapping)):
        return True
    a, r = list(arg.items()), list(res.items())
    if len(a) != len(r):
        return True                     # reported by the structural comparison
    for (ak, av), (rk, rv) in zip(a, r):
        if type(ak) is not str and rk is not ak:
            return False
        if not key_objects_kept(av, rv):
            return False
    return True


def run_impl(arg, mask, below=None):
    """-> (canonical result, mutated?)"""
    enc = Enc()
    line_tree = enc.val(arg)
    before = snapshot(arg)
    inputs = containers(arg)
    fn = gen_mask.load_strutils().mask_dict_password
    try:
        if below is None:
            res = fn(arg, mask)
        else:
            kind, res = at_depth(below, lambda: fn(arg, mask))
            if kind == 'rec':
                raise RecursionError
    except Exception as e:
        out = type(e).__name__
    else:
        out = 'ok\t' + enc.out_val(res, inputs)
        if not key_objects_kept(arg, res):
            out += ' KEY-OBJECT-REPLACED'
    after = snapshot(arg)
    return line_tree, out, before != after


def gen_case(rng, quick):
    x = rng.random()
    if x < 0.03:
        return rng.choice([None, 3, 'password=abc', ['a'], ('k', 'v'), b'x', {1, 2}, [('password', 'x')]])
    if x < 0.05:
        return SPECIALS[rng.choice(sorted(SPECIALS))]()
    if x < 0.12:
        return gen_dag(rng)
    depth = rng.choice([1, 2, 2, 3, 3, 4])
    width = rng.choice([1, 2, 3, 4, 5, 5])
    return gen_tree(rng, depth, width)


# ------------------------------------------------------------------ call sequences (one process, in order)

SEQ_MASKS = ['***', '???', '#', '<hidden>', 'XXXX', '%%%%', '*']


def gen_seq_tree(rng, embedded_mask=None):
    """A small mapping whose string leaves carry renderings; with `embedded_mask` the secrets already equal it."""
    keys = C04.all_keys()

    def leaf():
        if embedded_mask is not None and rng.random() < 0.7:
            r = rng.choice(['eq_bare', 'eq_quoted', 'dashdash', 'xml', 'key_quoted', 'cmd_flag', 'colon_quoted'])
            head, val, tail = C04.render(rng, r, rng.choice(keys), rng.choice(C04.FORMS4), embedded_mask, strict=True)
            return rng.choice(['', 'user x ']) + head + val + tail
        x = rng.random()
        if x < 0.6:
            return C04.gen_rendering_case(rng, nparts=rng.choice([1, 1, 2]), strict=True)['message']
        if x < 0.8:
            return rng.choice(['admin', '/home/admin', 'plain text', '', 'x=1'])
        return _other_leaf(rng)

    def tree(depth):
        items, used = [], set()
        for _ in range(rng.randrange(1, 5)):
            k = rng.choice(['user', 'cmd', 'body', 'args', 'msg', 'url', 'note', 'extra']) if rng.random() < 0.7 \
                else gen_str_key(rng)
            if k in used:
                continue
            used.add(k)
            items.append((k, tree(depth - 1) if depth > 1 and rng.random() < 0.3 else leaf()))
        return make_mapping(rng, items)
    return tree(rng.choice([1, 2, 3]))


def gen_sequence(rng):
    """-> (family, steps); a step is ('fresh', arg, mask) or ('feed', index of an earlier step, mask): the
    result of that earlier call is the argument."""
    fam = rng.choice(['remask', 'remask', 'embedded', 'embedded', 'interleave', 'repeat'])
    ms = rng.sample(SEQ_MASKS, 4)
    if fam == 'remask':
        d = gen_seq_tree(rng)
        steps = [('fresh', d, ms[0]), ('feed', 0, ms[0]), ('feed', 0, ms[1]), ('fresh', d, ms[1]),
                 ('feed', 3, ms[0]), ('feed', 1, ms[2]), ('feed', 2, ms[2])]
        return fam, steps[:rng.randrange(3, len(steps) + 1)]
    if fam == 'embedded':
        d = gen_seq_tree(rng, embedded_mask=ms[0])
        return fam, [('fresh', d, m) for m in (ms[0], ms[1], ms[0], ms[2])][:rng.randrange(2, 5)]
    if fam == 'interleave':
        d1 = gen_seq_tree(rng, embedded_mask=ms[1] if rng.random() < 0.5 else None)
        d2 = gen_seq_tree(rng, embedded_mask=ms[0] if rng.random() < 0.5 else None)
        return fam, [('fresh', d1, ms[0]), ('fresh', d2, ms[1]), ('fresh', d1, ms[1]), ('fresh', d2, ms[0]),
                     ('feed', 0, ms[1]), ('feed', 1, ms[0]), ('fresh', d1, ms[0])]
    d = gen_seq_tree(rng, embedded_mask=rng.choice([None, ms[0]]))
    return fam, [('fresh', d, ms[0])] * 3 + [('fresh', dict(d.items()), ms[1]), ('fresh', d, ms[0])]


def run_sequence(steps, judge):
    """Run the calls in order in this process.  `judge(arg, mask)` is called for every step (it makes the call);
    -> list of (arg, mask, judge result).  A 'feed' step whose source raised re-uses the source's argument."""
    s = gen_mask.load_strutils()
    results, out = [], []
    for kind, x, mask in steps:
        if kind == 'fresh':
            arg = x
        else:
            arg = results[x]
        verdict = judge(arg, mask)
        try:
            results.append(s.mask_dict_password(arg, mask))
        except Exception:
            results.append(arg)
        out.append((arg, mask, verdict))
    return out


def seq_case(done, failing_step):
    """JSON-able replay case: every call up to the failing one, arguments as encoded trees."""
    steps = []
    for arg, mask, _ in done[:failing_step + 1]:
        try:
            tree = Enc().val(arg)
        except Exception:
            tree = None
        steps.append({'tree': tree, 'arg': safe_dump(arg), 'mask': mask, 'repr': repr(arg)[:400]})
    return {'kind': 'seq', 'steps': steps, 'failing_step': failing_step}


def oracle_sequence(case):
    """Property oracle on a stored sequence (decoded trees), in order; -> (index, why) of the first failing call."""
    for i, st in enumerate(case['steps']):
        arg = case_arg(st)
        why = oracle(arg, st['mask'], st.get('below'))
        if why:
            return i, why
    return None


FRESH_BUDGET = [60.0]          # seconds of fresh-interpreter work left in this run


def fresh_process_fails(case):
    """The oracle's verdict on the stored sequence in a FRESH interpreter in the same ambient configuration (nothing
    remembered from this run): [index, why] | None (passes there) | 'unknown' (could not be run / budget used up)."""
    import os
    import subprocess
    import time
    import ambient
    if FRESH_BUDGET[0] <= 0:
        return 'unknown'
    code = ('import sys, json\nsys.path.insert(0, %r)\n' % os.path.dirname(os.path.dirname(__file__))
            + ambient.setup_snippet('import common\nfrom props import C08')
            + 'r = C08.oracle_sequence(json.load(sys.stdin))\nprint(json.dumps(r))\n')
    t0 = time.time()
    try:
        p = subprocess.run(ambient.fresh_interpreter_argv() + ['-c', code], input=json.dumps(case).encode(),
                           stdout=subprocess.PIPE, stderr=subprocess.PIPE, timeout=max(5, min(60, FRESH_BUDGET[0])))
        line = [l for l in p.stdout.decode().splitlines() if l.strip()][-1]
        return json.loads(line)
    except Exception:
        return 'unknown'
    finally:
        FRESH_BUDGET[0] -= time.time() - t0


def shrink_sequence(case):
    """Fewest calls that still fail in a fresh process (each candidate is run in its own interpreter)."""
    first = fresh_process_fails(case)
    if first is None:
        return dict(case, note='fails only after the earlier calls of this run')
    if first == 'unknown':
        return case
    steps = case['steps']

    def still(sub):
        r = fresh_process_fails({'kind': 'seq', 'steps': sub})
        return isinstance(r, list)
    small = common.shrink_list(steps, still, max_steps=25)
    r = fresh_process_fails({'kind': 'seq', 'steps': small})
    return {'kind': 'seq', 'steps': small, 'failing_step': r[0] if isinstance(r, list) else len(small) - 1}


def correspondence(ctx):
    rng = ctx.rng
    n = 1000 if ctx.quick else 30000
    cases, lines = [], []
    fixed = [{}, {'password': 'x'}, {'PASSWORD': {'a': 'b'}}, {'a': {'password': {'token': 'x'}}},
             {'password': ['x']}, {b'password': 'password=abc'}, {'user': 'password=abc'},
             {'Passwordİ': 1}, {'toKen': 1}, {'ſecret': 1, 'x': 'ſecret=abc secret=abc'}]
    fixed += list(short_secret_grid(rng, 2 if ctx.quick else 16))
    fixed += [SPECIALS[n]() for n in sorted(SPECIALS)] + [{'v': SPECIALS[n](), 'password': SPECIALS[n]()} for n in sorted(SPECIALS)]
    fixed += [VirtualMap({'password': 'x', 'n': VirtualMap({'user': 'token=abc'})})]
    fixed += list(subkey_grid(rng, 1 if ctx.quick else 6))
    fixed += list(byteskey_grid(rng))
    fixed += [gen_dag(rng) for _ in range(60 if ctx.quick else 1500)]
    for i in range(n + len(fixed)):
        arg = fixed[i] if i < len(fixed) else gen_case(rng, ctx.quick)
        mask = C04.gen_mask_text(rng, rng.random() < 0.2)
        if '\\' in mask:
            mask = '***'
        tree, out, mutated = run_impl(arg, mask)
        cases.append((arg, mask, tree, out, mutated))
        lines.append(req('dict', tree, hexs(mask)))
    replies = ctx.driver.ask_many(lines)
    res = []
    for (arg, mask, tree, out, mutated), rep in zip(cases, replies):
        ctx.evaluations += 1
        ctx.count('out/' + ('ok' if out.startswith('ok') else out))
        ctx.count('arg/' + type(arg).__name__)
        if out != 'ok\t' + tree:
            ctx.nontrivial((tree, mask))
        if len(ctx.samples) < 4 and out.startswith('ok') and out != 'ok\t' + tree and len(tree) < 400:
            ctx.sample({'argument': repr(arg)[:300], 'mask': mask, 'implementation': repr(
                gen_mask.load_strutils().mask_dict_password(arg, mask))[:300]})
        if mutated:
            res.append(Disagreement({'tree': tree, 'arg': safe_dump(arg), 'mask': mask, 'repr': repr(arg)[:500]},
                                    'ARGUMENT MODIFIED; result ' + out, rep, where='non-mutation'))
        elif out != rep:
            res.append(Disagreement({'tree': tree, 'arg': safe_dump(arg), 'mask': mask, 'repr': repr(arg)[:500]},
                                    out, rep))
    # caller stack depth swept across the recursion limit: the answer is the model's or RecursionError, nothing else
    deep, dlines = [], []
    for arg in deep_args(rng, 3 if ctx.quick else 12):
        for below in BELOW_SWEEP:
            tree, out, mutated = run_impl(arg, '***', below)
            deep.append((arg, below, tree, out, mutated))
            dlines.append(req('dict', tree, hexs('***')))
    for (arg, below, tree, out, mutated), rep in zip(deep, ctx.driver.ask_many(dlines)):
        ctx.evaluations += 1
        ctx.count('depth/' + ('RecursionError' if out == 'RecursionError' else 'answered'))
        case = {'tree': tree, 'arg': safe_dump(arg), 'mask': '***', 'below': below, 'repr': repr(arg)[:500]}
        if mutated:
            res.append(Disagreement(case, 'ARGUMENT MODIFIED; result ' + out, rep, where='non-mutation'))
        elif out != 'RecursionError' and out != rep:
            res.append(Disagreement(case, '%d frames below the recursion limit: %s' % (below, out), rep))
    # call sequences: the model is stateless, so every call of a sequence is compared with the model's answer
    seqs, lines = [], []
    for _ in range(60 if ctx.quick else 2500):
        fam, steps = gen_sequence(rng)
        done = run_sequence(steps, lambda a, m: run_impl(a, m))
        seqs.append((fam, done))
        lines += [req('dict', v[0], hexs(m)) for _, m, v in done]
    replies = iter(ctx.driver.ask_many(lines))
    for fam, done in seqs:
        reported = False
        for i, (arg, mask, (tree, out, mutated)) in enumerate(done):
            rep = next(replies)
            ctx.evaluations += 1
            ctx.count('seq/' + fam)
            if out != 'ok\t' + tree:
                ctx.nontrivial(('seq', i, tree, mask))
            if reported:
                continue
            if mutated:
                res.append(Disagreement(seq_case(done, i), 'ARGUMENT MODIFIED in call %d; result %s' % (i, out), rep,
                                        where='non-mutation'))
                reported = True
            elif out != rep:
                res.append(Disagreement(seq_case(done, i), 'call %d: %s' % (i, out), 'call %d: %s' % (i, rep)))
                reported = True
    return res


# ------------------------------------------------------------------ failing-input search (implementation only)

def spec(d, mask, mp):
    """The property, by recursion: what mask_dict_password must return (uses the 35 keys the property names)."""
    if not isinstance(d, collections.abc.Mapping):
        raise TypeError
    out = []
    for k, v in d.items():
        if isinstance(v, collections.abc.Mapping):
            out.append((k, ('map', spec(v, mask, mp))))
        elif isinstance(k, str) and any(sk in str.lower(k) for sk in C04.SPEC_KEYS):     # any str instance
            out.append((k, ('is', mask)))
        elif isinstance(v, ReentrantStr):
            out.append((k, ('eq', mp(str.__str__(v), mask))))     # expected from the plain text: no reentrancy here
        elif isinstance(v, str):
            out.append((k, ('eq', mp(v, mask))))
        else:
            out.append((k, ('is', v)))
    return out


def conforms(res, want):
    if type(res) is not dict:
        return 'result is %s, not a dict' % type(res).__name__
    got = list(res.items())
    if len(got) != len(want):
        return 'result has %d keys, argument %d' % (len(got), len(want))
    for (gk, gv), (wk, (how, wv)) in zip(got, want):
        if gk is not wk and not (type(gk) is str and type(wk) is str and gk == wk):
            return 'key %r became %r (or the key order changed)' % (wk, gk)
        if how == 'map':
            why = conforms(gv, wv)
            if why:
                return 'under %r: %s' % (wk, why)
        elif how == 'is':
            if gv is not wv and not (type(wv) is str and gv == wv):
                return 'value under %r is %r, expected %r itself' % (wk, gv, wv)
        elif gv != wv:
            return 'value under %r is %r, expected mask_password of it: %r' % (wk, gv, wv)
    return None


def deep_args(rng, n):
    """Ordinary depth-3/4 arguments for the caller-depth sweep (secrets under sanitize keys and inside strings at the
    lowest level, several Mapping types)."""
    out = [{'a': {'b': {'c': {'password': 'p4', 'note': 'token=abc', 'd': {'secret': 's', 'u': 'user'}}}},
            'auth_token': 't', 'msg': 'password=abc'}]
    while len(out) < n:
        t = gen_tree(rng, 4, rng.choice([2, 3]))
        if any(isinstance(v, collections.abc.Mapping) for v in t.values()):
            out.append(t)
    return out


def frames_in_use():
    n, f = 0, sys._getframe()
    while f is not None:
        n += 1
        f = f.f_back
    return n


def at_depth(below, fn):
    """Call fn() from a Python frame that is `below` frames under sys.getrecursionlimit() (the limit itself is left
    as the process has it).  -> ('ok', result) | ('rec', None) when RecursionError came out."""
    def dive(k):
        if k <= 0:
            try:
                return ('ok', fn())
            except RecursionError:
                return ('rec', None)
        return dive(k - 1)
    try:
        return dive(sys.getrecursionlimit() - below - frames_in_use() - 1)
    except RecursionError:
        return ('rec', None)


BELOW_SWEEP = list(range(1, 41))        # caller depth swept across the recursion limit


def oracle(arg, mask, below=None):
    """`below`: make the call from a frame that many frames under the recursion limit; then the only acceptable
    outcomes are the ordinary one (fully masked independent copy / TypeError) and RecursionError."""
    s = gen_mask.load_strutils()
    before = snapshot(arg)
    inputs = containers(arg)
    try:
        want = spec(arg, mask, s.mask_password)
    except TypeError:
        want = TypeError

    def call():
        try:
            return s.mask_dict_password(arg, mask)
        except TypeError:
            return TypeError
    try:
        if below is None:
            res = call()
        else:
            kind, res = at_depth(below, call)
            if kind == 'rec':
                if snapshot(arg) != before:
                    return 'mutated: the argument was modified (call ended in RecursionError)'
                return None
    except Exception as e:
        return 'raised: %s' % type(e).__name__
    if snapshot(arg) != before:
        return 'mutated: the argument was modified'
    if want is TypeError or res is TypeError:
        if want is not res:
            return 'typeerror: expected %s, got %s' % ('TypeError' if want is TypeError else 'a dict',
                                                       'TypeError' if res is TypeError else 'a result')
        return None
    for c in containers(res):
        if any(c is i for i in inputs):
            return 'aliased: the result shares a mapping object with the argument'
    why = conforms(res, want)
    return ('spec: ' + why) if why else None


_KIND_OF = {dict: 'dict', collections.OrderedDict: 'ordered', collections.defaultdict: 'default',
            collections.UserDict: 'user', types.MappingProxyType: 'proxy', FrozenMap: 'frozen', VirtualMap: 'virtual',
            ReentrantMap: 'reentrant'}


def special_name(v):
    for name, make in SPECIALS.items():
        try:
            probe = make()
        except Exception:
            continue
        if type(probe) is type(v) and (type(v) is not type or v is probe):
            if isinstance(v, _PairStore) and dict(v.items()) != dict(probe.items()):
                continue
            return name
    return None


def dump_arg(arg):
    """JSON form of an argument for replay files: keeps which Mapping objects are SHARED, the Mapping type of every
    node and the named non-mapping specials; other non-str leaves / keys become placeholders."""
    seen = {}

    def key(k):
        if type(k) is str:
            return {'s': k}
        if isinstance(k, str):
            return {'s': str.__str__(k), 'sub': subkey_kind(k)}
        if type(k) is bytes:
            return {'b': k.hex()}
        for i, o in enumerate(NONSTR_KEYS):
            if type(o) is type(k) and o == k:
                return {'nk': i}
        return {'r': repr(k)[:80]}

    def val(v):
        if isinstance(v, collections.abc.Mapping):
            if id(v) in seen:
                return {'ref': seen[id(v)]}
            seen[id(v)] = n = len(seen)
            return {'id': n, 'type': _KIND_OF.get(type(v), 'dict'), 'items': [[key(k), val(x)] for k, x in v.items()]}
        if type(v) is str:
            return {'s': v}
        if isinstance(v, ReentrantStr):
            return {'s': str.__str__(v), 'reenter': True}
        name = special_name(v)
        if name:
            return {'special': name}
        if isinstance(v, (list, tuple)) and not isinstance(v, str):
            return {'list': [val(x) for x in v], 'tuple': isinstance(v, tuple)}
        return {'o': repr(v)[:80]}
    return val(arg)


class _Opaque:
    def __init__(self, text):
        self.text = text

    def __repr__(self):
        return '<%s>' % self.text


def load_arg(j):
    nodes = {}

    def key(k):
        if 'sub' in k:
            return make_subkey(k['sub'], k['s'])
        if 'b' in k:
            return bytes.fromhex(k['b'])
        if 's' in k:
            return k['s']
        if 'nk' in k:
            return NONSTR_KEYS[k['nk']]
        return ('key', k['r'])

    def val(v):
        if 'ref' in v:
            return nodes[v['ref']]
        if 'items' in v:
            items = [(key(k), val(x)) for k, x in v['items']]
            nodes[v['id']] = m = make_mapping(None, items, v['type'])
            return m
        if 's' in v:
            return ReentrantStr(v['s']) if v.get('reenter') else v['s']
        if 'special' in v:
            return SPECIALS[v['special']]()
        if 'list' in v:
            xs = [val(x) for x in v['list']]
            return tuple(xs) if v.get('tuple') else xs
        return _Opaque(v['o'])
    return val(j)


def safe_dump(arg):
    try:
        return dump_arg(arg)
    except Exception:
        return None


def case_arg(case):
    """The argument of a stored case: the sharing-preserving dump when there is one, else the plain tree."""
    if case.get('arg') is not None:
        return load_arg(case['arg'])
    return decode_tree(case['tree']) if case.get('tree') else None


def decode_tree(tree):
    """Rebuild a Python argument from the encoded tree of a correspondence disagreement (plain dicts)."""
    toks = tree.split(' ') if tree and tree != '-' else []
    pos = [0]

    def val():
        t = toks[pos[0]]
        pos[0] += 1
        tag, _, body = t.partition(':')
        if tag == 'S':
            return unhexs(body)
        if tag == 'O':
            return ('opaque', int(body))
        d = {}
        for _ in range(int(body)):
            kt = toks[pos[0]]
            pos[0] += 1
            ktag, _, kb = kt.partition(':')
            k = unhexs(kb) if ktag == 'K' else ('key', int(kb))
            d[k] = val()
        return d
    return val() if toks else None


def shrink_arg(arg, mask, kindword):
    """Greedy structural shrinking of a plain-dict argument."""
    def fails(a):
        w = oracle(a, mask)
        return bool(w) and w.split(':')[0] == kindword
    changed = True
    while changed and isinstance(arg, dict):
        changed = False
        for k in list(arg):
            smaller = {a: b for a, b in arg.items() if a is not k}
            if fails(smaller):
                arg = smaller
                changed = True
                break
            v = arg[k]
            if isinstance(v, collections.abc.Mapping) and fails(dict(v)):
                arg = dict(v)
                changed = True
                break
    return arg


def search(ctx, seeds, full=False):
    rng = ctx.rng
    fails = []
    todo = []
    seq_seeds = [sd for sd in seeds if sd.get('kind') == 'seq'][:50]
    for s in seeds[:200]:
        if s.get('kind') == 'seq':
            continue
        try:
            todo.append((case_arg(s), s['mask']))      # (a stored 'below' is re-swept by the depth family)
        except Exception:
            pass
    n = (20000 if full else 1500) if ctx.quick else (150000 if full else 20000)
    # every spec key, upper / lower / embedded, at two depths
    for k in C04.SPEC_KEYS:
        for form in (k, k.upper(), k.capitalize(), 'x_' + k + '2'):
            todo.append(({form: 'v', 'n': {form: 5, 'plain': 'user ' + k + '=abc'}}, '***'))
    for t in short_secret_grid(rng, (4 if full else 1) if ctx.quick else 12):
        todo.append((t, C04.gen_mask_text(rng)))
    for name in sorted(SPECIALS):
        todo.append((SPECIALS[name](), '***'))
        todo.append(({'v': SPECIALS[name](), 'n': {'password': SPECIALS[name]()}}, '***'))
    todo.append((VirtualMap({'password': 'x', 'n': VirtualMap({'user': 'token=abc'})}), '***'))
    for t in subkey_grid(rng, (3 if full else 1) if ctx.quick else 6):
        todo.append((t, C04.gen_mask_text(rng)))
    for t in byteskey_grid(rng):
        todo.append((t, '***'))
    for _ in range((400 if full else 80) if ctx.quick else 2000):
        todo.append((gen_dag(rng), C04.gen_mask_text(rng)))
    for _ in range(n):
        mask = C04.gen_mask_text(rng)
        todo.append((gen_case(rng, ctx.quick), mask))
    # call sequences: the result of every call must depend on that call's arguments only
    def report(case, why):
        small = shrink_sequence(case)
        if len(small.get('steps', [])) == 1:
            # one call is enough: an ordinary failing argument -- shrink it structurally
            st = small['steps'][0]
            arg, mask = case_arg(st), st['mask']
            w = oracle(arg, mask)
            if w:
                kindword = w.split(':')[0]
                if isinstance(arg, collections.abc.Mapping) and type(arg) is not dict:
                    plain = dict(arg.items())
                    w2 = oracle(plain, mask)
                    if w2 and w2.split(':')[0] == kindword:
                        arg = plain
                if type(arg) is dict:
                    arg = shrink_arg(arg, mask, kindword)
                try:
                    tree = Enc().val(arg)
                except Exception:
                    tree = None
                fails.append(Failure({'repr': repr(arg)[:1500], 'tree': tree, 'arg': safe_dump(arg), 'mask': mask},
                                     {'kind': kindword, 'what': oracle(arg, mask)}))
                return
        r = oracle_sequence(small) if small is not case else None
        fails.append(Failure(small, {'kind': 'sequence-' + why.split(':')[0],
                                     'what': 'call %d of the sequence: %s' % (small.get('failing_step', -1), why)}))
    for sd in seq_seeds:
        ctx.evaluations += 1
        r = oracle_sequence(sd)
        if r and len(fails) < 5:
            report(dict(sd, failing_step=r[0]), r[1])
    nseq = (600 if full else 80) if ctx.quick else (8000 if full else 1500)
    seq_kinds = set()
    for _ in range(nseq):
        if len(fails) >= 5:
            break
        fam, steps = gen_sequence(rng)
        done = run_sequence(steps, oracle)
        for i, (arg, mask, why) in enumerate(done):
            ctx.evaluations += 1
            ctx.count('search/seq/' + fam)
            if why:
                k = why.split(':')[0]
                if k not in seq_kinds or len(fails) < 2:
                    seq_kinds.add(k)
                    report(seq_case(done, i), why)
                break
    if len(fails) >= 5:
        return fails
    todo = [t + (None,) for t in todo]
    for arg in deep_args(rng, (6 if full else 2) if ctx.quick else 10):
        for below in BELOW_SWEEP:
            todo.append((arg, '***', below))
    for arg, mask, below in todo:
        ctx.evaluations += 1
        why = oracle(arg, mask, below)
        if why:
            kindword = why.split(':')[0]
            try:
                one = {'kind': 'seq', 'steps': [{'tree': Enc().val(arg), 'arg': safe_dump(arg), 'mask': mask,
                                                 'below': below, 'repr': repr(arg)[:400]}]}
                fresh = fresh_process_fails(one)
            except Exception:
                fresh = 'unknown'
            if fresh is None:
                # fails here but not in a fresh interpreter: the result depends on earlier calls of this run
                fails.append(Failure(dict(one, failing_step=0, note='fails only after the earlier calls of this run'),
                                     {'kind': 'history-dependent', 'what': why}))
                if len(fails) >= 5:
                    break
                continue
            small = arg
            if isinstance(arg, collections.abc.Mapping) and type(arg) is not dict:
                plain = dict(arg.items())               # same value objects, so sharing is kept
                w = oracle(plain, mask, below)
                if w and w.split(':')[0] == kindword:
                    small = plain
            if type(small) is dict and below is None:
                small = shrink_arg(small, mask, kindword)
            try:
                tree = Enc().val(small)
            except Exception:
                tree = None
            case = {'repr': repr(small)[:1500], 'tree': tree, 'arg': safe_dump(small), 'mask': mask}
            what = oracle(small, mask, below)
            if below is not None:
                case['below'] = below
                what = 'called %d frames below sys.getrecursionlimit(): %s' % (below, what)
            fails.append(Failure(case, {'kind': kindword, 'what': what}))
            if len(fails) >= 5:
                break
    return fails


def replay(ctx, payload):
    case = payload.get('failure', {}).get('case') or payload.get('case')
    if not case:
        print('nothing to replay: this file names the obligation that no longer checks:')
        print(json.dumps(payload.get('no_longer_checks'), indent=1)[:4000])
        return 0
    if case.get('kind') == 'seq':
        bad = 0
        for i, st in enumerate(case['steps']):
            arg = case_arg(st)
            why = oracle(arg, st['mask'])
            tree, out, mutated = run_impl(arg, st['mask'])
            print('call %d: mask=%r argument=%s' % (i, st['mask'], st.get('repr')))
            print('   implementation :', out, '(ARGUMENT MODIFIED)' if mutated else '')
            print('   model          :', ctx.driver.ask(req('dict', tree, hexs(st['mask']))))
            print('   property oracle:', why)
            bad += bool(why)
        return 1 if bad else 0
    print('argument (repr):', case.get('repr'))
    arg = case_arg(case)
    mask = case.get('mask', '***')
    below = case.get('below')
    if below is not None:
        # the stored depth first, then the whole sweep (the caller's own frame count differs between entry points)
        for b in [below] + [x for x in BELOW_SWEEP if x != below]:
            if oracle(arg, mask, b):
                below = b
                break
        print('call made %d frames below sys.getrecursionlimit() = %d' % (below, sys.getrecursionlimit()))
    tree, out, mutated = run_impl(arg, mask, below)
    print('implementation :', out, '(ARGUMENT MODIFIED)' if mutated else '')
    print('model          :', ctx.driver.ask(req('dict', tree, hexs(mask))), '(or RecursionError)' if below else '')
    why = oracle(arg, mask, below)
    print('property oracle on the implementation:', why)
    return 1 if why else 0


LEVEL_TEXT = ('Machine-checked proof (Lean 4) by structural induction over the value tree, for mappings of any depth and '
              'width: maskdict_spec (the result satisfies the inductive relation Masked: same keys in the same order at '
              'every level, mapping values recursed whatever their key, a non-mapping value under a str key containing a '
              'generated sanitize key case-insensitively replaced by the mask, other strings passed through the C04 model '
              'of mask_password, everything else the same object), maskdict_keys_preserved, '
              'maskdict_non_mapping_typeerror (iff), maskdict_closed_form / maskdict_entries (one result entry per argument '
              'entry, each a function of its own key and value only), maskdict_hit_replaces, '
              'maskdict_mapping_always_recursed (a mapping under a sanitize key is recursed into, not replaced), '
              'maskdict_nonstr_key, maskdict_miss_key, maskdict_result_wf (the result is again a well-formed nested '
              'mapping). All full strength over the model (distinct keys per mapping is the '
              'representation invariant of a Python dict). Non-mutation is true of the model by construction and is '
              'checked on the code by deep before/after snapshots (identity and content of everything reachable, dict and '
              'non-dict Mapping types) in the correspondence and the search.')
LEVEL_NOTE = ('Trusted: Lean kernel; the hand model OsloModel/MaskDict.lean and the abstraction of Python values to '
              'str / mapping / opaque object done by the harness (isinstance(.., Mapping), dict order); mask_password '
              'itself is the C04 model. Non-mutation of the real code is a tested, not a proved, obligation.')
TECHNIQUE = 'Lean 4 theorems by structural induction over the value tree + model/implementation correspondence'
DESIGN_REF = 'DESIGN.md section 5, C08'


def generate():
    gen_mask.generate()
