/-
Helper lemmas for C15, arithmetic half: the bit operations of the EUI-64 code
rewritten as div/mod arithmetic so that `omega` can finish.  No `bv_decide`.
-/
import OsloModel.Eui64
namespace Oslo.Eui64

theorem lemma_xor_one_mod2 (a : Nat) : (a ^^^ 1) % 2 = 1 - a % 2 := by
  have := @Nat.xor_mod_two_pow a 1 1
  simp at this
  rw [this]
  rcases Nat.mod_two_eq_zero_or_one a with h | h <;> simp [h]

/-- XOR with a single bit: add the bit when it is clear, subtract it when it is set -/
theorem lemma_xor_two_pow (x k : Nat) :
    x ^^^ 2^k = if x / 2^k % 2 = 0 then x + 2^k else x - 2^k := by
  have h1 : (x ^^^ 2^k) % 2^k = x % 2^k := by rw [Nat.xor_mod_two_pow]; simp
  have h2 : (x ^^^ 2^k) / 2^k / 2 = x / 2^k / 2 := by
    rw [Nat.div_div_eq_div_mul, Nat.div_div_eq_div_mul, ← Nat.pow_succ, Nat.xor_div_two_pow]
    have : 2^k / 2^(k+1) = 0 := Nat.div_eq_of_lt (Nat.pow_lt_pow_right (by decide) (by omega))
    rw [this, Nat.xor_zero]
  have h3 : (x ^^^ 2^k) / 2^k % 2 = 1 - x / 2^k % 2 := by
    rw [Nat.xor_div_two_pow, Nat.div_self (Nat.two_pow_pos k)]; exact lemma_xor_one_mod2 _
  have dy := Nat.div_add_mod (x ^^^ 2^k) (2^k)
  have dx := Nat.div_add_mod x (2^k)
  generalize x ^^^ 2^k = y at *
  generalize hP : 2^k = P at *
  generalize hyq : y / P = yq at *
  generalize hxq : x / P = xq at *
  split
  · have : yq = xq + 1 := by omega
    subst this
    rw [Nat.mul_succ] at dy; omega
  · have : xq = yq + 1 := by omega
    subst this
    rw [Nat.mul_succ] at dx; omega

/-- the ff:fe insertion of `EUI.eui64()` in arithmetic form (the three OR-ed parts are disjoint) -/
theorem lemma_eui64Of48_arith (mac : Nat) :
    eui64Of48 mac = mac / 2^24 * 2^40 + 0xFFFE000000 + mac % 2^24 := by
  unfold eui64Of48
  rw [Nat.shiftRight_eq_div_pow, Nat.shiftLeft_eq,
      show (0xFFFFFF : Nat) = 2^24 - 1 from rfl, Nat.and_two_pow_sub_one_eq_mod]
  have e1 : mac / 2^24 * 2^40 ||| 0xFFFE000000 = 2^40 * (mac / 2^24) + 0xFFFE000000 := by
    rw [Nat.mul_comm]; exact (Nat.two_pow_add_eq_or_of_lt (by decide) _).symm
  rw [e1]
  have e2 : 2^40 * (mac / 2^24) + 0xFFFE000000 = 2^24 * (2^16 * (mac / 2^24) + 0xFFFE) := by omega
  rw [e2, ← Nat.two_pow_add_eq_or_of_lt (Nat.mod_lt _ (by decide))]
  omega

/-- the mask-and-shift of get_mac_addr_by_ipv6 in arithmetic form -/
theorem lemma_macOfNat_arith (a : Nat) :
    macOfNat a = (a / 2^40 % 2^24 * 2^24 + a % 2^24) ^^^ 2^41 := by
  unfold macOfNat
  have hM : a &&& 0xffffff0000000000 = 2^40 * (a / 2^40 % 2^24) := by
    have d := Nat.div_add_mod (a &&& 0xffffff0000000000) (2^40)
    rw [Nat.and_div_two_pow, Nat.and_mod_two_pow] at d
    have c1 : (0xffffff0000000000 : Nat) / 2^40 = 2^24 - 1 := by decide
    have c2 : (0xffffff0000000000 : Nat) % 2^40 = 0 := by decide
    rw [c1, c2, Nat.and_two_pow_sub_one_eq_mod, Nat.and_zero] at d
    omega
  rw [hM, Nat.shiftRight_eq_div_pow, show (0xffffff : Nat) = 2^24 - 1 from rfl,
      Nat.and_two_pow_sub_one_eq_mod, show (0x020000000000 : Nat) = 2^41 from rfl]
  congr 1
  omega

/-- bit 17 of a number flipped, arithmetically (= `hi ^^^ 2^17`, see `lemma_flip17_eq_xor`) -/
def flip17 (hi : Nat) : Nat := if hi / 2^17 % 2 = 0 then hi + 2^17 else hi - 2^17

theorem lemma_flip17_eq_xor (hi : Nat) : flip17 hi = hi ^^^ 2^17 := by
  rw [lemma_xor_two_pow]; rfl

theorem lemma_flip17_lt (hi : Nat) (h : hi < 2^24) : flip17 hi < 2^24 := by
  unfold flip17; split <;> omega

theorem lemma_bit_of_sum (X A b R : Nat) (h : X = 2^58 * A + 2^57 * b + R) (hb : b < 2)
    (hR : R < 2^57) : X / 2^57 % 2 = b := by omega

theorem lemma_mid (X A H R : Nat) (h : X = 2^64 * A + 2^40 * H + R) (hb : H < 2^24)
    (hR : R < 2^40) : X / 2^40 % 2^24 = H := by omega

theorem lemma_low (X A L : Nat) (h : X = 2^24 * A + L) (hb : L < 2^24) : X % 2^24 = L := by omega

theorem lemma_bit41 (X A b R : Nat) (h : X = 2^42 * A + 2^41 * b + R) (hb : b < 2)
    (hR : R < 2^41) : X / 2^41 % 2 = b := by omega

/-- `(first + eui64) ^ (1 << 57)` when the network address has zero low 64 bits:
    the network address plus [top three MAC octets with bit 17 flipped] ff fe [low three octets] -/
theorem lemma_combine_arith (net mac : Nat) (hmac : mac < 2^48) (hnet : net % 2^64 = 0) :
    combine net (eui64Of48 mac)
      = net + (flip17 (mac / 2^24) * 2^40 + 0xFFFE000000 + mac % 2^24) := by
  rw [combine, Nat.one_shiftLeft, lemma_eui64Of48_arith, lemma_xor_two_pow, flip17]
  generalize hh : mac / 2^24 = hi
  generalize hl : mac % 2^24 = lo
  have hhi : hi < 2^24 := by omega
  have hlo : lo < 2^24 := by omega
  have hb : (net + (hi * 2^40 + 0xFFFE000000 + lo)) / 2^57 % 2 = hi / 2^17 % 2 := by
    apply lemma_bit_of_sum _ (64 * (net / 2^64) + hi / 2^18) _
      (2^40 * (hi % 2^17) + 0xFFFE000000 + lo)
    · omega
    · omega
    · omega
  rw [hb]
  by_cases hbit : hi / 2^17 % 2 = 0
  · rw [if_pos hbit, if_pos hbit]; omega
  · rw [if_neg hbit, if_neg hbit]
    have h17 : 2^17 ≤ hi := by
      apply Nat.le_of_not_lt; intro hlt; exact hbit (by rw [Nat.div_eq_of_lt hlt])
    obtain ⟨k, rfl⟩ : ∃ k, hi = k + 2^17 := ⟨hi - 2^17, by omega⟩
    rw [Nat.add_sub_cancel]
    omega

/-- the inverse applied to the forward result, on numbers -/
theorem lemma_macOfNat_combine (net mac : Nat) (hmac : mac < 2^48) (hnet : net % 2^64 = 0) :
    macOfNat (combine net (eui64Of48 mac)) = mac := by
  rw [lemma_combine_arith net mac hmac hnet, lemma_macOfNat_arith, lemma_xor_two_pow]
  generalize hh : mac / 2^24 = hi
  generalize hl : mac % 2^24 = lo
  have hhi : hi < 2^24 := by omega
  have hlo : lo < 2^24 := by omega
  have hmacd : mac = 2^24 * hi + lo := by omega
  have hf : flip17 hi < 2^24 := lemma_flip17_lt hi hhi
  have h1 : (net + (flip17 hi * 2^40 + 0xFFFE000000 + lo)) / 2^40 % 2^24 = flip17 hi :=
    lemma_mid _ (net / 2^64) _ (0xFFFE000000 + lo) (by omega) hf (by omega)
  have h2 : (net + (flip17 hi * 2^40 + 0xFFFE000000 + lo)) % 2^24 = lo :=
    lemma_low _ (2^40 * (net / 2^64) + 2^16 * flip17 hi + 0xFFFE) _ (by omega) hlo
  rw [h1, h2]
  have h3 : (flip17 hi * 2^24 + lo) / 2^41 % 2 = flip17 hi / 2^17 % 2 :=
    lemma_bit41 _ (flip17 hi / 2^18) _ (2^24 * (flip17 hi % 2^17) + lo)
      (by omega) (by omega) (by omega)
  rw [h3, hmacd]
  unfold flip17
  split <;> split <;> omega

end Oslo.Eui64
