/-
C01 at the level of the InspectWrapper: what the wrapper running all the inspectors concludes once
the whole stream has been read through it and closed is a function of the bytes alone.

1. `wrapper_run` — reading a whole source through a wrapper without expected format: every chunk
   is delivered, the stream ends normally, and the closed wrapper holds, in order, exactly
   `(runChunks i cs).1` for each initial inspector `i`; the errored set is the set of names of the
   inspectors whose feed raised.
2. `wrapper_formats_eq_of_verdicts` — the `formats` / `format` answer of the closed wrapper is an
   explicit function of the list of per-inspector (name, `format_match`) results.
3. `wrapper_chunk_independent_static` (no stream hypothesis, wrappers restricted to the eight
   fixed-region formats) and `wrapper_chunk_independent_partial` (any wrapper, under the
   hypotheses of the per-inspector VHDX / VMDK theorems; for VMDK also every stream the inspector
   cannot match, `VmdkNoMatch`, so that non-VMDK binary images through the full wrapper are covered).

Out of scope: wrappers with an expected format (`expected = some n`) — there the pipe can abort
before the end of the source, and where it aborts depends on the chunking through which chunk
completes the expected inspector.
-/
import OsloProofs.Lemmas.WrapRun
import OsloProofs.Lemmas.WrapRunNat
import OsloProofs.Lemmas.WrapRunVmdk
import OsloProofs.Props.C03Stable
import OsloProofs.Props.C01Vmdk
import OsloProofs.Props.C01Vhdx
namespace Oslo.Insp

/-! ## 1. the whole run, inspector by inspector -/

theorem lemma_init_fmt (f : Fmt) (i : Insp) (h : Insp.init f = some i) : i.fmt = f := by
  unfold Insp.init at h
  split at h
  · simp at h
  · simp only [Option.some.injEq] at h; subst h; rfl

/-- every inspector of a fresh wrapper is the initial inspector of its format -/
theorem lemma_mk_init (expected : Option String) (allowed : List String) :
    ∀ i ∈ (Wrap.mk' expected allowed).insps, Insp.init i.fmt = some i := by
  intro i hi
  simp only [Wrap.mk', List.mem_filterMap] at hi
  obtain ⟨f, _, hinit⟩ := hi
  rw [lemma_init_fmt f i hinit]; exact hinit

/-- the inspectors of a fresh wrapper have pairwise distinct names -/
theorem lemma_mk_distinct (expected : Option String) (allowed : List String) :
    Distinct realOps (Wrap.mk' expected allowed).insps := by
  have hall : Fmt.all.Pairwise (fun a b => a.name ≠ b.name) := by decide
  unfold Distinct Wrap.mk'
  simp only
  rw [List.pairwise_filterMap]
  apply (hall.sublist List.filter_sublist).imp
  intro a b hab ia hia ib hib
  show ia.fmt.name ≠ ib.fmt.name
  rw [lemma_init_fmt a ia hia, lemma_init_fmt b ib hib]
  exact hab

theorem lemma_runChunks_fst (i : Insp) (cs : List Bytes) : (runChunks i cs).1 = (feed i cs).1.finish := rfl

theorem lemma_runChunks_snd (i : Insp) (cs : List Bytes) : (runChunks i cs).2 = (feed i cs).2 := rfl

/-- feeding and finishing keep the inspector's name -/
theorem lemma_run_name (i : Insp) (cs : List Bytes) : (runChunks i cs).1.fmt.name = i.fmt.name := by
  have := lemma_gfeed_name realOps realOps_nameStable cs i
  rw [lemma_gfeed_real] at this
  exact this

/-- **wrapper_run_generic** — for an arbitrary list of inspectors with pairwise distinct names, in a
    wrapper with no expected format and nothing errored yet: reading the chunk list `cs` through the
    wrapper hands every chunk to the reader, ends normally (`close()` at the end of the source), and
    the closed wrapper holds, in the same order, `(runChunks i cs).1` for each initial inspector `i`
    — each inspector fed chunk by chunk until its first error (never again afterwards), then
    finished; an inspector's name is in the errored set exactly when its feed raised. -/
theorem wrapper_run_generic (w0 : Wrap Insp) (hd : Distinct realOps w0.insps) (he : w0.errored = [])
    (hx : w0.expected = none) (cs : List Bytes) :
    ∃ w', Wrap.pipe realOps w0 cs [] = (cs, w', .done) ∧
      w'.insps = w0.insps.map (fun i => (runChunks i cs).1) ∧
      w'.finished = true ∧ w'.expected = none ∧
      ∀ n, n ∈ w'.errored ↔ ∃ i ∈ w0.insps, i.fmt.name = n ∧ (feed i cs).2.isSome = true := by
  obtain ⟨w', hp, hi, hf, hxp, herr⟩ := lemma_pipe_run realOps realOps_nameStable w0 hd he hx cs
  refine ⟨w', hp, ?_, hf, hxp, ?_⟩
  · rw [hi]
    apply List.map_congr_left
    intro i _
    rw [lemma_gfeed_real]
    rfl
  · intro n
    have := herr n
    simp only [lemma_gfeed_real] at this
    exact this

/-- **wrapper_run** — `wrapper_run_generic` for the wrapper the code builds:
    `InspectWrapper(source, None, allowed)` with any `allowed` (`[]` = all ten formats). -/
theorem wrapper_run (allowed : List String) (cs : List Bytes) :
    ∃ w', Wrap.pipe realOps (Wrap.mk' none allowed) cs [] = (cs, w', .done) ∧
      w'.insps = (Wrap.mk' none allowed).insps.map (fun i => (runChunks i cs).1) ∧
      w'.finished = true ∧ w'.expected = none ∧
      ∀ n, n ∈ w'.errored ↔
        ∃ i ∈ (Wrap.mk' none allowed).insps, i.fmt.name = n ∧ (feed i cs).2.isSome = true :=
  wrapper_run_generic (Wrap.mk' none allowed) (lemma_mk_distinct none allowed) rfl rfl cs

/-- the wrapper after the whole chunk list was read through it and it was closed -/
def pipeFinal (allowed : List String) (cs : List Bytes) : Wrap Insp :=
  (Wrap.pipe realOps (Wrap.mk' none allowed) cs []).2.1

theorem lemma_final (allowed : List String) (cs : List Bytes) :
    (pipeFinal allowed cs).insps = (Wrap.mk' none allowed).insps.map (fun i => (runChunks i cs).1) ∧
    (pipeFinal allowed cs).finished = true ∧ (pipeFinal allowed cs).expected = none ∧
    ∀ n, n ∈ (pipeFinal allowed cs).errored ↔
      ∃ i ∈ (Wrap.mk' none allowed).insps, i.fmt.name = n ∧ (feed i cs).2.isSome = true := by
  obtain ⟨w', hp, h⟩ := wrapper_run allowed cs
  simp only [pipeFinal, hp]
  exact h

/-! ## 2. the answer of the closed wrapper as a function of the per-inspector results -/

/-- a wrapper over bare (name, format_match result) pairs -/
def matchOps : IOps (String × Except Err Bool) where
  name p := p.1
  eat p _ := (p, none)
  complete _ := true
  fmatch p := p.2
  finish p := p

/-- the `formats` answer (names) of a closed wrapper, computed from the list of per-inspector
    (name, format_match result) pairs alone -/
def namesAnswer (l : List (String × Except Err Bool)) : Except Err (Option (List String)) :=
  exMap (Option.map (List.map (fun p => p.1)))
    (Wrap.formats matchOps { insps := l, errored := [], expected := none, finished := true })

/-- the `format` answer (name or error) of a closed wrapper, computed from the same list -/
def nameAnswer (l : List (String × Except Err Bool)) : Except Err (Option String) :=
  exMap (Option.map (fun p => p.1))
    (Wrap.format matchOps { insps := l, errored := [], expected := none, finished := true })

/-- the name in a `format` answer -/
def fmtName (r : Except Err (Option Insp)) : Except Err (Option String) :=
  exMap (Option.map (fun i : Insp => i.fmt.name)) r

theorem lemma_namesOf_exMap (r : Except Err (Option (List Insp))) :
    namesOf r = exMap (Option.map (List.map (fun i : Insp => i.fmt.name))) r := by
  cases r with
  | error e => rfl
  | ok o => cases o <;> rfl

/-- **wrapper_formats_eq_of_verdicts** — after the chunk list `cs` was read through
    `InspectWrapper(source, None, allowed)` and the wrapper closed, the names in its `formats` answer
    and the name-or-error of its `format` answer are the functions `namesAnswer` / `nameAnswer` of
    the list of pairs (format name, `format_match` result of `(runChunks i cs).1`) over the wrapper's
    initial inspectors `i`: nothing else about the run enters the answer. -/
theorem wrapper_formats_eq_of_verdicts (allowed : List String) (cs : List Bytes) :
    namesOf ((pipeFinal allowed cs).formats realOps) =
      namesAnswer ((Wrap.mk' none allowed).insps.map (fun i => (i.fmt.name, formatMatch (runChunks i cs).1))) ∧
    fmtName ((pipeFinal allowed cs).format realOps) =
      nameAnswer ((Wrap.mk' none allowed).insps.map (fun i => (i.fmt.name, formatMatch (runChunks i cs).1))) := by
  obtain ⟨hi, hfin, _, _⟩ := lemma_final allowed cs
  have hl : (Wrap.mk' none allowed).insps.map (fun i => (i.fmt.name, formatMatch (runChunks i cs).1)) =
      (pipeFinal allowed cs).insps.map (fun i : Insp => (i.fmt.name, formatMatch i)) := by
    rw [hi, List.map_map]
    apply List.map_congr_left
    intro i _
    simp only [Function.comp, lemma_run_name]
  constructor
  · have := lemma_formats_nat realOps matchOps (fun i : Insp => (i.fmt.name, formatMatch i)) (fun _ => rfl)
      (fun _ => rfl) (pipeFinal allowed cs)
      { insps := _, errored := [], expected := none, finished := true } hl hfin rfl
    rw [namesAnswer, this, lemma_exMap_exMap, lemma_namesOf_exMap]
    congr 1
    funext o
    cases o <;> simp [Function.comp]
  · have := lemma_format_nat realOps matchOps (fun i : Insp => (i.fmt.name, formatMatch i)) (fun _ => rfl)
      (fun _ => rfl) (pipeFinal allowed cs)
      { insps := _, errored := [], expected := none, finished := true } hl hfin rfl
    rw [nameAnswer, this, lemma_exMap_exMap, fmtName]
    congr 1
    funext o
    cases o <;> simp [Function.comp]

/-- **wrapper_answer_eq_of_verdicts** — two chunk lists for which every inspector's `format_match`
    after the run agrees give the same `formats` names and the same `format` name-or-error. -/
theorem wrapper_answer_eq_of_verdicts (allowed : List String) (c1 c2 : List Bytes)
    (h : ∀ i ∈ (Wrap.mk' none allowed).insps,
      formatMatch (runChunks i c1).1 = formatMatch (runChunks i c2).1) :
    namesOf ((pipeFinal allowed c1).formats realOps) = namesOf ((pipeFinal allowed c2).formats realOps) ∧
    fmtName ((pipeFinal allowed c1).format realOps) = fmtName ((pipeFinal allowed c2).format realOps) := by
  have hl : (Wrap.mk' none allowed).insps.map (fun i => (i.fmt.name, formatMatch (runChunks i c1).1)) =
      (Wrap.mk' none allowed).insps.map (fun i => (i.fmt.name, formatMatch (runChunks i c2).1)) := by
    apply List.map_congr_left
    intro i hi
    rw [h i hi]
  obtain ⟨a1, b1⟩ := wrapper_formats_eq_of_verdicts allowed c1
  obtain ⟨a2, b2⟩ := wrapper_formats_eq_of_verdicts allowed c2
  exact ⟨by rw [a1, a2, hl], by rw [b1, b2, hl]⟩

/-- what the caller of `format` reads off the inspector it gets: its name and its verdict -/
structure Summary where
  name : String
  fmtMatch : Except Err Bool
  complete : Bool
  vsize : Except Err Int
  safety : Safety

def summary (i : Insp) : Summary :=
  { name := i.fmt.name, fmtMatch := formatMatch i, complete := i.complete, vsize := virtualSize i,
    safety := safetyCheck i }

def sumOps : IOps Summary where
  name s := s.name
  eat s _ := (s, none)
  complete s := s.complete
  fmatch s := s.fmtMatch
  finish s := s

/-- the summary of a finished run is the inspector's name and the per-inspector verdict of C01 -/
theorem lemma_summary_run (i : Insp) (cs : List Bytes) :
    summary (runChunks i cs).1 =
      { name := i.fmt.name, fmtMatch := (verdict (runChunks i cs)).fmtMatch,
        complete := (verdict (runChunks i cs)).complete, vsize := (verdict (runChunks i cs)).vsize,
        safety := (verdict (runChunks i cs)).safety } := by
  simp only [summary, verdict, lemma_run_name]

/-- **wrapper_choice_is_run** — the inspector `format` returns from the closed wrapper is
    `(runChunks i cs).1` for one of the wrapper's initial inspectors `i`: its virtual size and
    safety-check outcome are the per-inspector verdict `verdict (runChunks i cs)` of C01. -/
theorem wrapper_choice_is_run (allowed : List String) (cs : List Bytes) (x : Insp)
    (h : (pipeFinal allowed cs).format realOps = .ok (some x)) :
    ∃ i ∈ (Wrap.mk' none allowed).insps, x = (runChunks i cs).1 ∧
      virtualSize x = (verdict (runChunks i cs)).vsize ∧ safetyCheck x = (verdict (runChunks i cs)).safety := by
  have hx : x ∈ (pipeFinal allowed cs).insps := by
    unfold Wrap.format at h
    simp only [bind, Except.bind] at h
    cases hf : (pipeFinal allowed cs).formats realOps with
    | error e => simp [hf] at h
    | ok o =>
      simp only [hf] at h
      match o, h with
      | some [y], h =>
        simp only [pure, Except.pure, Except.ok.injEq, Option.some.injEq] at h
        subst h
        obtain ⟨h1, h2, _⟩ := formats_spec realOps (pipeFinal allowed cs) [y] hf
        by_cases hm : matchesOf realOps (pipeFinal allowed cs) = []
        · have : y ∈ (pipeFinal allowed cs).insps.filter (fun i => realOps.name i == "raw") := by
            rw [← h2 hm]; simp
          exact (List.mem_filter.mp this).1
        · have : y ∈ matchesOf realOps (pipeFinal allowed cs) := by rw [← h1 hm]; simp
          exact (List.mem_filter.mp (List.mem_filter.mp this).1).1
  rw [(lemma_final allowed cs).1] at hx
  obtain ⟨i, hi, rfl⟩ := List.mem_map.mp hx
  exact ⟨i, hi, rfl, rfl, rfl⟩

/-- whatever `format` returns matches: a specific format's inspector by `format_specific_unique`,
    the raw inspector always -/
theorem lemma_choice_matches (w : Wrap Insp) (x : Insp) (h : w.format realOps = .ok (some x)) :
    formatMatch x = .ok true := by
  by_cases hr : x.fmt.name = "raw"
  · have : x.fmt = .raw := by
      cases hf : x.fmt <;> simp_all [Fmt.name]
    simp [formatMatch, this]
  · exact (format_specific_unique realOps w x h hr).1

/-- what the wrapper's answer can depend on: name, `format_match`, and — for a matching inspector
    only — the rest of its verdict -/
def csum (i : Insp) : String × Except Err Bool × Option Summary :=
  (i.fmt.name, formatMatch i, if isOkTrue (formatMatch i) then some (summary i) else none)

def csumOps : IOps (String × Except Err Bool × Option Summary) where
  name p := p.1
  eat p _ := (p, none)
  complete _ := true
  fmatch p := p.2.1
  finish p := p

/-- **wrapper_choice_eq_of_verdicts** — two chunk lists for which every inspector's `format_match`
    after the run agrees and every *matching* inspector's name-and-verdict summary agrees give
    `format` answers with the same summary: `format` fails with the same error in both, or answers
    "undecided" in both, or returns inspectors with the same name, `format_match`, `complete`,
    `virtual_size` and `safety_check` outcome.  (What a non-matching inspector would say about
    virtual size or safety never reaches the caller of `format`.) -/
theorem wrapper_choice_eq_of_verdicts (allowed : List String) (c1 c2 : List Bytes)
    (h : ∀ i ∈ (Wrap.mk' none allowed).insps,
      formatMatch (runChunks i c1).1 = formatMatch (runChunks i c2).1 ∧
      (formatMatch (runChunks i c1).1 = .ok true → summary (runChunks i c1).1 = summary (runChunks i c2).1)) :
    exMap (Option.map summary) ((pipeFinal allowed c1).format realOps) =
      exMap (Option.map summary) ((pipeFinal allowed c2).format realOps) := by
  obtain ⟨hi1, hfin1, _, _⟩ := lemma_final allowed c1
  obtain ⟨hi2, hfin2, _, _⟩ := lemma_final allowed c2
  have hl : (pipeFinal allowed c1).insps.map csum = (pipeFinal allowed c2).insps.map csum := by
    rw [hi1, hi2, List.map_map, List.map_map]
    apply List.map_congr_left
    intro i hi
    obtain ⟨hm, hs⟩ := h i hi
    simp only [Function.comp, csum, lemma_run_name, ← hm]
    cases hfm : formatMatch (runChunks i c1).1 with
    | error e => simp [isOkTrue]
    | ok b =>
      cases b with
      | false => simp [isOkTrue]
      | true => simp [isOkTrue, hs hfm]
  have e1 := lemma_format_nat realOps csumOps csum (fun _ => rfl) (fun _ => rfl) (pipeFinal allowed c1)
    { insps := (pipeFinal allowed c1).insps.map csum, errored := [], expected := none, finished := true }
    rfl hfin1 rfl
  have e2 := lemma_format_nat realOps csumOps csum (fun _ => rfl) (fun _ => rfl) (pipeFinal allowed c2)
    { insps := (pipeFinal allowed c1).insps.map csum, errored := [], expected := none, finished := true }
    hl hfin2 rfl
  have E := e1.symm.trans e2
  have hm1 := lemma_choice_matches (pipeFinal allowed c1)
  have hm2 := lemma_choice_matches (pipeFinal allowed c2)
  generalize (pipeFinal allowed c1).format realOps = r1 at E hm1
  generalize (pipeFinal allowed c2).format realOps = r2 at E hm2
  cases r1 with
  | error e1 =>
    cases r2 with
    | error e2 => simpa [exMap] using E
    | ok o2 => simp [exMap] at E
  | ok o1 =>
    cases r2 with
    | error e2 => simp [exMap] at E
    | ok o2 =>
      cases o1 with
      | none =>
        cases o2 with
        | none => rfl
        | some x2 => simp [exMap] at E
      | some x1 =>
        cases o2 with
        | none => simp [exMap] at E
        | some x2 =>
          simp only [exMap, Option.map_some, Except.ok.injEq, Option.some.injEq] at E ⊢
          have h3 := congrArg (fun p => p.2.2) E
          simp only [csum, hm1 x1 rfl, hm2 x2 rfl, isOkTrue, if_true, Option.some.injEq] at h3
          exact h3

/-! ## 3. the property: the closed wrapper's answer does not depend on the chunking -/

theorem lemma_wrap_ext (a b : Wrap Insp) (h1 : a.insps = b.insps) (h2 : a.errored = b.errored)
    (h3 : a.expected = b.expected) (h4 : a.finished = b.finished) : a = b := by
  cases a; cases b; simp_all

/-- **wrapper_chunk_independent_static** — for `InspectWrapper(source, None, allowed)` with a
    non-empty `allowed` naming only formats whose regions are fixed at initialisation (raw, qcow2,
    qed, vhd, vdi, iso, gpt, luks), and ANY two chunk lists with the same concatenation (empty
    chunks included, no hypothesis on the bytes): after the whole source was read through the wrapper
    and the wrapper closed, the two wrappers are in the *same state* (every inspector, the errored
    set — which is empty —, the flags); hence `formats` and `format` give the same answer — the same
    error, or the same inspectors with the same virtual size and safety-check outcome. -/
theorem wrapper_chunk_independent_static (allowed : List String) (hne : allowed ≠ [])
    (hst : ∀ n ∈ allowed, ∀ f, Fmt.ofName? n = some f → f.static = true)
    (c1 c2 : List Bytes) (h : c1.flatten = c2.flatten) :
    pipeFinal allowed c1 = pipeFinal allowed c2 ∧
    (pipeFinal allowed c1).errored = [] ∧
    (pipeFinal allowed c1).formats realOps = (pipeFinal allowed c2).formats realOps ∧
    (pipeFinal allowed c1).format realOps = (pipeFinal allowed c2).format realOps := by
  have hstat : ∀ i ∈ (Wrap.mk' none allowed).insps, i.fmt.static = true := by
    intro i hi
    have hname := allowed_respected none allowed hne i hi
    have hof : Fmt.ofName? i.fmt.name = some i.fmt := by cases i.fmt <;> rfl
    exact hst _ hname _ hof
  have herr : ∀ cs, (pipeFinal allowed cs).errored = [] := by
    intro cs
    apply List.eq_nil_iff_forall_not_mem.mpr
    intro n hn
    obtain ⟨i, hi, _, hie⟩ := ((lemma_final allowed cs).2.2.2 n).mp hn
    rw [static_never_raises i.fmt (hstat i hi) i (lemma_mk_init none allowed i hi) cs] at hie
    simp at hie
  have heq : pipeFinal allowed c1 = pipeFinal allowed c2 := by
    obtain ⟨hi1, hf1, hx1, _⟩ := lemma_final allowed c1
    obtain ⟨hi2, hf2, hx2, _⟩ := lemma_final allowed c2
    apply lemma_wrap_ext
    · rw [hi1, hi2]
      apply List.map_congr_left
      intro i hi
      rw [verdict_chunk_independent_static i.fmt (hstat i hi) i (lemma_mk_init none allowed i hi) c1 c2 h]
    · rw [herr c1, herr c2]
    · rw [hx1, hx2]
    · rw [hf1, hf2]
  exact ⟨heq, herr c1, by rw [heq], by rw [heq]⟩

/-- per inspector: under the hypotheses of the per-inspector theorems, for two chunkings of the same
    bytes the `format_match` answers agree, the summaries of a matching inspector agree, and the
    errors raised while feeding agree -/
theorem lemma_insp_eq (allowed : List String) (c1 c2 : List Bytes) (h : c1.flatten = c2.flatten)
    (hx : (VhdxForward c1.flatten ∧ VhdxMetaSigOK c1.flatten) ∨ (allowed ≠ [] ∧ "vhdx" ∉ allowed))
    (hv : VmdkSparse c1.flatten ∨ VmdkNoMatch c1.flatten ∨ (allowed ≠ [] ∧ "vmdk" ∉ allowed)) :
    ∀ i ∈ (Wrap.mk' none allowed).insps,
      formatMatch (runChunks i c1).1 = formatMatch (runChunks i c2).1 ∧
      (formatMatch (runChunks i c1).1 = .ok true → summary (runChunks i c1).1 = summary (runChunks i c2).1) ∧
      (feed i c1).2 = (feed i c2).2 := by
  intro i hi
  have hinit := lemma_mk_init none allowed i hi
  by_cases hs : i.fmt.static = true
  · have := verdict_chunk_independent_static i.fmt hs i hinit c1 c2 h
    exact ⟨by rw [this], fun _ => by rw [this], by rw [← lemma_runChunks_snd, ← lemma_runChunks_snd, this]⟩
  · have hcase : i.fmt = .vhdx ∨ i.fmt = .vmdk := by
      cases hf : i.fmt <;> simp_all [Fmt.static]
    rcases hcase with hf | hf
    · rcases hx with hx | ⟨hne, hnot⟩
      · rw [hf] at hinit
        obtain ⟨e1, e2, e3, e4, e5⟩ := vhdx_verdict_eq_partial i hinit c1 c2 h hx.1 hx.2
        refine ⟨e1, fun _ => ?_, e5⟩
        rw [lemma_summary_run, lemma_summary_run]
        simp only [Summary.mk.injEq, true_and]
        exact ⟨e1, e2, e3, e4⟩
      · have := allowed_respected none allowed hne i hi
        rw [hf] at this
        exact absurd this hnot
    · rcases hv with hv | hv | ⟨hne, hnot⟩
      · rw [hf] at hinit
        obtain ⟨e1, e2, e3, e4, e5⟩ := vmdk_verdict_eq_partial i hinit c1 c2 h hv
        refine ⟨e1, fun _ => ?_, e5⟩
        rw [lemma_summary_run, lemma_summary_run]
        simp only [Summary.mk.injEq, true_and]
        exact ⟨e1, e2, e3, e4⟩
      · rw [hf] at hinit
        obtain ⟨m1, r1⟩ := lemma_vmdk_nomatch i hinit c1 hv
        obtain ⟨m2, r2⟩ := lemma_vmdk_nomatch i hinit c2 (h ▸ hv)
        refine ⟨by rw [m1, m2], fun hm => ?_, by rw [r1, r2, h]⟩
        rw [m1] at hm
        simp at hm
      · have := allowed_respected none allowed hne i hi
        rw [hf] at this
        exact absurd this hnot

/-- **wrapper_chunk_independent_partial** — for `InspectWrapper(source, None, allowed)` with ANY
    `allowed` (`[]` = all ten formats) and any two chunk lists with the same concatenation `s`
    (empty chunks included), under the hypotheses of the per-inspector theorems —
    * VHDX: `VhdxForward s ∧ VhdxMetaSigOK s`, or the VHDX inspector is not in the wrapper;
    * VMDK: `VmdkSparse s` (sparse-header mode), or `VmdkNoMatch s` (the stream does not start with
      `KDMV` and is shorter than 64 bytes or has a non-text byte among its first 64: every non-VMDK
      binary image), or the VMDK inspector is not in the wrapper —
    after the whole source was read through the wrapper and the wrapper closed:
    (a) `formats` answers with the same format names (or the same error),
    (b) `format` answers with the same name, or the same error,
    (c) the inspector `format` returns has the same name, `format_match`, `complete`, `virtual_size`
        and `safety_check` outcome in both runs (`Summary`),
    (d) the same inspectors are in the errored set.
    Missing: streams outside the hypotheses — they are the known-finding classes KF_D7 and KF_N4
    (VHDX metadata pointer backwards / bad metadata signature), KF_F1 (VMDK text-descriptor mode:
    streams whose first 64 bytes are all text, and `KDMV…` streams with a version outside {1,2,3} or
    shorter than 64 bytes — the early-parse residue) and KF_F3 (VMDK footer window), where the
    per-inspector verdict does depend on the chunking; and wrappers with an expected format. -/
theorem wrapper_chunk_independent_partial (allowed : List String) (c1 c2 : List Bytes)
    (h : c1.flatten = c2.flatten)
    (hx : (VhdxForward c1.flatten ∧ VhdxMetaSigOK c1.flatten) ∨ (allowed ≠ [] ∧ "vhdx" ∉ allowed))
    (hv : VmdkSparse c1.flatten ∨ VmdkNoMatch c1.flatten ∨ (allowed ≠ [] ∧ "vmdk" ∉ allowed)) :
    namesOf ((pipeFinal allowed c1).formats realOps) = namesOf ((pipeFinal allowed c2).formats realOps) ∧
    fmtName ((pipeFinal allowed c1).format realOps) = fmtName ((pipeFinal allowed c2).format realOps) ∧
    exMap (Option.map summary) ((pipeFinal allowed c1).format realOps) =
      exMap (Option.map summary) ((pipeFinal allowed c2).format realOps) ∧
    (∀ n, n ∈ (pipeFinal allowed c1).errored ↔ n ∈ (pipeFinal allowed c2).errored) := by
  have hall := lemma_insp_eq allowed c1 c2 h hx hv
  obtain ⟨hns, hn⟩ := wrapper_answer_eq_of_verdicts allowed c1 c2 (fun i hi => (hall i hi).1)
  have hf := wrapper_choice_eq_of_verdicts allowed c1 c2 (fun i hi => ⟨(hall i hi).1, (hall i hi).2.1⟩)
  refine ⟨hns, hn, hf, ?_⟩
  intro n
  rw [(lemma_final allowed c1).2.2.2 n, (lemma_final allowed c2).2.2.2 n]
  constructor
  · rintro ⟨i, hi, hn, he⟩
    exact ⟨i, hi, hn, by rw [← (hall i hi).2.2]; exact he⟩
  · rintro ⟨i, hi, hn, he⟩
    exact ⟨i, hi, hn, by rw [(hall i hi).2.2]; exact he⟩

/-! ### empty chunks -/

theorem lemma_flatten_nonempty : ∀ (cs : List Bytes), (cs.filter (fun c => !c.isEmpty)).flatten = cs.flatten := by
  intro cs
  induction cs with
  | nil => rfl
  | cons c cs ih =>
    cases c with
    | nil => simpa using ih
    | cons b c => simp [ih]

/-- **wrapper_empty_chunks_static** — two chunk lists that differ only by empty chunks (inserted or
    removed anywhere) leave a wrapper over fixed-region formats in the same closed state. -/
theorem wrapper_empty_chunks_static (allowed : List String) (hne : allowed ≠ [])
    (hst : ∀ n ∈ allowed, ∀ f, Fmt.ofName? n = some f → f.static = true)
    (c1 c2 : List Bytes) (h : c1.filter (fun c => !c.isEmpty) = c2.filter (fun c => !c.isEmpty)) :
    pipeFinal allowed c1 = pipeFinal allowed c2 :=
  (wrapper_chunk_independent_static allowed hne hst c1 c2
    (by rw [← lemma_flatten_nonempty c1, ← lemma_flatten_nonempty c2, h])).1

/-- **wrapper_empty_chunks_partial** — the same for any wrapper, under the stream hypotheses of
    `wrapper_chunk_independent_partial` (same exclusions): inserting or removing empty chunks
    anywhere changes neither the `formats` names, nor the `format` answer, nor the summary of the
    inspector it returns.  Missing: streams in the classes KF_D7, KF_N4, KF_F1, KF_F3. -/
theorem wrapper_empty_chunks_partial (allowed : List String) (c1 c2 : List Bytes)
    (h : c1.filter (fun c => !c.isEmpty) = c2.filter (fun c => !c.isEmpty))
    (hx : (VhdxForward c1.flatten ∧ VhdxMetaSigOK c1.flatten) ∨ (allowed ≠ [] ∧ "vhdx" ∉ allowed))
    (hv : VmdkSparse c1.flatten ∨ VmdkNoMatch c1.flatten ∨ (allowed ≠ [] ∧ "vmdk" ∉ allowed)) :
    namesOf ((pipeFinal allowed c1).formats realOps) = namesOf ((pipeFinal allowed c2).formats realOps) ∧
    fmtName ((pipeFinal allowed c1).format realOps) = fmtName ((pipeFinal allowed c2).format realOps) ∧
    exMap (Option.map summary) ((pipeFinal allowed c1).format realOps) =
      exMap (Option.map summary) ((pipeFinal allowed c2).format realOps) := by
  obtain ⟨a, b, c, _⟩ := wrapper_chunk_independent_partial allowed c1 c2
    (by rw [← lemma_flatten_nonempty c1, ← lemma_flatten_nonempty c2, h]) hx hv
  exact ⟨a, b, c⟩

/-! ### the VMDK inspector on content it cannot match -/

/-- **vmdk_nomatch_chunk_independent_partial** — for a stream that does not start with `KDMV` and is
    shorter than 64 bytes or has a non-text byte among its first 64 (`VmdkNoMatch`), and every
    chunking of it: the VMDK inspector's `format_match` ends `False`, and it raised
    (ImageFormatError, from `post_process`) exactly when at least 64 bytes were streamed.
    Missing (hence `_partial`): the rest of the verdict of this non-matching inspector
    (`virtual_size`, `safety_check`), which can keep a chunk-dependent residue of an early parse of
    the offset-0 descriptor region (KF_F1) — the wrapper never hands a non-matching inspector out. -/
theorem vmdk_nomatch_chunk_independent_partial (s0 : Insp) (h0 : Insp.init .vmdk = some s0)
    (chunks : List Bytes) (h : VmdkNoMatch chunks.flatten) :
    (verdict (runChunks s0 chunks)).fmtMatch = .ok false ∧
    (verdict (runChunks s0 chunks)).raised =
      if chunks.flatten.length < 64 then none else some .imageFormat :=
  lemma_vmdk_nomatch s0 h0 chunks h

/-! ### non-vacuity -/

instance instDecEqExceptW {α : Type} [DecidableEq α] : DecidableEq (Except Err α) := fun a b =>
  match a, b with
  | .ok x, .ok y => if h : x = y then isTrue (by rw [h]) else isFalse (by intro e; cases e; exact h rfl)
  | .error x, .error y => if h : x = y then isTrue (by rw [h]) else isFalse (by intro e; cases e; exact h rfl)
  | .ok _, .error _ => isFalse (by intro e; cases e)
  | .error _, .ok _ => isFalse (by intro e; cases e)

/-- a 512-byte qcow2 header: magic, version 3, no backing file, virtual size 1 GiB -/
def exQcowW : Bytes := qcowMagic ++ [0, 0, 0, 3] ++ zeros 16 ++ [0, 0, 0, 0, 64, 0, 0, 0] ++ zeros 480

/-- the hypothesis of `wrapper_chunk_independent_static` is met by `allowed = ["qcow2", "raw"]` -/
example : ∀ n ∈ ["qcow2", "raw"], ∀ f, Fmt.ofName? n = some f → f.static = true := by
  intro n hn f hf
  simp only [List.mem_cons, List.mem_nil_iff, or_false] at hn
  rcases hn with rfl | rfl
  · have : Fmt.ofName? "qcow2" = some .qcow2 := by decide
    rw [this] at hf; cases hf; rfl
  · have : Fmt.ofName? "raw" = some .raw := by decide
    rw [this] at hf; cases hf; rfl

/-- the qcow2 header through a wrapper restricted to qcow2 and raw, two chunkings (one with an empty
    chunk): `format` answers qcow2 both times, with virtual size 1 GiB -/
example :
    fmtName ((pipeFinal ["qcow2", "raw"] [exQcowW]).format realOps) = .ok (some "qcow2") ∧
    fmtName ((pipeFinal ["qcow2", "raw"] [exQcowW.take 5, [], exQcowW.drop 5]).format realOps) =
      .ok (some "qcow2") ∧
    exMap (Option.map (fun i => virtualSize i))
        ((pipeFinal ["qcow2", "raw"] [exQcowW.take 5, [], exQcowW.drop 5]).format realOps) =
      .ok (some (.ok 1073741824)) := by
  decide +kernel

/-- the hypotheses of `wrapper_chunk_independent_partial` for the FULL wrapper (`allowed = []`) are
    met by the qcow2 header (a stream the VMDK inspector cannot match) and by the sparse VMDK image
    `exVmdk` of C01Vmdk.lean -/
example : exQcowW.length = 512 ∧ VmdkNoMatch exQcowW ∧ VhdxForward exQcowW ∧ VhdxMetaSigOK exQcowW :=
  ⟨by decide +kernel, by decide +kernel, vhdx_hyps_of_short _ (by decide +kernel)⟩

example : VmdkSparse exVmdk ∧ VhdxForward exVmdk ∧ VhdxMetaSigOK exVmdk :=
  ⟨by decide +kernel, vhdx_hyps_of_short _ (by decide +kernel)⟩

/-- the full ten-format wrapper on concrete chunkings: the qcow2 header is reported as qcow2 (the VMDK
    inspector raised and is in the errored set), the sparse VMDK image as vmdk -/
example :
    namesOf ((pipeFinal [] [exQcowW.take 70, [], exQcowW.drop 70]).formats realOps) = .ok (some ["qcow2"]) ∧
    (pipeFinal [] [exQcowW.take 70, [], exQcowW.drop 70]).errored = ["vmdk"] ∧
    fmtName ((pipeFinal [] [exVmdk.take 70, exVmdk.drop 70]).format realOps) = .ok (some "vmdk") := by
  decide +kernel

/-- … hence, by the theorem, EVERY chunking of the qcow2 header through the full wrapper is reported
    as qcow2 with virtual size 1 GiB and a passed safety check -/
example (cs : List Bytes) (h : cs.flatten = exQcowW) :
    fmtName ((pipeFinal [] cs).format realOps) = .ok (some "qcow2") ∧
    exMap (Option.map (fun s : Summary => (s.vsize, s.safety)))
        (exMap (Option.map summary) ((pipeFinal [] cs).format realOps)) =
      .ok (some (.ok 1073741824, .ok)) := by
  have hflat : cs.flatten = [exQcowW].flatten := by simp [h]
  have hyp : VmdkNoMatch exQcowW ∧ VhdxForward exQcowW ∧ VhdxMetaSigOK exQcowW :=
    ⟨by decide +kernel, vhdx_hyps_of_short _ (by decide +kernel)⟩
  obtain ⟨_, hn, hs, _⟩ := wrapper_chunk_independent_partial [] cs [exQcowW] hflat
    (Or.inl (h ▸ hyp.2)) (Or.inr (Or.inl (h ▸ hyp.1)))
  rw [hn, hs]
  constructor
  · decide +kernel
  · decide +kernel

end Oslo.Insp
