import sys
src=open('/verif/notes/design-probe-chunk-independence.py').read().split("N=int(sys.argv[2])")[0]
g={}; exec(src,g)
import spec
fi=g['fi']; rnd=g['rnd']
N=int(sys.argv[2]) if len(sys.argv)>2 else 200
for fmt,cls,mk,ok,sp in (('vhdx',fi.VHDXInspector,g['vhdx_img'],g['forward_vhdx'],spec.spec_vhdx),('vmdk',fi.VMDKInspector,g['vmdk_img'],g['vmdk_ok'],spec.spec_vmdk)):
    n=bad=0; kinds=set()
    for t in range(N):
        d,b=mk()
        if ok(d) is not True: continue
        if fmt=='vmdk' and d[:4]!=b'KDMV': continue
        n+=1
        v,sl=g['run'](cls,d,list(range(512,len(d),512)))
        e=sp(d); kinds.add(e)
        if v!=e:
            bad+=1
            if bad<8: print('SPEC DIFF',fmt,len(d),'real',v,'spec',e)
    print(fmt,'in-hypothesis',n,'spec mismatches',bad,'distinct verdicts',len(kinds))
