/-
VMDK, sparse-header mode: the inspector states reachable from a stream with a valid KDMV header,
written out explicitly, and what one `eat_chunk` does to each of them.

Three shapes of state:
* `vPre`  — fewer than 64 bytes streamed: the two initial regions (header; offset-0 descriptor).
* `vPost` — header complete, descriptor at sector 1: header, (footer), relocated descriptor region.
* `vErr`  — header complete, descriptor elsewhere: `post_process` raised; the inspector is not fed again.
What is chunk-dependent in them (how much of the first 512 bytes the header region holds, where the
footer window started, the residue of an early parse of the offset-0 descriptor region) is kept as
parameters constrained by invariants; everything the verdict reads is a function of the stream.
-/
import OsloProofs.Lemmas.SliceEngine
namespace Oslo.Insp

/-! ### the regions and the post-relocation state -/

def vHdrR (d : Bytes) : Region :=
  { rid := 0, offset := 0, length := 512, minLength := some 64, data := d, isEnd := false, endDone := false }
def vDesc0R (d : Bytes) : Region :=
  { rid := 1, offset := 0, length := 1048575, minLength := some 4, data := d, isEnd := false, endDone := false }
def vDescR (rid dl : Nat) (d : Bytes) : Region :=
  { rid := rid, offset := 512, length := dl, minLength := none, data := d, isEnd := false, endDone := false }
def vFootR (off : Nat) (d : Bytes) (done : Bool) : Region :=
  { rid := 2, offset := off, length := 1536, minLength := none, data := d, isEnd := true, endDone := done }

def vPost (foot : Bool) (n : Nat) (hd dd : Bytes) (dl : Nat) (fo : Nat) (fd : Bytes) (fin : Bool)
    (dt : Option Bytes) (vt : Bytes) : Insp :=
  { fmt := .vmdk, total := n,
    regions := if foot then [("header", vHdrR hd), ("footer", vFootR fo fd fin), ("descriptor", vDescR 3 dl dd)]
               else [("header", vHdrR hd), ("descriptor", vDescR 2 dl dd)],
    nextRid := if foot then 4 else 3, finished := fin,
    checks := if foot then ["descriptor", "footer"] else ["descriptor"],
    qcowInfo := none, descText := dt, vmdkType := vt }

/-- the part of the descriptor region before the first NUL -/
def descCut (d : Bytes) : Bytes :=
  match findSub d [0] 0 with
  | some i => d.take i
  | none => d

/-- `createType` of a lower-cased descriptor text -/
def descType (text : Bytes) : Bytes :=
  match findSub text createTypeKey 0 with
  | none => formatNotFound
  | some k =>
    let typeIdx := k + createTypeKey.length
    match findSub text [0x22] typeIdx with
    | some typeEnd => if typeEnd - typeIdx < 64 then slice text typeIdx typeEnd else formatNotFound
    | none => slice text typeIdx (text.length - 1)

/-- `_parse_descriptor` as a function of the region bytes: `none` when they do not decode -/
def parseDesc (d : Bytes) : Option (Bytes × Bytes) :=
  if !(descCut d).all isAscii then none
  else some ((descCut d).map lowerByte, descType ((descCut d).map lowerByte))

theorem lemma_vmdkParse_eq (s : Insp) (dr : Region) (h : s.region "descriptor" = .ok dr) :
    vmdkParseDescriptor s =
      match parseDesc dr.data with
      | none => (s, none)
      | some (t, ty) => ({ s with descText := some t, vmdkType := ty }, none) := by
  unfold vmdkParseDescriptor parseDesc descCut descType
  rw [h]
  dsimp only
  cases findSub dr.data [0] 0 <;> dsimp only <;> split <;> rfl


theorem lemma_vmdk_hdr_complete (hd : Bytes) (h : 64 ≤ hd.length) : (vHdrR hd).complete = true := by
  simp [Region.complete, vHdrR, h]

theorem lemma_vmdk_foot_complete (fo : Nat) (fd : Bytes) : (vFootR fo fd false).complete = false := by
  simp [Region.complete, vFootR]

theorem lemma_vmdk_desc_complete (k dl : Nat) (dd : Bytes) : (vDescR k dl dd).complete = decide (dl = dd.length) := rfl

theorem lemma_vmdk_sliceOf_full (p c : Bytes) (o l : Nat) (h : l = (sliceOf p o l).length) :
    sliceOf (p ++ c) o l = sliceOf p o l := by
  have := lemma_slice_extend (sliceOf p o l) p c o (by rw [← h])
  rw [← h] at this
  exact this.symm

theorem lemma_vmdk_step_hdr (hd c : Bytes) (pos : Nat) (h : 64 ≤ hd.length) :
    stepRegion c pos (vHdrR hd) = vHdrR hd := by
  unfold stepRegion
  rw [lemma_vmdk_hdr_complete hd h]
  rfl

theorem lemma_vmdk_step_foot (fo : Nat) (fd c : Bytes) (pos : Nat) :
    stepRegion c pos (vFootR fo fd false) =
      vFootR (pos - (lastN 1536 (fd ++ c)).length) (lastN 1536 (fd ++ c)) false := by
  simp [stepRegion, vFootR, Region.capture]

theorem lemma_vmdk_step_desc (k dl : Nat) (p c : Bytes) :
    stepRegion c (p.length + c.length) (vDescR k dl (sliceOf p 512 dl)) =
      vDescR k dl (sliceOf (p ++ c) 512 dl) := by
  unfold stepRegion
  rw [lemma_vmdk_desc_complete]
  by_cases h : dl = (sliceOf p 512 dl).length
  · rw [decide_eq_true h, lemma_vmdk_sliceOf_full p c 512 dl h]
    rfl
  · rw [decide_eq_false h]
    exact lemma_capture_step (vDescR _ dl (sliceOf p 512 dl)) p c rfl rfl

/-- the first `_capture(chunk)` on a post-relocation state -/
theorem lemma_post_capture (foot : Bool) (hd p c : Bytes) (dl fo : Nat) (fd : Bytes)
    (dt : Option Bytes) (vt : Bytes) (hlen : 64 ≤ hd.length) :
    ({ vPost foot p.length hd (sliceOf p 512 dl) dl fo fd false dt vt with total := p.length + c.length } : Insp).captureAll c [] =
      vPost foot (p.length + c.length) hd (sliceOf (p ++ c) 512 dl) dl
        (p.length + c.length - (lastN 1536 (fd ++ c)).length) (lastN 1536 (fd ++ c)) false dt vt := by
  rw [lemma_captureAll_nil]
  cases foot <;>
  simp only [vPost, Bool.false_eq_true, if_false, if_true, List.map_cons, List.map_nil,
      lemma_vmdk_step_hdr hd c _ hlen, lemma_vmdk_step_desc, lemma_vmdk_step_foot]


/-- the header fields the proofs rely on -/
structure HdrOK (H : SparseHeader) : Prop where
  sig : H.sig = kdmv
  ver : H.ver = 1 ∨ H.ver = 2 ∨ H.ver = 3

theorem lemma_post_relocate (foot : Bool) (n : Nat) (hd dd : Bytes) (dl fo : Nat) (fd : Bytes)
    (dt : Option Bytes) (vt : Bytes) (ds dn : Nat) (hds : ds * 512 = Gen.vmdkDescOffset) :
    vmdkRelocate (vPost foot n hd dd dl fo fd false dt vt) ds dn =
      (vPost foot n hd dd dl fo fd false dt vt, none) := by
  unfold vmdkRelocate
  rw [if_neg (by simpa using hds)]
  have hr : (vPost foot n hd dd dl fo fd false dt vt).region "descriptor" =
      .ok (vDescR (if foot then 3 else 2) dl dd) := by
    cases foot <;> rfl
  rw [hr]
  rfl

theorem lemma_post_pp (foot : Bool) (n : Nat) (hd dd : Bytes) (dl fo : Nat) (fd : Bytes)
    (dt : Option Bytes) (vt : Bytes) (H : SparseHeader) (hp : parseSparseHeader hd 0 = .ok H)
    (hlen : 64 ≤ hd.length) (hok : HdrOK H) (hds : H.descSec * 512 = Gen.vmdkDescOffset)
    (hfoot : foot = decide (H.gdOffset = Gen.vmdkGdAtEnd)) :
    postProcess (vPost foot n hd dd dl fo fd false dt vt) = (vPost foot n hd dd dl fo fd false dt vt, none) := by
  have hver : (!(H.ver = 1 || H.ver = 2 || H.ver = 3)) = false := by
    rcases hok.ver with h | h | h <;> simp [h]
  unfold postProcess
  have hl : lookupR "header" (vPost foot n hd dd dl fo fd false dt vt).regions = some (vHdrR hd) := by
    cases foot <;> rfl
  show vmdkPostProcess _ = _
  unfold vmdkPostProcess
  rw [hl]
  simp only [lemma_vmdk_hdr_complete hd hlen, Bool.not_true, Bool.false_eq_true, if_false]
  have : (vHdrR hd).data = hd := rfl
  rw [this, hp]
  simp only [hok.sig, ne_eq, not_true_eq_false, if_false, hver, Bool.false_eq_true]
  have hadd : vmdkAddFooter (vPost foot n hd dd dl fo fd false dt vt) H.gdOffset =
      .ok (vPost foot n hd dd dl fo fd false dt vt) := by
    unfold vmdkAddFooter
    cases foot
    · have : ¬ (H.gdOffset = Gen.vmdkGdAtEnd) := by simpa using hfoot.symm
      simp [this]
    · have : (vPost true n hd dd dl fo fd false dt vt).hasRegion "footer" = true := rfl
      simp [this]
  rw [hadd]
  exact lemma_post_relocate foot n hd dd dl fo fd dt vt _ _ hds


/-- `eat_chunk` in named stages (no error) -/
theorem lemma_vmdk_eat_unfold (s : Insp) (c : Bytes) (s2 s3 s4 : Insp) (hf : s.finished = false)
    (h2 : ({ s with total := s.total + c.length } : Insp).captureAll c [] = s2)
    (h3 : postProcess s2 = (s3, none))
    (h4 : followUp 8 s3 c (s.regions.map (·.2.rid)) = (s4, none)) :
    eatChunk s c = runCallbacks s4 ((s4.regions.filter (fun p => p.2.complete &&
        !((s.regions.filter (·.2.complete)).map (·.2.rid)).contains p.2.rid)).map (·.1)) := by
  obtain ⟨fmt, total, regions, nextRid, finished, checks, qi, dt, vt⟩ := s
  simp only at hf
  subst hf
  unfold eatChunk
  simp only [Bool.false_eq_true, if_false, h2, h3, h4]

/-- `eat_chunk` when the first post-processing raises -/
theorem lemma_vmdk_eat_unfold_err (s : Insp) (c : Bytes) (s2 s3 : Insp) (e : Err) (hf : s.finished = false)
    (h2 : ({ s with total := s.total + c.length } : Insp).captureAll c [] = s2)
    (h3 : postProcess s2 = (s3, some e)) :
    eatChunk s c = (s3, some e) := by
  obtain ⟨fmt, total, regions, nextRid, finished, checks, qi, dt, vt⟩ := s
  simp only at hf
  subst hf
  unfold eatChunk
  simp only [Bool.false_eq_true, if_false, h2, h3]

/-- which callback names run for a post-relocation state -/
def postNames (dl : Nat) (old new : Bytes) : List String :=
  if !decide (dl = old.length) && decide (dl = new.length) then ["descriptor"] else []

theorem lemma_post_eat (foot : Bool) (hd p c : Bytes) (dl fo : Nat) (fd : Bytes)
    (dt : Option Bytes) (vt : Bytes) (H : SparseHeader) (hp : parseSparseHeader hd 0 = .ok H)
    (hlen : 64 ≤ hd.length) (hok : HdrOK H) (hds : H.descSec * 512 = Gen.vmdkDescOffset)
    (hfoot : foot = decide (H.gdOffset = Gen.vmdkGdAtEnd)) :
    eatChunk (vPost foot p.length hd (sliceOf p 512 dl) dl fo fd false dt vt) c =
      runCallbacks (vPost foot (p.length + c.length) hd (sliceOf (p ++ c) 512 dl) dl
        (p.length + c.length - (lastN 1536 (fd ++ c)).length) (lastN 1536 (fd ++ c)) false dt vt)
        (postNames dl (sliceOf p 512 dl) (sliceOf (p ++ c) 512 dl)) := by
  rw [lemma_vmdk_eat_unfold _ c _ _ _ rfl (lemma_post_capture foot hd p c dl fo fd dt vt hlen)
    (lemma_post_pp foot _ hd _ dl _ _ dt vt H hp hlen hok hds hfoot)
    (lemma_followUp_none 8 _ c _ (by cases foot <;> simp [vPost, vHdrR, vFootR, vDescR]))]
  congr 1
  generalize sliceOf p 512 dl = old
  generalize sliceOf (p ++ c) 512 dl = new
  generalize (lastN 1536 (fd ++ c)) = fd'
  generalize p.length + c.length - fd'.length = fo'
  cases foot <;>
  simp only [vPost, Bool.false_eq_true, if_false, if_true, List.filter_cons, List.filter_nil, lemma_vmdk_hdr_complete hd hlen,
    lemma_vmdk_foot_complete, lemma_vmdk_desc_complete, List.map_cons, postNames]
  all_goals
    rcases Bool.eq_false_or_eq_true (decide (dl = old.length)) with e1 | e1 <;>
    rcases Bool.eq_false_or_eq_true (decide (dl = new.length)) with e2 | e2 <;>
    simp [e1, e2, vHdrR, vDescR, vFootR]


/-- the effect of the descriptor callback on (`desc_text`, `vmdktype`) -/
def applyParse (d : Bytes) (dt : Option Bytes) (vt : Bytes) : Option Bytes × Bytes :=
  match parseDesc d with
  | some (t, ty) => (some t, ty)
  | none => (dt, vt)

theorem lemma_post_callbacks_desc (foot : Bool) (n : Nat) (hd dd : Bytes) (dl fo : Nat) (fd : Bytes) (fin : Bool)
    (dt : Option Bytes) (vt : Bytes) :
    runCallbacks (vPost foot n hd dd dl fo fd fin dt vt) ["descriptor"] =
      (vPost foot n hd dd dl fo fd fin (applyParse dd dt vt).1 (applyParse dd dt vt).2, none) := by
  have hr : (vPost foot n hd dd dl fo fd fin dt vt).region "descriptor" =
      .ok (vDescR (if foot then 3 else 2) dl dd) := by
    cases foot <;> rfl
  have hrc : regionComplete (vPost foot n hd dd dl fo fd fin dt vt) "descriptor" =
      vmdkParseDescriptor (vPost foot n hd dd dl fo fd fin dt vt) := by
    simp [regionComplete, vPost]
  simp only [runCallbacks, hrc, lemma_vmdkParse_eq _ _ hr, applyParse]
  have : (vDescR (if foot then 3 else 2) dl dd).data = dd := rfl
  rw [this]
  cases parseDesc dd with
  | none => rfl
  | some x => rfl

/-- what is known about (`desc_text`, `vmdktype`) while the relocated descriptor region holds `dd` -/
def DescSt (dd : Bytes) (dl : Nat) (dt : Option Bytes) (vt : Bytes) : Prop :=
  if dl = dd.length then
    (match parseDesc dd with
     | some (t, ty) => dt = some t ∧ vt = ty
     | none => vt = formatNotFound)
  else vt = formatNotFound

theorem lemma_descSt_apply (dd : Bytes) (dl : Nat) (dt : Option Bytes) (h : dl = dd.length) :
    DescSt dd dl (applyParse dd dt formatNotFound).1 (applyParse dd dt formatNotFound).2 := by
  unfold DescSt applyParse
  rw [if_pos h]
  cases parseDesc dd with
  | none => rfl
  | some x => exact ⟨rfl, rfl⟩

/-- **one `eat_chunk` after relocation**: the state stays of the post-relocation shape, holds the
    descriptor slice of the longer prefix, and never raises -/
theorem lemma_post_step (foot : Bool) (hd p c : Bytes) (dl fo : Nat) (fd : Bytes)
    (dt : Option Bytes) (vt : Bytes) (H : SparseHeader) (hp : parseSparseHeader hd 0 = .ok H)
    (hlen : 64 ≤ hd.length) (hok : HdrOK H) (hds : H.descSec * 512 = Gen.vmdkDescOffset)
    (hfoot : foot = decide (H.gdOffset = Gen.vmdkGdAtEnd))
    (hst : DescSt (sliceOf p 512 dl) dl dt vt) :
    ∃ fo' dt' vt',
      eatChunk (vPost foot p.length hd (sliceOf p 512 dl) dl fo fd false dt vt) c =
        (vPost foot (p.length + c.length) hd (sliceOf (p ++ c) 512 dl) dl fo' (lastN 1536 (fd ++ c)) false dt' vt',
         none) ∧
      DescSt (sliceOf (p ++ c) 512 dl) dl dt' vt' := by
  rw [lemma_post_eat foot hd p c dl fo fd dt vt H hp hlen hok hds hfoot]
  unfold postNames
  by_cases h1 : dl = (sliceOf p 512 dl).length
  · rw [decide_eq_true h1]
    refine ⟨_, dt, vt, rfl, ?_⟩
    rw [lemma_vmdk_sliceOf_full p c 512 dl h1]
    exact hst
  · have hvt : vt = formatNotFound := by
      unfold DescSt at hst
      rw [if_neg h1] at hst
      exact hst
    subst hvt
    rw [decide_eq_false h1]
    by_cases h2 : dl = (sliceOf (p ++ c) 512 dl).length
    · rw [decide_eq_true h2]
      simp only [Bool.not_false, Bool.and_self, if_true]
      rw [lemma_post_callbacks_desc]
      exact ⟨_, _, _, rfl, lemma_descSt_apply _ _ _ h2⟩
    · rw [decide_eq_false h2]
      refine ⟨_, dt, formatNotFound, rfl, ?_⟩
      unfold DescSt
      rw [if_neg h2]


/-! ### the early parse of the offset-0 descriptor region is harmless under a valid KDMV header -/

theorem lemma_vmdk_findSubAux_short (needle : Bytes) : ∀ (hay : Bytes) (i : Nat), hay.length < needle.length →
    findSubAux needle hay i = none := by
  intro hay
  induction hay with
  | nil =>
    intro i h
    have : needle.isEmpty = false := by
      cases needle with
      | nil => simp at h
      | cons a l => rfl
    simp [findSubAux, this]
  | cons a t ih =>
    intro i h
    have hs : startsWith (a :: t) needle = false := by
      unfold startsWith
      cases hb : (List.take needle.length (a :: t) == needle)
      · rfl
      · have := congrArg List.length (eq_of_beq hb)
        simp only [List.length_take] at this
        omega
    simp only [findSubAux, hs, Bool.false_eq_true, if_false]
    exact ih (i + 1) (by simp at h; omega)

theorem lemma_vmdk_findSubAux_zero : ∀ (hay : Bytes) (j k : Nat), hay[k]? = some 0 →
    ∃ i, findSubAux [0] hay j = some i ∧ i ≤ j + k := by
  intro hay
  induction hay with
  | nil => intro j k h; simp at h
  | cons a t ih =>
    intro j k h
    by_cases ha : a = 0
    · subst ha
      exact ⟨j, by simp [findSubAux, startsWith], by omega⟩
    · have hs : startsWith (a :: t) [0] = false := by simp [startsWith, ha]
      cases k with
      | zero => simp at h; exact absurd h ha
      | succ k =>
        simp only [List.getElem?_cons_succ] at h
        obtain ⟨i, hi, hle⟩ := ih (j + 1) k h
        exact ⟨i, by simp only [findSubAux, hs, Bool.false_eq_true, if_false]; exact hi, by omega⟩

/-- at most five bytes, or a NUL at index 5 (what every prefix of a valid sparse header looks like) -/
def NulAt5 (d : Bytes) : Prop := d.length ≤ 5 ∨ d[5]? = some 0

theorem lemma_descCut_short (d : Bytes) (h : NulAt5 d) : (descCut d).length ≤ 5 := by
  unfold descCut findSub
  rcases h with h | h
  · split
    · simp only [List.length_take]; omega
    · exact h
  · simp only [Nat.zero_le, if_true, List.drop_zero]
    obtain ⟨i, hi, hle⟩ := lemma_vmdk_findSubAux_zero d 0 5 h
    rw [hi]
    simp; omega

theorem lemma_applyParse_short (d : Bytes) (dt : Option Bytes) (h : NulAt5 d) :
    (applyParse d dt formatNotFound).2 = formatNotFound := by
  unfold applyParse parseDesc
  split
  · rename_i t ty heq
    split at heq
    · simp at heq
    · simp only [Option.some.injEq, Prod.mk.injEq] at heq
      rw [← heq.2]
      unfold descType findSub
      have hl := lemma_descCut_short d h
      have : findSubAux createTypeKey (List.map lowerByte (descCut d)) 0 = none :=
        lemma_vmdk_findSubAux_short _ _ _ (by
          have : createTypeKey.length = 12 := by decide
          simp [this]; omega)
      simp [this]
  · rfl

theorem lemma_nulAt5_prefix {a b : Bytes} (h : a <+: b) (hb : NulAt5 b) : NulAt5 a := by
  obtain ⟨t, rfl⟩ := h
  unfold NulAt5 at *
  by_cases hl : a.length ≤ 5
  · exact Or.inl hl
  · rcases hb with hb | hb
    · simp at hb; omega
    · right
      rw [List.getElem?_append_left (by omega)] at hb
      exact hb


/-! ### before the 64-byte header is complete -/

def vPre (n : Nat) (hd d0 : Bytes) (dt : Option Bytes) : Insp :=
  { fmt := .vmdk, total := n, regions := [("header", vHdrR hd), ("descriptor", vDesc0R d0)],
    nextRid := 2, finished := false, checks := ["descriptor"], qcowInfo := none,
    descText := dt, vmdkType := formatNotFound }

theorem lemma_vmdk_step_hdr_pre (p c : Bytes) (h : p.length < 64) :
    stepRegion c (p.length + c.length) (vHdrR (sliceOf p 0 512)) = vHdrR (sliceOf (p ++ c) 0 512) := by
  unfold stepRegion
  have hc : (vHdrR (sliceOf p 0 512)).complete = false := by
    simp [Region.complete, vHdrR, lemma_sliceOf_length]; omega
  rw [hc]
  exact lemma_capture_step (vHdrR (sliceOf p 0 512)) p c rfl rfl

theorem lemma_vmdk_step_desc0 (p c d0 : Bytes) (h : PlainInv (vDesc0R d0) p) :
    ∃ d0', stepRegion c (p.length + c.length) (vDesc0R d0) = vDesc0R d0' ∧ PlainInv (vDesc0R d0') (p ++ c) ∧
      ((vDesc0R d0).complete = true → d0' = d0) := by
  obtain ⟨hinv, e1, e2, e3, e4, e5, e6⟩ := lemma_plain_step (vDesc0R d0) p c rfl h
  have hs : (if (vDesc0R d0).isEnd || !(vDesc0R d0).complete then (vDesc0R d0).capture c (p.length + c.length)
      else vDesc0R d0) = stepRegion c (p.length + c.length) (vDesc0R d0) := rfl
  rw [hs] at hinv e1 e2 e3 e4 e5 e6
  refine ⟨(stepRegion c (p.length + c.length) (vDesc0R d0)).data, ?_, ?_, ?_⟩
  · generalize stepRegion c (p.length + c.length) (vDesc0R d0) = r at *
    obtain ⟨rid, off, len, ml, data, isEnd, endDone⟩ := r
    simp only [vDesc0R] at e1 e2 e3 e4 e5 e6 ⊢
    subst e1 e2 e3 e4 e5 e6
    rfl
  · have : vDesc0R (stepRegion c (p.length + c.length) (vDesc0R d0)).data =
        stepRegion c (p.length + c.length) (vDesc0R d0) := by
      generalize stepRegion c (p.length + c.length) (vDesc0R d0) = r at *
      obtain ⟨rid, off, len, ml, data, isEnd, endDone⟩ := r
      simp only [vDesc0R] at e1 e2 e3 e4 e5 e6 ⊢
      subst e1 e2 e3 e4 e5 e6
      rfl
    rw [this]; exact hinv
  · intro hc
    unfold stepRegion
    rw [hc]
    rfl

theorem lemma_pre_capture (p c d0 d0' : Bytes) (dt : Option Bytes) (h : p.length < 64)
    (hd0 : stepRegion c (p.length + c.length) (vDesc0R d0) = vDesc0R d0') :
    ({ vPre p.length (sliceOf p 0 512) d0 dt with total := p.length + c.length } : Insp).captureAll c [] =
      vPre (p.length + c.length) (sliceOf (p ++ c) 0 512) d0' dt := by
  rw [lemma_captureAll_nil]
  simp only [vPre, List.map_cons, List.map_nil, lemma_vmdk_step_hdr_pre p c h, hd0]

theorem lemma_pre_pp (n : Nat) (hd d0 : Bytes) (dt : Option Bytes) (h : hd.length < 64) :
    postProcess (vPre n hd d0 dt) = (vPre n hd d0 dt, none) := by
  have : postProcess (vPre n hd d0 dt) = vmdkPostProcess (vPre n hd d0 dt) := rfl
  rw [this]
  unfold vmdkPostProcess
  have hl : lookupR "header" (vPre n hd d0 dt).regions = some (vHdrR hd) := rfl
  rw [hl]
  have hc : (vHdrR hd).complete = false := by
    simp [Region.complete, vHdrR, Nat.not_le.mpr h]
  simp only [hc, Bool.not_false, if_true]

theorem lemma_pre_callbacks_desc (n : Nat) (hd d0 : Bytes) (dt : Option Bytes) (h5 : NulAt5 d0) :
    ∃ dt', runCallbacks (vPre n hd d0 dt) ["descriptor"] = (vPre n hd d0 dt', none) := by
  have hr : (vPre n hd d0 dt).region "descriptor" = .ok (vDesc0R d0) := rfl
  have hrc : regionComplete (vPre n hd d0 dt) "descriptor" = vmdkParseDescriptor (vPre n hd d0 dt) := by
    simp [regionComplete, vPre]
  simp only [runCallbacks, hrc, lemma_vmdkParse_eq _ _ hr]
  have : (vDesc0R d0).data = d0 := rfl
  rw [this]
  have hsh := lemma_applyParse_short d0 dt h5
  unfold applyParse at hsh
  cases hp : parseDesc d0 with
  | none => exact ⟨dt, rfl⟩
  | some x =>
    obtain ⟨t, ty⟩ := x
    rw [hp] at hsh
    simp only at hsh
    subst hsh
    exact ⟨some t, rfl⟩

theorem lemma_plainInv_nulAt5 (d0 q : Bytes) (h : PlainInv (vDesc0R d0) q) (h5 : NulAt5 q) : NulAt5 d0 := by
  apply lemma_nulAt5_prefix _ h5
  apply List.IsPrefix.trans h.1
  simp only [sliceOf, vDesc0R, List.drop_zero]
  exact List.take_prefix _ _

/-- **one `eat_chunk` that still leaves fewer than 64 bytes streamed** -/
theorem lemma_pre_step (p c d0 : Bytes) (dt : Option Bytes) (hlt : (p ++ c).length < 64)
    (hinv : PlainInv (vDesc0R d0) p) (h5 : NulAt5 (p ++ c)) :
    ∃ d0' dt', eatChunk (vPre p.length (sliceOf p 0 512) d0 dt) c =
        (vPre (p.length + c.length) (sliceOf (p ++ c) 0 512) d0' dt', none) ∧
      PlainInv (vDesc0R d0') (p ++ c) := by
  obtain ⟨d0', hstep, hinv', _⟩ := lemma_vmdk_step_desc0 p c d0 hinv
  simp only [List.length_append] at hlt
  have hpl : p.length < 64 := by omega
  have hql : (sliceOf (p ++ c) 0 512).length < 64 := by
    rw [lemma_sliceOf_length, List.length_append]; omega
  rw [lemma_vmdk_eat_unfold _ c _ _ _ rfl (lemma_pre_capture p c d0 d0' dt hpl hstep)
    (lemma_pre_pp _ _ d0' dt hql)
    (lemma_followUp_none 8 _ c _ (by simp [vPre, vHdrR, vDesc0R]))]
  have hc : (vHdrR (sliceOf (p ++ c) 0 512)).complete = false := by
    simp [Region.complete, vHdrR, lemma_sliceOf_length]; omega
  have hc0 : (vHdrR (sliceOf p 0 512)).complete = false := by
    simp [Region.complete, vHdrR, lemma_sliceOf_length]; omega
  have hnames : ((vPre (p.length + c.length) (sliceOf (p ++ c) 0 512) d0' dt).regions.filter (fun x => x.2.complete &&
        !(((vPre p.length (sliceOf p 0 512) d0 dt).regions.filter (·.2.complete)).map (·.2.rid)).contains x.2.rid)).map (·.1) =
      if (vDesc0R d0').complete && !(vDesc0R d0).complete then ["descriptor"] else [] := by
    simp only [vPre, List.filter_cons, List.filter_nil, hc, hc0, Bool.false_and, Bool.false_eq_true, if_false]
    generalize (vDesc0R d0').complete = b1
    generalize (vDesc0R d0).complete = b2
    cases b1 <;> cases b2 <;> simp [vDesc0R]
  rw [hnames]
  split
  · obtain ⟨dt', hcb⟩ := lemma_pre_callbacks_desc (p.length + c.length) (sliceOf (p ++ c) 0 512) d0' dt
      (lemma_plainInv_nulAt5 d0' _ hinv' h5)
    exact ⟨d0', dt', hcb, hinv'⟩
  · exact ⟨d0', dt, rfl, hinv'⟩


/-! ### the chunk that completes the 64-byte header -/

/-- the state in which `post_process` raises for a descriptor that is not at sector 1 -/
def vErr (foot : Bool) (n : Nat) (hd d0 : Bytes) (fin : Bool) (dt : Option Bytes) : Insp :=
  { fmt := .vmdk, total := n,
    regions := if foot then [("header", vHdrR hd), ("descriptor", vDesc0R d0), ("footer", vFootR 1536 [] fin)]
               else [("header", vHdrR hd), ("descriptor", vDesc0R d0)],
    nextRid := if foot then 3 else 2, finished := fin,
    checks := if foot then ["descriptor", "footer"] else ["descriptor"],
    qcowInfo := none, descText := dt, vmdkType := formatNotFound }

theorem lemma_addFooter_pre (foot : Bool) (n : Nat) (hd d0 : Bytes) (dt : Option Bytes) (gd : Nat)
    (hfoot : foot = decide (gd = Gen.vmdkGdAtEnd)) :
    vmdkAddFooter (vPre n hd d0 dt) gd = .ok (vErr foot n hd d0 false dt) := by
  unfold vmdkAddFooter
  cases foot
  · have : ¬ (gd = Gen.vmdkGdAtEnd) := by simpa using hfoot.symm
    simp only [this, decide_false, Bool.false_and, Bool.false_eq_true, if_false]
    rfl
  · have : gd = Gen.vmdkGdAtEnd := by simpa using hfoot.symm
    have hh : (vPre n hd d0 dt).hasRegion "footer" = false := rfl
    simp only [this, decide_true, hh, Bool.not_false, Bool.and_self, if_true]
    rfl

theorem lemma_relocate_err (foot : Bool) (n : Nat) (hd d0 : Bytes) (dt : Option Bytes) (ds dn : Nat)
    (hds : ds * 512 ≠ Gen.vmdkDescOffset) :
    vmdkRelocate (vErr foot n hd d0 false dt) ds dn = (vErr foot n hd d0 false dt, some .imageFormat) := by
  unfold vmdkRelocate
  rw [if_pos hds]

theorem lemma_relocate_ok (foot : Bool) (n : Nat) (hd d0 : Bytes) (dt : Option Bytes) (ds dn : Nat)
    (hds : ds * 512 = Gen.vmdkDescOffset) :
    vmdkRelocate (vErr foot n hd d0 false dt) ds dn =
      (vPost foot n hd [] (min (dn * 512) Gen.vmdkDescMaxSize) 1536 [] false dt formatNotFound, none) := by
  unfold vmdkRelocate
  rw [if_neg (by simpa using hds), hds]
  cases foot <;> rfl

theorem lemma_trans_pp (foot : Bool) (n : Nat) (hd d0 : Bytes) (dt : Option Bytes) (H : SparseHeader)
    (hp : parseSparseHeader hd 0 = .ok H) (hlen : 64 ≤ hd.length) (hok : HdrOK H)
    (hfoot : foot = decide (H.gdOffset = Gen.vmdkGdAtEnd)) :
    postProcess (vPre n hd d0 dt) = vmdkRelocate (vErr foot n hd d0 false dt) H.descSec H.descNum := by
  have hver : (!(H.ver = 1 || H.ver = 2 || H.ver = 3)) = false := by
    rcases hok.ver with h | h | h <;> simp [h]
  have : postProcess (vPre n hd d0 dt) = vmdkPostProcess (vPre n hd d0 dt) := rfl
  rw [this]
  unfold vmdkPostProcess
  have hl : lookupR "header" (vPre n hd d0 dt).regions = some (vHdrR hd) := rfl
  rw [hl]
  simp only [lemma_vmdk_hdr_complete hd hlen, Bool.not_true, Bool.false_eq_true, if_false]
  have : (vHdrR hd).data = hd := rfl
  rw [this, hp]
  simp only [hok.sig, ne_eq, not_true_eq_false, if_false, hver, Bool.false_eq_true]
  rw [lemma_addFooter_pre foot n hd d0 dt _ hfoot]

theorem lemma_trans_follow (foot : Bool) (hd p c : Bytes) (dl : Nat) (dt : Option Bytes) (H : SparseHeader)
    (hp : parseSparseHeader hd 0 = .ok H) (hlen : 64 ≤ hd.length) (hok : HdrOK H)
    (hds : H.descSec * 512 = Gen.vmdkDescOffset) (hfoot : foot = decide (H.gdOffset = Gen.vmdkGdAtEnd)) :
    followUp 8 (vPost foot (p.length + c.length) hd (sliceOf p 512 dl) dl 1536 [] false dt formatNotFound) c [0, 1] =
      (vPost foot (p.length + c.length) hd (sliceOf (p ++ c) 512 dl) dl
        (p.length + c.length - (lastN 1536 c).length) (lastN 1536 c) false dt formatNotFound, none) := by
  have hcap : (vPost foot (p.length + c.length) hd (sliceOf p 512 dl) dl 1536 [] false dt formatNotFound).captureAll c
      (((vPost foot (p.length + c.length) hd (sliceOf p 512 dl) dl 1536 [] false dt formatNotFound).regions.filter
        (fun x => ![0, 1].contains x.2.rid)).map (·.1)) =
      vPost foot (p.length + c.length) hd (sliceOf (p ++ c) 512 dl) dl
        (p.length + c.length - (lastN 1536 c).length) (lastN 1536 c) false dt formatNotFound := by
    rw [lemma_captureAll_eq]
    have hs := lemma_vmdk_step_desc (if foot then 3 else 2) dl p c
    have hf := lemma_vmdk_step_foot 1536 [] c (p.length + c.length)
    unfold stepRegion at hs hf
    rw [List.nil_append] at hf
    cases foot
    · have hn : ((vPost false (p.length + c.length) hd (sliceOf p 512 dl) dl 1536 [] false dt formatNotFound).regions.filter
          (fun x => ![0, 1].contains x.2.rid)).map (·.1) = ["descriptor"] := rfl
      rw [hn]
      have c1 : (["descriptor"].isEmpty || ["descriptor"].contains "header") = false := by decide
      have c2 : (["descriptor"].isEmpty || ["descriptor"].contains "descriptor") = true := by decide
      simp only [vPost, Bool.false_eq_true, if_false, List.map_cons, List.map_nil, c1, c2, Bool.false_and,
        Bool.true_and] at hs ⊢
      rw [hs]
    · have hn : ((vPost true (p.length + c.length) hd (sliceOf p 512 dl) dl 1536 [] false dt formatNotFound).regions.filter
          (fun x => ![0, 1].contains x.2.rid)).map (·.1) = ["footer", "descriptor"] := rfl
      rw [hn]
      have c1 : (["footer", "descriptor"].isEmpty || ["footer", "descriptor"].contains "header") = false := by decide
      have c2 : (["footer", "descriptor"].isEmpty || ["footer", "descriptor"].contains "descriptor") = true := by decide
      have c3 : (["footer", "descriptor"].isEmpty || ["footer", "descriptor"].contains "footer") = true := by decide
      simp only [vPost, if_true, Bool.false_eq_true, if_false, List.map_cons, List.map_nil, c1, c2, c3, Bool.false_and,
        Bool.true_and] at hs ⊢
      rw [hs, hf]
  have hne : ((vPost foot (p.length + c.length) hd (sliceOf p 512 dl) dl 1536 [] false dt formatNotFound).regions.filter
        (fun x => ![0, 1].contains x.2.rid)).isEmpty = false := by
    cases foot <;> rfl
  show followUp (7 + 1) _ _ _ = _
  unfold followUp
  simp only [hne, Bool.false_eq_true, if_false, hcap]
  rw [lemma_post_pp foot _ hd _ dl _ _ dt _ H hp hlen hok hds hfoot]
  simp only
  exact lemma_followUp_none 7 _ c _ (by cases foot <;> simp [vPost, vHdrR, vFootR, vDescR])


theorem lemma_vmdk_parse_sliceOf0 (q : Bytes) :
    parseSparseHeader (sliceOf q 0 512) 0 = parseSparseHeader q 0 := by
  have : slice (sliceOf q 0 512) 0 (0 + Gen.vmdkMinSparseHeader) = slice q 0 (0 + Gen.vmdkMinSparseHeader) := by
    simp only [slice, sliceOf, List.drop_zero, List.take_take, Gen.vmdkMinSparseHeader]
    congr 1
  unfold parseSparseHeader
  rw [this]

theorem lemma_vmdk_sliceOf_nil (p : Bytes) (o l : Nat) (h : p.length ≤ o) : sliceOf p o l = [] := by
  simp [sliceOf, List.drop_eq_nil_of_le h]

theorem lemma_post_callbacks_hdr (foot : Bool) (n : Nat) (hd dd : Bytes) (dl fo : Nat) (fd : Bytes) (fin : Bool)
    (dt : Option Bytes) (vt : Bytes) (rest : List String) :
    runCallbacks (vPost foot n hd dd dl fo fd fin dt vt) ("header" :: rest) =
      runCallbacks (vPost foot n hd dd dl fo fd fin dt vt) rest := by
  have hrc : regionComplete (vPost foot n hd dd dl fo fd fin dt vt) "header" =
      (vPost foot n hd dd dl fo fd fin dt vt, none) := by
    simp [regionComplete, vPost]
  simp only [runCallbacks, hrc]

/-- **the `eat_chunk` that completes the header, descriptor at sector 1**: footer region added if
    announced, descriptor region relocated to offset 512, both presented with the current chunk -/
theorem lemma_trans_step_ok (foot : Bool) (p c d0 : Bytes) (dl : Nat) (dt : Option Bytes) (H : SparseHeader)
    (hp64 : p.length < 64) (hq64 : 64 ≤ (p ++ c).length) (hinv : PlainInv (vDesc0R d0) p)
    (hpar : parseSparseHeader (p ++ c) 0 = .ok H) (hok : HdrOK H)
    (hds : H.descSec * 512 = Gen.vmdkDescOffset) (hfoot : foot = decide (H.gdOffset = Gen.vmdkGdAtEnd))
    (hdl : dl = min (H.descNum * 512) Gen.vmdkDescMaxSize) :
    ∃ fo' dt' vt',
      eatChunk (vPre p.length (sliceOf p 0 512) d0 dt) c =
        (vPost foot (p.length + c.length) (sliceOf (p ++ c) 0 512) (sliceOf (p ++ c) 512 dl) dl fo'
          (lastN 1536 c) false dt' vt', none) ∧
      DescSt (sliceOf (p ++ c) 512 dl) dl dt' vt' := by
  obtain ⟨d0', hstep, hinv', _⟩ := lemma_vmdk_step_desc0 p c d0 hinv
  have hhl : 64 ≤ (sliceOf (p ++ c) 0 512).length := by rw [lemma_sliceOf_length]; omega
  have hpar' : parseSparseHeader (sliceOf (p ++ c) 0 512) 0 = .ok H := by rw [lemma_vmdk_parse_sliceOf0]; exact hpar
  have h3 : postProcess (vPre (p.length + c.length) (sliceOf (p ++ c) 0 512) d0' dt) =
      (vPost foot (p.length + c.length) (sliceOf (p ++ c) 0 512) (sliceOf p 512 dl) dl 1536 [] false dt formatNotFound,
        none) := by
    rw [lemma_trans_pp foot _ _ d0' dt H hpar' hhl hok hfoot, lemma_relocate_ok foot _ _ d0' dt _ _ hds,
      lemma_vmdk_sliceOf_nil p 512 dl (by omega), hdl]
  rw [lemma_vmdk_eat_unfold _ c _ _ _ rfl (lemma_pre_capture p c d0 d0' dt hp64 hstep) h3
    (lemma_trans_follow foot _ p c dl dt H hpar' hhl hok hds hfoot)]
  have hc0 : (vHdrR (sliceOf p 0 512)).complete = false := by
    simp [Region.complete, vHdrR, lemma_sliceOf_length]; omega
  have hnames : ((vPost foot (p.length + c.length) (sliceOf (p ++ c) 0 512) (sliceOf (p ++ c) 512 dl) dl
        (p.length + c.length - (lastN 1536 c).length) (lastN 1536 c) false dt formatNotFound).regions.filter
          (fun x => x.2.complete &&
        !(((vPre p.length (sliceOf p 0 512) d0 dt).regions.filter (·.2.complete)).map (·.2.rid)).contains x.2.rid)).map (·.1) =
      "header" :: (if decide (dl = (sliceOf (p ++ c) 512 dl).length) then ["descriptor"] else []) := by
    generalize sliceOf (p ++ c) 512 dl = new
    generalize (lastN 1536 c) = fd'
    generalize p.length + c.length - fd'.length = fo'
    cases foot <;>
    simp only [vPost, vPre, Bool.false_eq_true, if_false, if_true, List.filter_cons, List.filter_nil,
      lemma_vmdk_hdr_complete _ hhl, hc0, lemma_vmdk_foot_complete, lemma_vmdk_desc_complete]
    all_goals
      generalize (vDesc0R d0).complete = b0
      rcases Bool.eq_false_or_eq_true (decide (dl = new.length)) with e2 | e2 <;>
      cases b0 <;> simp [e2, vHdrR, vDescR, vFootR, vDesc0R]
  rw [hnames, lemma_post_callbacks_hdr]
  by_cases h2 : dl = (sliceOf (p ++ c) 512 dl).length
  · rw [decide_eq_true h2, if_pos rfl, lemma_post_callbacks_desc]
    exact ⟨_, _, _, rfl, lemma_descSt_apply _ _ _ h2⟩
  · rw [decide_eq_false h2]
    refine ⟨_, dt, formatNotFound, rfl, ?_⟩
    unfold DescSt
    rw [if_neg h2]

/-- **the `eat_chunk` that completes the header, descriptor not at sector 1**: `post_process` raises
    after the (never fed) footer region was added -/
theorem lemma_trans_step_err (foot : Bool) (p c d0 : Bytes) (dt : Option Bytes) (H : SparseHeader)
    (hp64 : p.length < 64) (hq64 : 64 ≤ (p ++ c).length) (hinv : PlainInv (vDesc0R d0) p)
    (hpar : parseSparseHeader (p ++ c) 0 = .ok H) (hok : HdrOK H)
    (hds : H.descSec * 512 ≠ Gen.vmdkDescOffset) (hfoot : foot = decide (H.gdOffset = Gen.vmdkGdAtEnd)) :
    ∃ d0', eatChunk (vPre p.length (sliceOf p 0 512) d0 dt) c =
        (vErr foot (p.length + c.length) (sliceOf (p ++ c) 0 512) d0' false dt, some .imageFormat) ∧
      (vDesc0R d0').complete = true := by
  obtain ⟨d0', hstep, hinv', _⟩ := lemma_vmdk_step_desc0 p c d0 hinv
  have hhl : 64 ≤ (sliceOf (p ++ c) 0 512).length := by rw [lemma_sliceOf_length]; omega
  have hpar' : parseSparseHeader (sliceOf (p ++ c) 0 512) 0 = .ok H := by rw [lemma_vmdk_parse_sliceOf0]; exact hpar
  have h3 : postProcess (vPre (p.length + c.length) (sliceOf (p ++ c) 0 512) d0' dt) =
      (vErr foot (p.length + c.length) (sliceOf (p ++ c) 0 512) d0' false dt, some .imageFormat) := by
    rw [lemma_trans_pp foot _ _ d0' dt H hpar' hhl hok hfoot, lemma_relocate_err foot _ _ d0' dt _ _ hds]
  refine ⟨d0', lemma_vmdk_eat_unfold_err _ c _ _ _ rfl (lemma_pre_capture p c d0 d0' dt hp64 hstep) h3, ?_⟩
  by_cases hc : (vDesc0R d0').complete = true
  · exact hc
  · have hfull := hinv'.2 (by simpa using hc)
    exfalso
    apply hc
    have hl := congrArg List.length hfull
    rw [lemma_sliceOf_length] at hl
    simp only [vDesc0R] at hl
    have : 4 ≤ d0'.length := by omega
    simp [Region.complete, vDesc0R, this]

end Oslo.Insp
