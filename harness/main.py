import argparse
import importlib
import json
import os
import subprocess
import sys

sys.path.insert(0, os.path.dirname(os.path.abspath(__file__)))
import common  # noqa: E402
import ambient  # noqa: E402


def main():
    ap = argparse.ArgumentParser()
    ap.add_argument('prop')
    ap.add_argument('--tier', default=os.environ.get('VERIF_TIER', 'quick'),
                    choices=['quick', 'thorough'])
    ap.add_argument('--replay')
    ap.add_argument('--ambient')        # child mode: run under one ambient configuration (harness/ambient.py)
    ap.add_argument('--ambient-out')
    args = ap.parse_args()
    try:
        seed = int(os.environ.get('VERIF_SEED', '0'))
    except ValueError:
        seed = 0
    os.chdir(common.VERIF)
    if args.replay and not args.ambient:
        payload = json.load(open(args.replay))
        amb = payload.get('ambient')
        if amb in ambient.CONFIGS:
            # the failing input was found under an ambient configuration: replay it in such an interpreter
            sys.exit(subprocess.call(ambient.child_cmd(args.prop, args.tier, amb, replay=os.path.abspath(args.replay)),
                                     env=ambient.child_env(amb, seed)))
    if args.ambient:
        ambient.pre_import(args.ambient)
    prop = importlib.import_module('props.' + args.prop)
    if args.ambient:
        ambient.post_import(args.ambient)
    if args.replay:
        payload = json.load(open(args.replay))
        ctx = common.Ctx(prop, args.tier, seed)
        ctx.ambient = args.ambient
        ctx.driver = common.Driver(prop.DRIVER)
        sys.exit(prop.replay(ctx, payload) or 0)
    if args.ambient:
        sys.exit(ambient.child_main(common, prop, args.tier, seed, args.ambient, args.ambient_out))
    sys.exit(common.run_check(prop, args.tier, seed))


if __name__ == '__main__':
    try:
        main()
    except SystemExit:
        raise
    except BaseException:
        import traceback
        traceback.print_exc()
        sys.exit(2)
