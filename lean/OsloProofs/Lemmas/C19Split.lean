/-
Helper lemmas for C19 about the model of Python's `str.split(sep, maxsplit)` /
`sep.join` (OsloModel/Split.lean, part 1).  Not property obligations.
-/
import OsloModel.Split
namespace Oslo.Split

theorem consHead_ne_nil (c : Char) (l : List (List Char)) : consHead c l ≠ [] := by
  cases l <;> simp [consHead]

theorem consHead_length (c : Char) (l : List (List Char)) (h : l ≠ []) :
    (consHead c l).length = l.length := by
  cases l with
  | nil => exact absurd rfl h
  | cons a t => simp [consHead]

theorem pySplit_ne_nil (sep : Char) (n : Nat) (s : List Char) : pySplit sep n s ≠ [] := by
  induction s generalizing n with
  | nil => simp [pySplit]
  | cons c r ih =>
    cases n with
    | zero => simp [pySplit]
    | succ n =>
      simp only [pySplit]; split
      · simp
      · exact consHead_ne_nil _ _

theorem splitAll_ne_nil (sep : Char) (s : List Char) : splitAll sep s ≠ [] := by
  induction s with
  | nil => simp [splitAll]
  | cons c r ih =>
    simp only [splitAll]; split
    · simp
    · exact consHead_ne_nil _ _

theorem splitAll_length_pos (sep : Char) (s : List Char) : 0 < (splitAll sep s).length :=
  List.length_pos_iff.mpr (splitAll_ne_nil sep s)

theorem joinSep_consHead (sep c : Char) (l : List (List Char)) (h : l ≠ []) :
    joinSep sep (consHead c l) = c :: joinSep sep l := by
  match l, h with
  | [a], _ => simp [consHead, joinSep]
  | a :: b :: t, _ => simp [consHead, joinSep]

theorem joinSep_cons (sep : Char) (a : List Char) (l : List (List Char)) (h : l ≠ []) :
    joinSep sep (a :: l) = a ++ sep :: joinSep sep l := by
  cases l with
  | nil => exact absurd rfl h
  | cons b t => simp [joinSep]

/-- `sep.join(s.split(sep, n)) == s` -/
theorem joinSep_pySplit (sep : Char) (n : Nat) (s : List Char) :
    joinSep sep (pySplit sep n s) = s := by
  induction s generalizing n with
  | nil => simp [pySplit, joinSep]
  | cons c r ih =>
    cases n with
    | zero => simp [pySplit, joinSep]
    | succ n =>
      simp only [pySplit]; split
      · rename_i h; rw [joinSep_cons _ _ _ (pySplit_ne_nil _ _ _), ih]; simp [h]
      · rw [joinSep_consHead _ _ _ (pySplit_ne_nil _ _ _), ih]

/-- `sep.join(s.split(sep)) == s` -/
theorem joinSep_splitAll (sep : Char) (s : List Char) : joinSep sep (splitAll sep s) = s := by
  induction s with
  | nil => simp [splitAll, joinSep]
  | cons c r ih =>
    simp only [splitAll]; split
    · rename_i h; rw [joinSep_cons _ _ _ (splitAll_ne_nil _ _), ih]; simp [h]
    · rw [joinSep_consHead _ _ _ (splitAll_ne_nil _ _), ih]

/-- at most `maxsplit + 1` pieces -/
theorem pySplit_length_le (sep : Char) (n : Nat) (s : List Char) :
    (pySplit sep n s).length ≤ n + 1 := by
  induction s generalizing n with
  | nil => simp [pySplit]
  | cons c r ih =>
    cases n with
    | zero => simp [pySplit]
    | succ n =>
      simp only [pySplit]; split
      · have := ih n; simp; omega
      · rw [consHead_length _ _ (pySplit_ne_nil _ _ _)]; exact ih (n + 1)

/-- no piece of the unlimited split contains the separator -/
theorem splitAll_no_sep (sep : Char) (s : List Char) : ∀ p ∈ splitAll sep s, sep ∉ p := by
  induction s with
  | nil => simp [splitAll]
  | cons c r ih =>
    simp only [splitAll]; split
    · intro p hp; simp at hp; rcases hp with rfl | hp
      · simp
      · exact ih p hp
    · rename_i hc
      cases hl : splitAll sep r with
      | nil => exact absurd hl (splitAll_ne_nil _ _)
      | cons a t =>
        rw [hl] at ih
        intro p hp; simp [consHead] at hp; rcases hp with rfl | hp
        · have := ih a (by simp)
          simp; exact ⟨fun h => hc h.symm, this⟩
        · exact ih p (by simp [hp])

theorem joinSep_mem_sep (sep : Char) (a b : List Char) (t : List (List Char)) :
    sep ∈ joinSep sep (a :: b :: t) := by
  simp [joinSep]

theorem joinSep_two_ne_nil (sep : Char) (l : List (List Char)) (h : 2 ≤ l.length) :
    joinSep sep l ≠ [] := by
  match l, h with
  | a :: b :: t, _ => simp [joinSep]

/-- the limited split is the unlimited one when that has at most `n + 1` pieces … -/
theorem pySplit_eq_splitAll (sep : Char) (n : Nat) (s : List Char)
    (h : (splitAll sep s).length ≤ n + 1) : pySplit sep n s = splitAll sep s := by
  induction s generalizing n with
  | nil => simp [pySplit, splitAll]
  | cons c r ih =>
    cases n with
    | zero =>
      simp only [pySplit]
      have hj := joinSep_splitAll sep (c :: r)
      match hl : splitAll sep (c :: r), h with
      | [a], _ => rw [hl] at hj; simp [joinSep] at hj; simp [hj]
      | [], _ => exact absurd hl (splitAll_ne_nil _ _)
      | a :: b :: t, h => simp at h
    | succ n =>
      simp only [pySplit, splitAll] at h ⊢; split
      · rename_i hc; simp only [hc, if_true, List.length_cons] at h
        rw [ih n (by omega)]
      · rename_i hc; simp only [hc, if_false] at h
        rw [consHead_length _ _ (splitAll_ne_nil _ _)] at h
        rw [ih (n + 1) h]

theorem take_consHead (c : Char) (l : List (List Char)) (n : Nat) (h : l ≠ []) :
    (consHead c l).take (n + 1) = consHead c (l.take (n + 1)) := by
  cases l with
  | nil => exact absurd rfl h
  | cons a t => simp [consHead]

theorem drop_consHead (c : Char) (l : List (List Char)) (n : Nat) (h : l ≠ []) :
    (consHead c l).drop (n + 1) = l.drop (n + 1) := by
  cases l with
  | nil => exact absurd rfl h
  | cons a t => simp [consHead]

theorem consHead_append (c : Char) (l m : List (List Char)) (h : l ≠ []) :
    consHead c (l ++ m) = consHead c l ++ m := by
  cases l with
  | nil => exact absurd rfl h
  | cons a t => simp [consHead]

/-- … and otherwise its first `n` pieces followed by the unsplit remainder -/
theorem pySplit_eq_fold (sep : Char) (n : Nat) (s : List Char)
    (h : n < (splitAll sep s).length) :
    pySplit sep n s =
      (splitAll sep s).take n ++ [joinSep sep ((splitAll sep s).drop n)] := by
  induction s generalizing n with
  | nil =>
    simp [splitAll] at h; subst h; simp [pySplit, splitAll, joinSep]
  | cons c r ih =>
    cases n with
    | zero => simp [pySplit, joinSep_splitAll]
    | succ n =>
      simp only [pySplit, splitAll] at h ⊢; split
      · rename_i hc; simp only [hc, if_true, List.length_cons] at h
        rw [ih n (by omega)]; simp
      · rename_i hc; simp only [hc, if_false] at h
        have hne := splitAll_ne_nil sep r
        rw [consHead_length _ _ hne] at h
        rw [ih (n + 1) h, take_consHead _ _ _ hne, drop_consHead _ _ _ hne]
        rw [consHead_append]
        cases hl : splitAll sep r with
        | nil => exact absurd hl hne
        | cons a t => simp

/-- head of a split: empty exactly when the string is empty or starts with the separator -/
theorem pySplit_head_cons (sep : Char) (n : Nat) (c : Char) (r : List Char) (hc : c ≠ sep) :
    ∃ h t, pySplit sep n (c :: r) = (c :: h) :: t := by
  cases n with
  | zero => exact ⟨r, [], by simp [pySplit]⟩
  | succ n =>
    simp only [pySplit, hc, if_false]
    cases hl : pySplit sep (n + 1) r with
    | nil => exact absurd hl (pySplit_ne_nil _ _ _)
    | cons a t => exact ⟨a, t, by simp [consHead]⟩

/-- a trailing separator adds one empty piece -/
theorem splitAll_append_sep (sep : Char) (s : List Char) :
    splitAll sep (s ++ [sep]) = splitAll sep s ++ [[]] := by
  induction s with
  | nil => simp [splitAll]
  | cons c r ih =>
    simp only [List.cons_append, splitAll]; split
    · rw [ih]; simp
    · rw [ih, consHead_append _ _ _ (splitAll_ne_nil _ _)]

/-! ### split_path: the model's pieces against the spec's segments -/

/-- with `rest_with_last` the pieces after the leading slash are the spec's segments -/
theorem lemma_segs_rwl (rest : List Char) (m : Nat) (hm : 1 ≤ m) :
    specSegs (splitAll '/' rest) m true = some (pySplit '/' (m - 1) rest) := by
  unfold specSegs
  simp only [if_true]
  split
  · rename_i h
    rw [pySplit_eq_fold '/' (m - 1) rest (by omega)]
  · rename_i h
    rw [pySplit_eq_splitAll '/' (m - 1) rest (by omega)]

/-- without it: all pieces if there are at most `m`; one empty piece at position `m+1` is dropped;
    anything else (a non-empty piece there, or an unsplit remainder) is rejected -/
theorem lemma_segs_norwl (rest : List Char) (m : Nat) :
    specSegs (splitAll '/' rest) m false =
      if (pySplit '/' m rest).length ≤ m then some (pySplit '/' m rest)
      else if (pySplit '/' m rest)[m]? = some [] then some ((pySplit '/' m rest).take m) else none := by
  unfold specSegs
  simp only [Bool.false_eq_true, if_false]
  by_cases ha : (splitAll '/' rest).length ≤ m + 1
  · rw [pySplit_eq_splitAll '/' m rest ha]
    by_cases hb : (splitAll '/' rest).length ≤ m
    · simp [hb]
    · have he : (splitAll '/' rest).length = m + 1 := by omega
      simp only [he, true_and]
      rw [List.getLast?_eq_getElem?, he]; simp
  · have hf := pySplit_eq_fold '/' m rest (by omega)
    have hj : joinSep '/' ((splitAll '/' rest).drop m) ≠ [] :=
      joinSep_two_ne_nil _ _ (by simp; omega)
    have hl : (pySplit '/' m rest).length = m + 1 := by
      rw [hf]; simp; omega
    have hg : (pySplit '/' m rest)[m]? = some (joinSep '/' ((splitAll '/' rest).drop m)) := by
      rw [hf]; rw [List.getElem?_append_right (by simp; omega)]; simp
      have : min m (splitAll '/' rest).length = m := by omega
      simp [this]
    rw [if_neg (by omega), if_neg (by omega), if_neg (by omega), hg, if_neg (by simpa using hj)]

theorem lemma_slice_cons {α} (a : α) (l : List α) (n : Nat) : slice (a :: l) 1 (n + 1) = l.take n := by
  simp [slice]

theorem lemma_finish (P : List (List Char)) (m : Nat) :
    finish ([] :: P) (m + 1) = (P.take m).map some ++ List.replicate (m - (P.take m).length) none := by
  simp [finish, lemma_slice_cons]

theorem joinSep_append_nil (sep : Char) (l : List (List Char)) (h : l ≠ []) :
    joinSep sep (l ++ [[]]) = joinSep sep l ++ [sep] := by
  induction l with
  | nil => exact absurd rfl h
  | cons a t ih =>
    cases t with
    | nil => simp [joinSep]
    | cons b t =>
      have := ih (by simp)
      simp only [List.cons_append] at this ⊢
      simp [joinSep, this]

theorem finish_length (segs : List (List Char)) (M : Nat) : (finish segs M).length = M - 1 := by
  simp [finish, slice]; omega

/-- what `specSegs` yields -/
theorem specSegs_facts (rest : List Char) (m : Nat) (rwl : Bool) (segs : List (List Char)) (hm : 1 ≤ m)
    (h : specSegs (splitAll '/' rest) m rwl = some segs) :
    segs.length ≤ m ∧
    (joinSep '/' segs = rest ∨ (rwl = false ∧ segs.length = m ∧ joinSep '/' segs ++ ['/'] = rest)) ∧
    (∀ s ∈ segs.take (if rwl then m - 1 else m), '/' ∉ s) := by
  have hns := splitAll_no_sep '/' rest
  cases rwl with
  | true =>
    have h2 := lemma_segs_rwl rest m hm
    rw [h] at h2; simp only [Option.some.injEq] at h2
    refine ⟨?_, Or.inl ?_, ?_⟩
    · rw [h2]; have := pySplit_length_le '/' (m - 1) rest; omega
    · rw [h2]; exact joinSep_pySplit _ _ _
    · simp only [if_true]
      unfold specSegs at h; simp only [if_true] at h
      split at h
      · rename_i hl
        simp only [Option.some.injEq] at h; subst h
        intro s hs
        rw [List.take_append_of_le_length (by simp; omega)] at hs
        exact hns s (List.mem_of_mem_take (List.mem_of_mem_take hs))
      · simp only [Option.some.injEq] at h; subst h
        intro s hs; exact hns s (List.mem_of_mem_take hs)
  | false =>
    simp only [Bool.false_eq_true, if_false]
    unfold specSegs at h; simp only [Bool.false_eq_true, if_false] at h
    split at h
    · rename_i hl
      simp only [Option.some.injEq] at h; subst h
      exact ⟨hl, Or.inl (joinSep_splitAll _ _), fun s hs => hns s (List.mem_of_mem_take hs)⟩
    · split at h
      · rename_i hl
        simp only [Option.some.injEq] at h; subst h
        obtain ⟨hl1, hl2⟩ := hl
        have hne : (splitAll '/' rest).take m ≠ [] := by
          intro hh; rw [List.take_eq_nil_iff] at hh; rcases hh with hh | hh
          · omega
          · exact splitAll_ne_nil _ _ hh
        have hsplit : splitAll '/' rest = (splitAll '/' rest).take m ++ [[]] := by
          have h3 := List.take_append_drop m (splitAll '/' rest)
          have h4 : (splitAll '/' rest).drop m = [[]] := by
            have hlen : ((splitAll '/' rest).drop m).length = 1 := by simp; omega
            match hd : (splitAll '/' rest).drop m, hlen with
            | [x], _ =>
              have : (splitAll '/' rest).getLast? = some x := by
                rw [← h3, hd]; simp
              rw [this] at hl2; simp at hl2; simp [hl2]
          rw [h4] at h3; exact h3.symm
        refine ⟨by simp; omega, Or.inr ⟨trivial, by simp; omega, ?_⟩, fun s hs => hns s (List.mem_of_mem_take (List.mem_of_mem_take hs))⟩
        rw [← joinSep_append_nil _ _ hne, ← hsplit]; exact joinSep_splitAll _ _
      · simp at h
end Oslo.Split
