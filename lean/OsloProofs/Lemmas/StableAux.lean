/-
Post-processing looks only at an inspector's format, region table, identity counter and check
list: changing `total`, `qcowInfo`, `descText` or `vmdkType` commutes with it.
-/
import OsloModel.Inspector
namespace Oslo.Insp

/-- overwrite the fields post-processing never reads -/
def Insp.setAux (s : Insp) (t : Nat) (q : Option QcowInfo) (d : Option Bytes) (v : Bytes) : Insp :=
  { s with total := t, qcowInfo := q, descText := d, vmdkType := v }

theorem lemma_setAux_self (s : Insp) : s.setAux s.total s.qcowInfo s.descText s.vmdkType = s := rfl

theorem lemma_setAux_newRegion (s : Insp) (t : Nat) (q : Option QcowInfo) (d : Option Bytes) (v : Bytes)
    (n : String) (off len : Nat) (ml : Option Nat) (e : Bool) :
    (s.setAux t q d v).newRegion n off len ml e =
      match s.newRegion n off len ml e with
      | .error x => .error x
      | .ok s' => .ok (s'.setAux t q d v) := by
  unfold Insp.newRegion
  have : (s.setAux t q d v).hasRegion n = s.hasRegion n := rfl
  rw [this]
  split <;> rfl

theorem lemma_setAux_deleteRegion (s : Insp) (t : Nat) (q : Option QcowInfo) (d : Option Bytes) (v : Bytes)
    (n : String) :
    (s.setAux t q d v).deleteRegion n =
      match s.deleteRegion n with
      | .error x => .error x
      | .ok s' => .ok (s'.setAux t q d v) := by
  unfold Insp.deleteRegion
  have : (s.setAux t q d v).hasRegion n = s.hasRegion n := rfl
  rw [this]
  split <;> rfl

theorem lemma_setAux_vhdxAddVds (s : Insp) (t : Nat) (q : Option QcowInfo) (d : Option Bytes) (v : Bytes)
    (m : Region) (io il : Nat) :
    vhdxAddVds (s.setAux t q d v) m io il =
      ((vhdxAddVds s m io il).1.setAux t q d v, (vhdxAddVds s m io il).2) := by
  unfold vhdxAddVds
  have e : (s.setAux t q d v).updRegion "metadata" (fun r => { r with length := r.data.length }) =
      (s.updRegion "metadata" (fun r => { r with length := r.data.length })).setAux t q d v := rfl
  rw [e, lemma_setAux_newRegion]
  cases (s.updRegion "metadata" (fun r => { r with length := r.data.length })).newRegion "vds"
      (m.offset + io) (min il Gen.vhdxMetaTableMax) none false <;> rfl

theorem lemma_setAux_vhdxPP (s : Insp) (t : Nat) (q : Option QcowInfo) (d : Option Bytes) (v : Bytes) :
    vhdxPostProcess (s.setAux t q d v) =
      ((vhdxPostProcess s).1.setAux t q d v, (vhdxPostProcess s).2) := by
  unfold vhdxPostProcess
  have e1 : ∀ n, (s.setAux t q d v).region n = s.region n := fun _ => rfl
  have e2 : ∀ n, (s.setAux t q d v).hasRegion n = s.hasRegion n := fun _ => rfl
  have e3 : vhdxFindMetaRegion (s.setAux t q d v) = vhdxFindMetaRegion s := rfl
  have e4 : vhdxFindMetaEntry (s.setAux t q d v) = vhdxFindMetaEntry s := rfl
  simp only [e1, e2, e3, e4, lemma_setAux_newRegion, lemma_setAux_vhdxAddVds]
  cases s.region "header" with
  | error e => rfl
  | ok h =>
    dsimp only
    split
    · cases vhdxFindMetaRegion s with
      | error e => rfl
      | ok o =>
        cases o with
        | none => rfl
        | some off =>
          dsimp only
          cases s.newRegion "metadata" off (2048 * 32) none false <;> rfl
    · split
      · cases vhdxFindMetaEntry s with
        | error e => rfl
        | ok o =>
          cases o with
          | none => rfl
          | some pr =>
            obtain ⟨io, il⟩ := pr
            dsimp only
            cases s.region "metadata" <;> rfl
      · rfl

theorem lemma_setAux_vmdkAddFooter (s : Insp) (t : Nat) (q : Option QcowInfo) (d : Option Bytes) (v : Bytes)
    (g : Nat) :
    vmdkAddFooter (s.setAux t q d v) g =
      match vmdkAddFooter s g with
      | .error x => .error x
      | .ok s' => .ok (s'.setAux t q d v) := by
  unfold vmdkAddFooter
  have e2 : ∀ n, (s.setAux t q d v).hasRegion n = s.hasRegion n := fun _ => rfl
  simp only [e2, lemma_setAux_newRegion]
  split
  · cases s.newRegion "footer" 1536 1536 none true with
    | error e => rfl
    | ok s' =>
      dsimp only
      have : (s'.setAux t q d v).checks = s'.checks := rfl
      rw [this]
      split <;> rfl
  · rfl

theorem lemma_setAux_vmdkRelocate (s : Insp) (t : Nat) (q : Option QcowInfo) (d : Option Bytes) (v : Bytes)
    (a b : Nat) :
    vmdkRelocate (s.setAux t q d v) a b =
      ((vmdkRelocate s a b).1.setAux t q d v, (vmdkRelocate s a b).2) := by
  unfold vmdkRelocate
  have e1 : ∀ n, (s.setAux t q d v).region n = s.region n := fun _ => rfl
  simp only [e1, lemma_setAux_deleteRegion]
  split
  · rfl
  · cases s.region "descriptor" with
    | error e => rfl
    | ok dr =>
      dsimp only
      split
      · cases s.deleteRegion "descriptor" with
        | error e => rfl
        | ok s2 =>
          dsimp only
          rw [lemma_setAux_newRegion]
          cases s2.newRegion "descriptor" (a * 512) (min (b * 512) Gen.vmdkDescMaxSize) none false <;> rfl
      · rfl

theorem lemma_setAux_vmdkPP (s : Insp) (t : Nat) (q : Option QcowInfo) (d : Option Bytes) (v : Bytes) :
    vmdkPostProcess (s.setAux t q d v) =
      ((vmdkPostProcess s).1.setAux t q d v, (vmdkPostProcess s).2) := by
  unfold vmdkPostProcess
  have e0 : (s.setAux t q d v).regions = s.regions := rfl
  simp only [e0, lemma_setAux_deleteRegion, lemma_setAux_vmdkAddFooter]
  cases lookupR "header" s.regions with
  | none => rfl
  | some h =>
    dsimp only
    split
    · rfl
    · cases parseSparseHeader h.data 0 with
      | error e => rfl
      | ok hd =>
        dsimp only
        split
        · split
          · cases s.deleteRegion "header" <;> rfl
          · rfl
        · split
          · rfl
          · cases vmdkAddFooter s hd.gdOffset with
            | error e => rfl
            | ok s1 =>
              dsimp only
              rw [lemma_setAux_vmdkRelocate]

/-- post-processing commutes with changing the fields it never reads -/
theorem lemma_setAux_postProcess (s : Insp) (t : Nat) (q : Option QcowInfo) (d : Option Bytes) (v : Bytes) :
    postProcess (s.setAux t q d v) = ((postProcess s).1.setAux t q d v, (postProcess s).2) := by
  unfold postProcess
  have e : (s.setAux t q d v).fmt = s.fmt := rfl
  rw [e]
  split
  · exact lemma_setAux_vhdxPP s t q d v
  · exact lemma_setAux_vmdkPP s t q d v
  · rfl

/-- a fixpoint of post-processing stays one when the unread fields change -/
theorem lemma_setAux_fix (s : Insp) (t : Nat) (q : Option QcowInfo) (d : Option Bytes) (v : Bytes)
    (h : postProcess s = (s, none)) :
    postProcess (s.setAux t q d v) = (s.setAux t q d v, none) := by
  rw [lemma_setAux_postProcess, h]

end Oslo.Insp
