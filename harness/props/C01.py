"""C01 - the inspection verdict depends on the bytes only, never on the chunking; whatever is
retained for a region is exactly the stream's bytes at that region's offsets."""
import json
import time

import common
import gen_insp
import images
import insp_gen as G
import insp_impl
from common import Disagreement, Failure

ID = 'C01'
DRIVER = 'drv_insp'
DRIVER_ROOT = 'Drivers.Insp'
PROOF_MODULES = ['OsloProofs.Props.C01', 'OsloProofs.Props.C01Slice', 'OsloProofs.Props.C01Vmdk', 'OsloProofs.Props.C01Vhdx', 'OsloProofs.Props.C01Wrap', 'OsloProofs.Props.C01WrapExp', 'OsloProofs.Props.C01Locality']
LEVEL = 'proof'
RULE = ('(format, bytes, chunking) triples: bytes are well-formed images of the ten layouts, field-mutated, truncated at '
        'and +-1 around every structure boundary, extended, pairwise polyglots, unstructured bytes and text, plus a '
        'deliberate minority inside each known-finding class; chunkings are one chunk, fixed sizes, a cut at -1/0/+1 of '
        'every boundary, pairs of such cuts, random compositions, empty chunks; the capture engine alone is run on every '
        'stream up to length 8 (quick) / 10 (thorough) over {0,1} x every one of its 2^(n-1) chunkings x a family of '
        'regions.  A case is non-trivial when the stream is cut into at least two non-empty chunks and at least one '
        'region holds bytes at the end (engine cases: the region retains at least one byte and the stream has at least '
        'two chunks); distinct by (kind, format, bytes, chunk sizes).')
TRUSTED_BASE = [
    'Lean 4 kernel; axioms audited per theorem (subset of propext, Classical.choice, Quot.sound)',
    'hand-written model OsloModel/Capture.lean, Inspector.lean, Wrapper.lean, tied to format_inspector.py by this '
    'correspondence (per-chunk region tables with adler32 of the retained bytes on small streams, final state and '
    'verdict on large ones)',
    'translator harness/gen_insp.py (initial regions, registered checks, class constants, ALL_FORMATS order)',
    'CPython bytes slicing / struct.unpack / str methods as re-implemented in the model',
]
UNMODELLED = ['the order in which eat_chunk iterates the *set* of newly complete regions (only one callback per format '
              'has an effect, so the order is immaterial on this tree)',
              'logging side effects; tracing=True']
ASSUMPTIONS = ['an inspector whose eat_chunk raised is not fed again (InspectWrapper discipline); finish() is called once '
               'after the last chunk']

BUDGET = {'quick': dict(pair=5_000_000, total=800_000_000), 'thorough': dict(pair=60_000_000, total=9_000_000_000)}


def generate():
    gen_insp.generate()


# --------------------------------------------------------------------------
# the capture engine alone

def region_family():
    fam = []
    for off, ln in ((0, 0), (0, 1), (0, 3), (0, 8), (1, 1), (1, 2), (2, 3), (3, 1), (3, 4), (5, 2), (7, 1), (7, 3), (9, 2), (2, 0)):
        fam.append((off, ln, None, False))
    for off, ln, ml in ((0, 8, 2), (0, 8, 4), (1, 4, 1), (2, 3, 3), (0, 3, 0), (3, 4, 2), (2, 2, 5)):
        fam.append((off, ln, ml, False))
    for k in (1, 2, 3, 5, 0):
        fam.append((k, k, None, True))
    return fam


_COMP = {}


def compositions(n):
    """all 2^(n-1) compositions of n (n = 0: the single empty chunk list)"""
    if n not in _COMP:
        if n == 0:
            _COMP[n] = [[]]
        else:
            out = []
            for mask in range(1 << (n - 1)):
                sizes, last = [], 0
                for i in range(1, n):
                    if mask >> (i - 1) & 1:
                        sizes.append(i - last)
                        last = i
                sizes.append(n - last)
                out.append(sizes)
            _COMP[n] = out
    return _COMP[n]


def engine_impl(F, off, ln, ml, is_end, data, sizes):
    """the real CaptureRegion / EndCaptureRegion under FileInspector._capture's skip-when-complete rule"""
    r = F.EndCaptureRegion(ln) if is_end else F.CaptureRegion(off, ln, ml)
    pos = 0
    for s in sizes:
        chunk = data[pos:pos + s]
        pos += s
        if is_end or not r.complete:
            r.capture(chunk, pos)
    if is_end:
        r.finish()
    return r


def engine_show(r):
    return '%d:%d:%s:%d' % (r.offset, r.length, common.hexb(bytes(r.data)), 1 if r.complete else 0)


def engine_oracle(off, ln, ml, is_end, data, r, nchunks=1):
    """the direct statement for a region present from the start; returns a description or None"""
    n = len(data)
    got = bytes(r.data)
    if is_end:
        if ln == 0:
            return None        # data[0 - 0:] keeps everything: a Python quirk no inspector relies on (model follows it)
        want = data[max(0, n - ln):]
        if got != want:
            return 'end region keeps %r, the last %d bytes are %r' % (got, ln, want)
        if nchunks and r.offset != n - len(got):      # the offset is set by the first capture() call
            return 'end region offset %d, expected %d' % (r.offset, n - len(got))
        if bool(r.complete) != (ln <= n):
            return 'end region complete=%s with %d of %d bytes after finish' % (r.complete, len(got), ln)
        return None
    if got != data[off:off + len(got)]:
        return 'retained %r is not stream[%d:%d] = %r' % (got, off, off + len(got), data[off:off + len(got)])
    if len(got) > ln:
        return 'retained %d bytes for a region of length %d' % (len(got), ln)
    avail = len(data[off:off + ln])
    if ml is None:
        if got != data[off:off + ln]:
            return 'retained %r, stream[%d:%d] is %r' % (got, off, off + ln, data[off:off + ln])
    elif bool(r.complete) != (ml <= avail):
        return 'min_length region complete=%s, %d of the %d needed bytes are in the stream' % (r.complete, avail, ml)
    return None


def engine_cases(maxn):
    for n in range(0, maxn + 1):
        for bits in range(1 << n):
            data = bytes((bits >> i) & 1 for i in range(n))
            yield n, data


ENGINE_WORKERS = 6


def engine_job(job):
    """one slice of the exhaustive engine run (streams whose index is j modulo J), in a worker
    process: 'corr' compares the real region with the model's, 'search' applies the direct oracle"""
    maxn, j, J, what, exe = job
    F = insp_impl.fi()
    fam = region_family()
    driver = common.Driver(exe) if what == 'corr' else None
    lines, metas, bad = [], [], []
    evals = nontriv = 0

    def flush():
        for (spec, data, sizes, impl), rep in zip(metas, driver.ask_many(lines)):
            if impl != rep and len(bad) < 10:
                bad.append((spec, data, sizes, impl, rep))
        del lines[:], metas[:]
    for idx, (n, data) in enumerate(engine_cases(maxn)):
        if idx % J != j:
            continue
        field = common.hexb(data)
        for sizes in compositions(n):
            sf = G.sizes_field(sizes)
            for spec in fam:
                off, ln, ml, is_end = spec
                r = engine_impl(F, off, ln, ml, is_end, data, sizes)
                evals += 1
                if r.data and len(sizes) >= 2:
                    nontriv += 1
                if what == 'corr':
                    lines.append(common.req('region', off, ln, 'N' if ml is None else ml, 1 if is_end else 0, field, sf))
                    metas.append((spec, data, sizes, engine_show(r)))
                else:
                    why = engine_oracle(off, ln, ml, is_end, data, r, len(sizes))
                    if why and len(bad) < 10:
                        bad.append((spec, data, sizes, why, None))
        if len(lines) >= 200000:
            flush()
    if lines:
        flush()
    return evals, nontriv, bad


def engine_run(ctx, maxn, what):
    import multiprocessing
    J = ENGINE_WORKERS * 4
    jobs = [(maxn, j, J, what, DRIVER) for j in range(J)]
    with multiprocessing.get_context('fork').Pool(2 if G.ambient(ctx) else ENGINE_WORKERS) as pool:
        res = pool.map(engine_job, jobs, chunksize=1)
    bad = []
    for evals, nontriv, b in res:
        base = len(ctx.distinct)
        ctx.evaluations += evals
        # every engine case is distinct by construction (region, stream, composition)
        ctx.distinct.update(('engine', what, base + k) for k in range(nontriv))
        bad += b
    return bad


def engine_correspondence(ctx, maxn):
    e0 = ctx.evaluations
    out = [Disagreement({'kind': 'region', 'region': list(spec), 'content': common.hexb(data), 'sizes': sizes}, impl, rep)
           for spec, data, sizes, impl, rep in engine_run(ctx, maxn, 'corr')[:20]]
    ctx.count('corr/region/engine-exhaustive-n<=%d' % maxn, ctx.evaluations - e0)
    return out


def engine_search(ctx, maxn, extra=()):
    F = insp_impl.fi()
    fails = []
    for c in extra:
        off, ln, ml, is_end = c['region']
        data, sizes = common.unhexb(c['content']), list(c['sizes'])
        why = engine_oracle(off, ln, ml, is_end, data, engine_impl(F, off, ln, ml, is_end, data, sizes), len(sizes))
        ctx.evaluations += 1
        if why:
            fails.append(engine_failure((off, ln, ml, is_end), data, sizes, why))
    e0 = ctx.evaluations
    for spec, data, sizes, why, _ in engine_run(ctx, maxn, 'search'):
        fails.append(engine_failure(spec, data, sizes, why))
    ctx.count('search/region/engine-exhaustive-n<=%d' % maxn, ctx.evaluations - e0)
    fails.sort(key=lambda f: (len(f.case['content']), len(f.case['sizes'])))
    return fails[:3]


def engine_failure(spec, data, sizes, why):
    off, ln, ml, is_end = spec
    return Failure({'kind': 'region', 'region': [off, ln, ml, is_end], 'content': common.hexb(data), 'sizes': list(sizes)},
                   {'kind': 'capture-engine', 'what': why})


# --------------------------------------------------------------------------
# image streams

def image_stream(ctx, rng, for_search=False):
    """the generated (format, bytes) pairs: mostly inside the hypotheses of the theorems, plus a
    deliberate minority inside each known-finding class"""
    quick = ctx.quick
    imgs = []
    for fmt in G.FORMATS:
        heavy = fmt in ('vhdx',)
        for k in range(1 if (quick and heavy) else 2):
            w = G.wellformed(fmt, rng, big=(not quick and k == 1 and rng.random() < 0.3))
            imgs.append(w)
            tr = G.truncations(w, rng, limit=(4 if heavy else 8) if quick else (12 if heavy else None))
            imgs += tr
            imgs.append(G.extended(w, rng))
        muts = G.mutated(fmt, rng, count=(6 if heavy else 10) if quick else None)
        imgs += muts
        for m in rng.sample(muts, min(len(muts), 2 if quick else 6)):
            imgs += G.truncations(m, rng, limit=3)
    imgs += G.polyglots(rng, 6 if quick else 30)
    imgs += G.unstructured(rng, 30 if quick else 150)
    imgs += G.unstructured(rng, 3 if quick else 10, fmts=['vmdk', 'qcow2', 'gpt'])
    imgs += G.known_class_images(rng, per_class=1 if quick else 3)
    return imgs


def pairs_for(ctx, img, rng, budget, spent, wrap=False):
    """the chunkings of one image that fit the model budget"""
    n = len(img.data)
    quick = ctx.quick
    small = (1, 3, 17, 64, 100) if n <= 4096 else ((17, 64, 100) if n <= 40 * G.K else ())
    fam = G.chunk_family(n, img.bounds, rng, pairs='sample' if (quick or n > 4096) else 'all', small=small)
    fmt = 'wrap' if wrap else img.fmt
    mo = img.params.get('meta_off') if isinstance(img.params.get('meta_off'), int) else None
    kept, skipped = G.select(fmt, n, fam, budget['pair'], mo)
    if skipped:
        ctx.count('chunkings-skipped-for-model-cost', skipped)
    if quick and len(kept) > 20:
        head = [k for k in kept if k[0] in ('one', 'fixed512', 'fixed1', 'fixed17', 'empties')]
        rest = [k for k in kept if k not in head]
        kept = head + rng.sample(rest, max(0, 20 - len(head)))
    out = []
    for tag, sizes in kept:
        c = G.model_cost(fmt, n, sizes, mo)
        if spent[0] + c > budget['total']:
            ctx.count('chunkings-skipped-for-total-budget')
            continue
        spent[0] += c
        trace = (not wrap) and n <= 4096 and len(sizes) <= 1500
        if wrap:
            allowed, expected = wrapper_args(img, rng)
            pr = G.Pair(img, sizes, tag, kind='wrap', allowed=allowed, expected=expected)
            if 2 <= len(sizes) <= 400 and rng.random() < 0.5:
                # another consumption protocol / call form of the same reads (iteration with break + resume,
                # next(iter(w)), iter() twice, read(size=), read(-1), close() twice, deepcopy of the half-used wrapper ...)
                pr.drive, pr.k, pr.form = rng.choice(G.WRAPPER_DRIVES), rng.randrange(1, len(sizes)), rng.randrange(64)
            out.append(pr)
        else:
            feed, ctor = G.pick_presentation(img.fmt, rng)
            out.append(G.Pair(img, sizes, tag, trace=trace, poke=rng.random() < 0.5, feed=feed, ctor=ctor))
    return out


def wrapper_args(img, rng, p_plain=0.4):
    """(allowed_formats, expected_format) for an InspectWrapper run: the defaults, or the image's own
    format / the formats of a polyglot / a random format as expected_format, with all formats or a subset"""
    if rng.random() < p_plain:
        return None, None
    names = [img.fmt]
    if img.tag.startswith('poly/'):
        names = img.tag.split('/')[1].split(' ')[0].split('+')
    expected = rng.choice(names + names + [rng.choice(G.FORMATS), None])
    allowed = None
    if rng.random() < 0.3:
        allowed = sorted(set(names + ([expected] if expected else []) + rng.sample(G.FORMATS, rng.randrange(0, 4))),
                         key=G.FORMATS.index)
    return allowed, expected


FIRST_CHUNKS = (1, 3, 4, 17, 63, 64, 100, 107, 108, 109, 200)


def small_first_chunk_cases(rng):
    """every format's clean image with a small first chunk (1..200 bytes: less than any header structure, and at
    -1/0/+1 of the LUKS header fields read by virtual_size) followed by 512-byte blocks - never thinned out: run
    in every ambient child, directly and through InspectWrapper"""
    out = []
    for fmt in G.FORMATS:
        data, bounds = G.clean_small(fmt)
        if fmt == 'raw':
            data = bytes(700)
        img = G.Img(fmt, data, bounds, 'wf/%s/clean' % fmt)
        n = len(data)
        firsts = FIRST_CHUNKS if n <= 64 * G.K else sorted(rng.sample(FIRST_CHUNKS, 3))
        fam = [('first%d' % c, [c] + G.fixed(n - c, 512)) for c in firsts if c < n]
        fam.append(('first%d+%d' % (firsts[0], firsts[1]), [firsts[0], firsts[1]] + G.fixed(n - firsts[0] - firsts[1], 512)))
        out.append((img, fam))
    return out


def correspondence(ctx):
    rng = ctx.rng
    budget = dict(BUDGET['quick' if ctx.quick else 'thorough'])
    budget['total'] = G.scale(ctx, budget['total'])
    # ambient children: about a quarter of the work, every generator family and format kept (insp_gen.thin)
    out = engine_correspondence(ctx, (8 if ctx.quick else 10) - (1 if G.ambient(ctx) else 0))
    imgs = G.thin(ctx, image_stream(ctx, rng), lambda i: (i.fmt, i.tag.split('/')[0]), keep=lambda i: i.tag.startswith('known/'))
    # the known-class minority first, the rest in random order, so that no generator family is starved
    # when the model budget runs out; a quarter of the budget is kept for the InspectWrapper runs
    known = [i for i in imgs if i.tag.startswith('known/')]
    rest = [i for i in imgs if not i.tag.startswith('known/')]
    rng.shuffle(rest)
    spent = [0]
    b_insp = dict(budget, total=budget['total'] * 3 // 4)
    pairs = []
    for img in known + rest:
        pairs += pairs_for(ctx, img, rng, b_insp, spent)
    # the InspectWrapper verdict on a subset (every inspector sees the same reads)
    wrap_imgs = known + [i for i in rest if i.tag.startswith(('wf/', 'poly/'))]
    wrap_imgs += rng.sample(rest, min(len(rest), G.scale(ctx, 10 if ctx.quick else 60, least=3)))
    spent_w = [0]
    b_wrap = dict(budget, total=budget['total'] // 4)
    for img in wrap_imgs:
        ps = pairs_for(ctx, img, rng, b_wrap, spent_w, wrap=True)
        pairs += ps if not ctx.quick else rng.sample(ps, min(len(ps), 5))
    spent[0] += spent_w[0]

    def on(p, impl):
        G.note_verdict(ctx, p, impl)
        if p.kind == 'insp' and not p.trace:
            ctx.count('mode/final-only')
        elif p.kind == 'insp':
            ctx.count('mode/trace')
        ctx.sample({'fmt': p.img.fmt, 'tag': p.img.tag, 'length': len(p.img.data), 'chunking': p.ctag,
                    'chunks': len(p.sizes), 'implementation': impl.split('\t')[-1]}, 5)
    for img, fam in small_first_chunk_cases(rng):
        for tag, sizes in fam:
            pairs.append(G.Pair(img, sizes, tag, trace=len(img.data) <= 4096))
            if len(img.data) <= 64 * G.K or tag == fam[0][0]:
                pairs.append(G.Pair(img, sizes, tag, kind='wrap'))
    G.add_companions(pairs, rng)
    out += G.run_pairs(ctx, pairs, on)
    # a few sparse streams (> 4 GiB; zero gaps skipped by the model through the inspx request)
    sparse = G.far_images(rng, True)[:3 if ctx.quick else 4] + G.sparse_generic(rng, rng.sample(G.FORMATS, 4) if ctx.quick else None)
    out += G.sparse_pairs(ctx, [(sp, plan) for sp in sparse for plan in G.far_plans(sp)
                                if not (ctx.quick and plan.startswith('extents1') and sp.fmt == 'vhdx')])
    ctx.notes.append('model cost units spent: %d' % spent[0])
    ctx.exhaustive = True
    return out


# --------------------------------------------------------------------------
# failing-input search (implementation only)

REF = 512


def stream_oracle(ctx, img, family, rng, fails, budget_pokes=2, poke_p=0.2, presentations=2, forced=None, companion=None):
    """same bytes, every chunking: verdict equal to the verdict under 512-byte blocks, every retained
    region equal to the stream slice at its offsets, intermediate queries change nothing.
    Appends at most one Failure per image."""
    fmt, data = img.fmt, img.data
    n = len(data)
    ref_sizes = G.fixed(n, REF)
    ref, ref_full, i0 = G.impl_run(fmt, data, ref_sizes)
    ctx.evaluations += 1
    bs = G.bad_slices(i0, data)
    if bs:
        fails.append(make_failure(img, ref_sizes, ref_sizes, 'retained-not-stream-slice',
                                  'region %s retained bytes that are not stream[offset:offset+len] (512-byte blocks)' % bs))
        return
    pokes = 0
    plain = {}
    for k, (tag, sizes) in enumerate(family):
        ctx.evaluations += 1
        ctx.count('search/chunking/' + tag)
        q = None
        if pokes < budget_pokes and rng.random() < poke_p:
            q = insp_impl.poke
            pokes += 1
        mid = []
        watch = None
        if len(sizes) <= 48:            # also after every chunk, not only at the end

            def watch(insp, pos, mid=mid):
                if not mid:
                    mid.extend(G.bad_slices(insp, data))
        c, full, i = G.impl_run(fmt, data, sizes, query=q, every_chunk=watch)
        bs = G.bad_slices(i, data) or mid
        if bs:
            small = G.shrink_cuts(n, sizes, lambda s: slices_bad_anytime(fmt, data, s))
            fails.append(make_failure(img, ref_sizes, small, 'retained-not-stream-slice',
                                      'region %s retained bytes that are not stream[offset:offset+len]' % bs))
            return
        if c != ref:
            if q is not None:
                c2 = G.impl_run(fmt, data, sizes)[0]
                if c2 == ref:
                    fails.append(make_failure(img, ref_sizes, sizes, 'intermediate-queries-change-the-verdict',
                                              'with queries after every chunk: %s; without: %s' % (c, c2)))
                    return
            small = G.shrink_cuts(n, sizes, lambda s: G.impl_run(fmt, data, s)[0] != ref)
            c = G.impl_run(fmt, data, small)[0]
            fails.append(make_failure(img, ref_sizes, small, 'verdict-depends-on-chunking',
                                      '512-byte blocks: %s | %d chunk(s) %s: %s' % (ref, len(small), G.pack_sizes(small)[:8], c)))
            return
        plain[k] = c
    # the same chunks presented differently: as a reused, afterwards overwritten bytearray / memoryview, and to an
    # inspector built with each combination of the public constructor arguments - against the plain run of the
    # SAME chunking, so that chunk-dependence inside a known class is not mistaken for this
    pres = G.presentations(fmt)
    pres = list(forced) if forced else (pres if presentations >= len(pres) else rng.sample(pres, presentations))
    for feed, ctor in pres:
        for k, (tag, sizes) in enumerate(family):
            if k not in plain or len(sizes) > 1200 or not (tag.startswith('fixed') or tag in ('one', 'seed') or rng.random() < 0.15):
                continue
            ctx.evaluations += 1
            ctx.count('search/presentation/%s%s' % (feed, ''.join('+%s=%s' % kv for kv in sorted(ctor.items()))))
            c, full, i = G.impl_run(fmt, data, sizes, feed=feed, ctor=ctor)
            bs = G.bad_slices(i, data)
            if c != plain[k] or bs:
                t0 = time.time()

                def still(sz):
                    if time.time() - t0 > 20:
                        return False
                    c1, _, i1 = G.impl_run(fmt, data, sz, feed=feed, ctor=ctor)
                    return c1 != G.impl_run(fmt, data, sz)[0] or bool(G.bad_slices(i1, data))
                small = G.shrink_cuts(n, sizes, still) if len(sizes) <= 3000 else sizes
                if not still(small):
                    small = sizes
                c1, _, i1 = G.impl_run(fmt, data, small, feed=feed, ctor=ctor)
                f = make_failure(img, small, small, 'verdict-depends-on-how-the-chunks-are-presented',
                                 'chunks %s as bytes to %s(): %s | as %s to %s(%s): %s%s' % (
                                     G.pack_sizes(small)[:8], fmt, G.impl_run(fmt, data, small)[0], feed, fmt,
                                     ', '.join('%s=%s' % kv for kv in sorted(ctor.items())), c1,
                                     ' (regions %s are not stream slices)' % G.bad_slices(i1, data) if G.bad_slices(i1, data) else ''))
                f.case.update(feed=feed, ctor=ctor)
                fails.append(f)
                return
    # call forms of the constructor / eat_chunk, and a deep copy of the half-fed inspector used alongside it
    for k, (tag, sizes) in enumerate(family):
        if k not in plain or not 2 <= len(sizes) <= 600 or not (tag in ('fixed512', 'seed') or rng.random() < 0.08):
            continue
        ctx.evaluations += 1
        ctx.count('search/clone-and-call-forms')
        how, at, form, kw = rng.choice((None,) + G.INSPECTOR_CLONES), rng.randrange(1, len(sizes)), rng.randrange(8), rng.random() < 0.5
        try:
            got = G.run_with_clone(fmt, data, sizes, how, at, form, kw)
            c = G.core(got.split('\t')[-1]) if not got.startswith('COPIES') else got
        except Exception as e:
            c = 'CRASH:%s:%s' % (type(e).__name__, e)
        if c != plain[k]:
            f = make_failure(img, sizes, sizes, 'verdict-depends-on-call-form-or-copy',
                             'chunks %s: %s() + eat_chunk(chunk): %s | constructor call form %d, eat_chunk(%s), %s after chunk %d: %s'
                             % (G.pack_sizes(sizes)[:8], fmt, plain[k], form, 'chunk=...' if kw else '...', how or 'no copy', at, c[:400]))
            f.case.update(clone=how, clone_at=at, form=form, eat_kw=kw)
            fails.append(f)
            return
    # another object of the same class alive at the same time, fed a different stream (before / interleaved /
    # after): nothing it is shown may change what this one reports
    pool = ctx.__dict__.setdefault('_c01_pool', {}).setdefault(fmt, [])
    junk = bytes(rng.randrange(256) for _ in range(700))
    others = pool[-3:] + [junk]
    pool.append(data[:1 << 20])
    comps = [companion] if companion else [(rng.choice(others), None, m) for m in
                                           (G.COMPANION_MODES if presentations >= 5 else [rng.choice(G.COMPANION_MODES)])]
    for od, osz, mode in comps:
        osz = osz or rng.choice([[len(od)], G.fixed(len(od), 512), G.fixed(len(od), 300)])
        for k, (tag, sizes) in enumerate(family):
            if k not in plain or len(sizes) > 1200 or not (tag in ('one', 'fixed512', 'seed') or rng.random() < 0.1):
                continue
            ctx.evaluations += 1
            ctx.count('search/companion/' + mode)
            c = G.impl_run(fmt, data, sizes, companion=(od, osz, mode))[0]
            if c != plain[k]:
                f = make_failure(img, sizes, sizes, 'verdict-depends-on-another-live-inspector',
                                 'chunks %s to a %s inspector alone: %s | with a second %s inspector fed %d other bytes %s: %s'
                                 % (G.pack_sizes(sizes)[:8], fmt, plain[k], fmt, len(od), mode, c))
                f.case['companion'] = {'content': G.content_field(od), 'sizes': G.pack_sizes(osz), 'mode': mode}
                fails.append(f)
                return


def slices_bad_anytime(fmt, data, sizes):
    mid = []

    def watch(insp, pos):
        if not mid:
            mid.extend(G.bad_slices(insp, data))
    i = G.impl_run(fmt, data, sizes, every_chunk=watch if len(sizes) <= 48 else None)[2]
    return bool(mid or G.bad_slices(i, data))


def wrap_core(line):
    """chunk-independent part of a wrap reply: how the reads ended, and - when the whole stream was presented -
    the final format/formats and the per-inspector verdicts"""
    f = line.split('\t')
    if f[1] != 'done':
        return f[1]                   # aborted by the expected inspector: the rest saw only part of the stream
    return f[1] + '\t' + f[2] + '\t' + G.core(f[3])


def wrapper_oracle(ctx, img, family, fails, allowed=None, expected=None, companion=None):
    data = img.data
    n = len(data)
    ref_sizes = G.fixed(n, REF)

    def run(sz):
        return wrap_core(insp_impl.run_wrap(allowed, expected, data, sz)[0])
    ref = run(ref_sizes)
    for tag, sizes in family:
        ctx.evaluations += 1
        c = run(sizes)
        if c != ref:
            t0 = time.time()
            small = G.shrink_cuts(n, sizes, lambda s: time.time() - t0 < 20 and run(s) != ref)
            if run(small) == ref:
                small = sizes
            c = run(small)
            diff = differing_inspectors(ref, c, expected)
            f = make_failure(img, ref_sizes, small, 'wrapper-verdict-depends-on-chunking',
                             'InspectWrapper(allowed_formats=%s, expected_format=%s), inspectors %s differ: 512-byte blocks %s | %s: %s'
                             % (allowed, expected, diff, ' '.join(ref.split('\t')[:2]), G.pack_sizes(small)[:8],
                                ' '.join(c.split('\t')[:2])), ckind='wrap')
            if allowed or expected:
                f.case.update(allowed=allowed, expected=expected)
            fails.append(f)
            return
    # the same reads through every consumption protocol and call form of the wrapper
    full = getattr(ctx, '_c01_full', False)
    for tag, sizes in [f for f in family if 2 <= len(f[1]) <= 300][:6 if full else 3]:
        drives = list(G.WRAPPER_DRIVES) if full else ['break-resume'] + ctx.rng.sample(G.WRAPPER_DRIVES, 3)
        for drive in drives:
            ks = range(1, len(sizes)) if len(sizes) <= 8 else sorted(ctx.rng.sample(range(1, len(sizes)), 3))
            if drive not in ('break-resume', 'mixed', 'read-rest', 'deepcopy'):
                ks = [1]
            for k in ks:
                ctx.evaluations += 1
                ctx.count('search/wrapper-protocol/' + drive)
                form = ctx.rng.randrange(64)
                sub = ctx.rng.choice((None, None) + G.SUBCLASS_KINDS)
                want = run(G.drive_sizes(sizes, drive, k))
                try:
                    got = wrap_core('\t' + G.drive_wrapper(data, sizes, drive, allowed, expected, k, form, sub))
                except Exception as e:
                    got = 'CRASH:%s:%s' % (type(e).__name__, e)
                if got != want:
                    f = make_failure(img, G.drive_sizes(sizes, drive, k), sizes, 'wrapper-verdict-depends-on-the-consumption-protocol',
                                     'InspectWrapper(allowed_formats=%s, expected_format=%s) over chunks %s: read()+close(): %s | protocol "%s" '
                                     '(interrupted after chunk %d, constructor call form %d%s): %s'
                                     % (allowed, expected, G.pack_sizes(sizes)[:8], ' '.join(want.split('\t')[:2]), drive, k, form,
                                        ', ALL_FORMATS holding %s subclasses of the inspector classes' % sub if sub else '',
                                        ' '.join(got.split('\t')[:2])), ckind='wrap')
                    f.case.update(allowed=allowed, expected=expected, drive=drive, k=k, form=form, subclass=sub)
                    fails.append(f)
                    return
    # a second InspectWrapper alive at the same time, reading other data
    pool = ctx.__dict__.setdefault('_c01_wpool', [])
    other = companion[0] if companion else (ctx.rng.choice(pool[-4:]) if pool else bytes(700))
    pool.append(data[:1 << 20])
    for tag, sizes in family[:2]:
        mode = companion[2] if companion else ctx.rng.choice(G.COMPANION_MODES)
        osz = companion[1] if companion else G.fixed(len(other), 4096)
        ctx.evaluations += 1
        ctx.count('search/companion/wrapper-' + mode)
        c = wrap_core(G.run_wrap_x(allowed, expected, data, sizes, (other, osz, mode)))
        if c != run(sizes):
            f = make_failure(img, sizes, sizes, 'wrapper-verdict-depends-on-another-live-wrapper',
                             'InspectWrapper alone: %s | with a second InspectWrapper reading %d other bytes %s: %s'
                             % (' '.join(run(sizes).split('\t')[:2]), len(other), mode, ' '.join(c.split('\t')[:2])), ckind='wrap')
            f.case.update(allowed=allowed, expected=expected,
                          companion={'content': G.content_field(other), 'sizes': G.pack_sizes(osz), 'mode': mode})
            fails.append(f)
            return


def differing_inspectors(a, b, expected=None):
    if '\t' not in a or '\t' not in b:
        return [expected or '?']            # one of the runs was aborted by the expected inspector
    pa = dict(x.split(' ', 1) for x in a.split('\t')[2].split(';'))
    pb = dict(x.split(' ', 1) for x in b.split('\t')[2].split(';'))
    names = sorted(set(pa) | set(pb))
    return sorted({k.rstrip('!') for k in names if pa.get(k) != pb.get(k)})


def sparse_oracle(ctx, rng, fails, full):
    """streams beyond 4 GiB (sparse, the zero filler is a shared chunk object): same verdict under every chunk
    plan, retained regions equal to the stream's bytes at their offsets"""
    for sp in G.far_images(rng, ctx.quick, full) + G.sparse_generic(rng):
        ref = None
        for tag in G.far_plans(sp) + ['grid%d' % (16 << 20)]:
            cuts = sp.plan(tag)
            ctx.evaluations += 1
            ctx.count('search/sparse/' + tag.split('@')[0])
            v, i = G.sparse_run(sp, cuts)
            bad = [n for n, r in i._capture_regions.items() if bytes(r.data) != sp.piece(r.offset, r.offset + len(r.data))]
            c = G.core(v)
            if ref is None:
                ref, ref_tag = c, tag
            if c != ref or bad:
                case = dict(sp.case(tag), plan_a=ref_tag)
                fails.append(Failure(case, {'kind': 'retained-not-stream-slice' if bad else 'verdict-depends-on-chunking',
                                            'what': '%s sparse stream of %d bytes: plan "%s": %s | plan "%s": %s%s'
                                                    % (sp.fmt, sp.total, ref_tag, ref, tag, c, ' regions %s are not stream slices' % bad if bad else ''),
                                            'classes': []}))
                break


def polyglot_wrapper_search(ctx, rng, fails, full, enough):
    """InspectWrapper with expected_format (and allowed_formats subsets) over pairwise polyglots: the verdict
    after the whole stream must not depend on the reads"""
    pairs = [(a, b) for a in G.FORMATS for b in G.FORMATS if a != b and 'raw' not in (a, b)]
    if not full:
        pairs = rng.sample(pairs, G.scale(ctx, 20 if ctx.quick else 48, least=6))
    for a, b in pairs:
        data, bounds = G.polyglot(a, b, rng)
        img = G.Img(a, data, bounds, 'poly/%s+%s' % (a, b))
        n = len(data)
        fam = [('one', [n])] + [('fixed%d' % cs, G.fixed(n, cs)) for cs in (4096, 65536) if cs < n]
        pts = sorted({p + d for p in img.bounds for d in (-1, 0, 1) if 0 < p + d < n})
        for p in rng.sample(pts, min(len(pts), 6)):
            fam.append(('cut1', images.sizes_from_cuts([p], n)))
        fam.append(('cut2+', images.sizes_from_cuts(sorted(rng.sample(pts, min(len(pts), 3))), n)))
        fam.append(('dribble+giant', images.sizes_from_cuts([rng.randrange(1, min(n, 512))], n)))
        for expected in (a, b):
            allowed = rng.choice([None, None, [a, b], sorted({a, b, 'raw'}, key=G.FORMATS.index)])
            ctx.count('search/wrapper-expected/%s' % ('all-formats' if allowed is None else 'allowed-subset'))
            wrapper_oracle(ctx, img, fam, fails, allowed, expected)
            if enough():
                return


def make_failure(img, sizes_a, sizes_b, kind, what, ckind='insp'):
    case = {'kind': ckind, 'fmt': img.fmt, 'content': img.field, 'length': len(img.data),
            'sizes_a': G.pack_sizes(sizes_a), 'sizes_b': G.pack_sizes(sizes_b), 'tag': img.tag}
    if case['kind'] == 'wrap':
        classes = {}
        for f in ('vmdk', 'vhdx'):
            classes[f] = G.classes_of(f, img.data)
    else:
        classes = G.classes_of(img.fmt, img.data)
    return Failure(case, {'kind': kind, 'what': what[:1500], 'classes': classes})


def search_family(ctx, img, rng, full):
    n = len(img.data)
    small = (1, 3, 17, 64, 100) if n <= 40 * G.K else ((17, 64, 100) if (n <= 400 * G.K and (full or not ctx.quick)) else ())
    if small and n > 40 * G.K and not ctx.quick and rng.random() < 0.08:
        small = (1, 3) + small                   # 1-byte feed of a VHDX-sized stream (implementation only)
    return G.chunk_family(n, img.bounds, rng, pairs='all' if n <= 4096 else 'sample', small=small,
                          nrandom=8 if (full or not ctx.quick) else 4)


def img_of_case(c):
    data = G.decode_content(c['content'])
    return G.Img(c['fmt'], data, [4, 64, 512], c.get('tag', 'seed'))


def search(ctx, seeds, full=False):
    rng = ctx.rng
    fails = []
    ctx._c01_full = full
    # 1. the disagreeing cases first
    region_seeds = [s for s in seeds if s.get('kind') == 'region'][:200]
    clock = G.Clock(ctx)

    def enough():
        new = len([f for f in fails if not classes_flat(f)])
        if new:
            clock.failed()
        return new >= 5 or len(fails) >= 60 or clock.expired()
    for s in [s for s in seeds if s.get('kind') in ('insp', 'wrap')][:40]:
        img = img_of_case(s)
        fam = [('seed', G.unpack_sizes(s['sizes']))] + search_family(ctx, img, rng, True)
        if s['kind'] == 'wrap':
            wrapper_oracle(ctx, img, fam, fails, s.get('allowed'), s.get('expected'), G.companion_of_case(s))
        else:
            before = len(fails)
            forced = [(s.get('feed', 'bytes'), s.get('ctor') or {})] if (s.get('feed') or s.get('ctor')) else None
            stream_oracle(ctx, img, fam, rng, fails, budget_pokes=10 ** 6, poke_p=1.0, forced=forced,
                          companion=G.companion_of_case(s))
            if len(fails) == before:
                stream_oracle(ctx, img, fam, rng, fails, budget_pokes=0, presentations=5)
        if enough():
            break
    # 2. the capture engine alone, exhaustively
    fails += engine_search(ctx, (8 if ctx.quick else 10) - (1 if G.ambient(ctx) else 0), region_seeds)
    # 2b. small first chunks over every format, directly and through the wrapper
    for img, fam in small_first_chunk_cases(rng):
        if enough():
            break
        stream_oracle(ctx, img, fam, rng, fails, budget_pokes=2, presentations=1)
        wrapper_oracle(ctx, img, fam, fails)
    # 3. generated streams
    rounds = (2 if full else 1) if ctx.quick else (4 if full else 2)
    for _ in range(rounds):
        if enough():
            break
        imgs = G.thin(ctx, image_stream(ctx, rng, for_search=True), lambda i: (i.fmt, i.tag.split('/')[0]),
                      keep=lambda i: i.tag.startswith('known/'))
        for img in imgs:
            ctx.count('search/' + img.tag.split('/')[0])
            stream_oracle(ctx, img, search_family(ctx, img, rng, full), rng, fails, budget_pokes=6 if full else 3,
                          presentations=5 if full else (1 if ctx.quick else 3))
            if enough():
                break
        for img in rng.sample(imgs, min(len(imgs), G.scale(ctx, 25 if ctx.quick else 120, least=6))) + [i for i in imgs if i.tag.startswith('known/')]:
            if enough():
                break
            n = len(img.data)
            fam = G.chunk_family(n, img.bounds, rng, small=(17,) if n <= 40 * G.K else (), nrandom=3)
            allowed, expected = wrapper_args(img, rng)
            wrapper_oracle(ctx, img, fam, fails, allowed, expected)
        if not enough():
            polyglot_wrapper_search(ctx, rng, fails, full, enough)
        if not enough():
            sparse_oracle(ctx, rng, fails, full)
    ctx._c01_failures = fails
    ctx.count('search/failures-in-known-classes', len([f for f in fails if classes_flat(f)]))
    return fails


def classes_flat(f):
    c = f.detail.get('classes') if isinstance(f.detail, dict) else None
    if isinstance(c, dict):
        return sorted({x for v in c.values() for x in v})
    return list(c or [])


# --------------------------------------------------------------------------
# known findings: in a listed class AND reproduced by the model under the same chunkings

def candidate_class(failure, listed_ids):
    """the listed class the failing input lies in (by the byte predicates), or None"""
    case, det = failure.case, failure.detail
    if case.get('kind') in ('region', 'sparse'):
        return None
    data = G.decode_content(case['content'])
    kind = det.get('kind')
    if case.get('companion') or case.get('feed') or case.get('ctor') or case.get('drive') or 'clone' in case:
        return None
    if case['kind'] == 'wrap':
        al, ex = case.get('allowed'), case.get('expected')
        ref = wrap_core(insp_impl.run_wrap(al, ex, data, G.unpack_sizes(case['sizes_a']))[0])
        oth = wrap_core(insp_impl.run_wrap(al, ex, data, G.unpack_sizes(case['sizes_b']))[0])
        diff = differing_inspectors(ref, oth, ex)
        ids = []
        for f in diff:
            cl = [c for c in G.classes_of(f, data) if c in listed_ids]
            if not cl:
                return None            # an inspector outside every listed class changed its verdict
            ids += cl
        return ids[0] if ids else None
    cl = [c for c in G.classes_of(case['fmt'], data) if c in listed_ids]
    if kind == 'retained-not-stream-slice':
        cl = [c for c in cl if c == 'KF_D7']        # the only listed class that retains foreign bytes
    elif kind != 'verdict-depends-on-chunking':
        return None
    return cl[0] if cl else None


def model_agrees(ctx, case):
    """the Lean model shows the same two outcomes under the same two chunkings"""
    data = G.decode_content(case['content'])
    kind = case['kind']
    res = []
    sizes = [G.unpack_sizes(case['sizes_a']), G.unpack_sizes(case['sizes_b'])]
    al, ex = case.get('allowed'), case.get('expected')
    model = G.model_replies(ctx, case['fmt'], case['content'], sizes, kind, al, ex)
    for s, m in zip(sizes, model):
        impl = G.impl_final(case['fmt'], data, s, kind, case.get('feed', 'bytes'), case.get('ctor'), al, ex)
        if kind == 'wrap':
            impl, m = G.wrap_canon(impl, ex), G.wrap_canon(m, ex)
        res.append((impl, m))
    return all(i == m for i, m in res), res


def classify(ctx, failure, listed_findings):
    ids = [f['id'] for f in listed_findings]
    kid = candidate_class(failure, ids)
    if not kid:
        return None
    ok, _ = model_agrees(ctx, failure.case)
    ctx.count('classify/%s/%s' % (kid, 'model-reproduces' if ok else 'MODEL-DIFFERS'))
    return kid if ok else None


def witness_sizes(spec, n):
    if isinstance(spec, list):
        return list(spec)
    if spec == 'one chunk':
        return [n]
    if isinstance(spec, str) and spec.endswith('-byte chunks'):
        return G.fixed(n, int(spec.split('-')[0]))
    raise ValueError('unknown chunking spec %r' % (spec,))


def witness_image(w):
    fmt = w['fmt']
    if 'content_ascii' in w:
        return fmt, w['content_ascii'].encode('ascii')
    if 'content' in w:
        return fmt, G.decode_content(w['content'])
    b = dict(w.get('builder', {}))
    trunc = b.pop('truncate_to', None)
    for k in list(b):
        if k.endswith('_hex'):
            b[k[:-4]] = bytes.fromhex(b.pop(k))
    data = images.BUILDERS[fmt](**b)[0]
    return fmt, data if trunc is None else data[:trunc]


def witness_reproduces(ctx, finding):
    w = finding.get('witness')
    if not isinstance(w, dict) or 'fmt' not in w:
        return False
    fmt, data = witness_image(w)
    if finding['id'] not in G.classes_of(fmt, data):
        return False
    a = witness_sizes(w['sizes_a'], len(data))
    b = witness_sizes(w['sizes_b'], len(data))
    ca, _, ia = G.impl_run(fmt, data, a)
    cb, _, ib = G.impl_run(fmt, data, b)
    return ca != cb or bool(G.bad_slices(ia, data)) or bool(G.bad_slices(ib, data))


# --------------------------------------------------------------------------

def replay(ctx, payload):
    case = payload.get('failure', {}).get('case') or payload.get('case')
    if not case:
        print('nothing to replay: this file names the obligation that no longer checks:')
        print(json.dumps(payload.get('no_longer_checks'), indent=1)[:3000])
        return 0
    if case.get('kind') == 'region':
        off, ln, ml, is_end = case['region']
        data = common.unhexb(case['content'])
        r = engine_impl(insp_impl.fi(), off, ln, ml, is_end, data, case['sizes'])
        print('region(offset=%s, length=%s, min_length=%s, end=%s) stream=%s chunks=%s' % (off, ln, ml, is_end, data.hex(), case['sizes']))
        print('implementation:', engine_show(r))
        print('model         :', ctx.driver.ask(G.region_line(off, ln, ml, is_end, common.hexb(data), case['sizes'])))
        why = engine_oracle(off, ln, ml, is_end, data, r, len(case['sizes']))
        print('property oracle on the implementation:', why)
        return 1 if why else 0
    if case.get('kind') == 'sparse':
        sp, _ = G.sparse_of_case(case)
        cores = []
        for plan in [p for p in (case.get('plan_a'), case['plan']) if p]:
            cuts = sp.plan(plan)
            impl = G.sparse_render(sp, cuts)
            model = ctx.driver.ask(G.inspx_line(sp, cuts, False))
            print('%s, sparse stream of %d bytes, extents at %s, chunk plan "%s" (%d chunks)' % (sp.fmt, sp.total, [o for o, _ in sp.extents], plan, len(cuts) + 1))
            print('  implementation:', impl[-1200:])
            print('  model         :', model[-1200:])
            cores.append((G.core(impl.split('\t')[-1]), impl == model or model == 'unmodelled-zero-run'))
        differs = len({c for c, _ in cores}) > 1
        print('property oracle on the implementation: verdict %s across the plans' % ('DIFFERS' if differs else 'equal'))
        return 1 if (differs or not all(ok for _, ok in cores)) else 0
    data = G.decode_content(case['content'])
    kind = case['kind']
    if 'sizes_a' not in case:       # a correspondence disagreement
        sizes = G.unpack_sizes(case['sizes'])
        p = G.Pair(G.Img(case['fmt'], data, [], case.get('tag', '')), sizes, 'replay', trace=bool(case.get('trace')), kind=kind,
                   feed=case.get('feed', 'bytes'), ctor=case.get('ctor'), allowed=case.get('allowed'), expected=case.get('expected'),
                   poke=bool(case.get('poke')))
        p.companion = G.companion_of_case(case)
        p.drive, p.k, p.form = case.get('drive'), case.get('k', 1), case.get('form', 0)
        if p.companion:
            print('a second %s alive at the same time, fed %d other bytes %s' % ('InspectWrapper' if kind == 'wrap' else case['fmt'] + ' inspector', len(p.companion[0]), p.companion[2]))
        import random
        impl = G.run_impl(p, random.Random(0))
        if kind == 'wrap':
            print('InspectWrapper(allowed_formats=%s, expected_format=%s)' % (case.get('allowed'), case.get('expected')))
        elif p.feed != 'bytes' or p.ctor or p.poke:
            print('chunks presented as %s to %s(%s)%s' % (p.feed, case['fmt'], p.ctor or '', ', observers queried in between' if p.poke else ''))
        model = ctx.driver.ask(p.line())
        if kind == 'wrap':
            impl, model = G.wrap_canon(impl, p.expected), G.wrap_canon(model, p.expected)
        print('%s %s, %d bytes, %d chunk(s)' % (kind, case['fmt'], len(data), len(sizes)))
        print('implementation:', impl[-3000:])
        print('model         :', model[-3000:])
        return 1 if impl != model else 0
    if case.get('drive') and 'sizes_b' in case:
        sizes = G.unpack_sizes(case['sizes_b'])
        al, ex, drive, k, form = case.get('allowed'), case.get('expected'), case['drive'], case.get('k', 1), case.get('form', 0)
        plain = wrap_core(G.run_wrap_x(al, ex, data, G.drive_sizes(sizes, drive, k)))
        got = wrap_core('\t' + G.drive_wrapper(data, sizes, drive, al, ex, k, form, case.get('subclass')))
        model = wrap_core(G.model_replies(ctx, case['fmt'], case['content'], [G.drive_sizes(sizes, drive, k)], 'wrap', al, ex)[0])
        print('InspectWrapper(allowed_formats=%s, expected_format=%s), %d bytes, chunks %s' % (al, ex, len(data), case['sizes_b'][:12]))
        print('  implementation, read() + close()        :', plain[:1500])
        print('  implementation, protocol "%s" (k=%d, form %d):' % (drive, k, form), got[:1500])
        print('  model (Wrap.pipe)                       :', model[:1500])
        print('property oracle on the implementation: %s' % ('DIFFERS' if got != plain else 'equal'))
        return 1 if got != plain else 0
    if 'clone' in case and 'sizes_b' in case:
        sizes = G.unpack_sizes(case['sizes_b'])
        got = G.run_with_clone(case['fmt'], data, sizes, case['clone'], case['clone_at'], case['form'], case['eat_kw'])
        plain = G.run_insp_x(case['fmt'], data, sizes)
        print('%s, %d bytes, chunks %s' % (case['fmt'], len(data), case['sizes_b'][:12]))
        print('  implementation, plain call forms:', plain[-1000:])
        print('  implementation, constructor form %d, eat_chunk by %s, %s after chunk %d:' % (case['form'], 'keyword' if case['eat_kw'] else 'position', case['clone'] or 'no copy', case['clone_at']), got[-1000:])
        print('  model:', ctx.driver.ask(G.insp_line(case['fmt'], case['content'], sizes, False))[-1000:])
        return 1 if got != plain else 0
    if case.get('companion') and 'sizes_b' in case:
        comp = G.companion_of_case(case)
        sizes = G.unpack_sizes(case['sizes_b'])
        al, ex = case.get('allowed'), case.get('expected')
        alone = G.impl_final(case['fmt'], data, sizes, kind, allowed=al, expected=ex)
        both = G.impl_final(case['fmt'], data, sizes, kind, allowed=al, expected=ex, companion=comp)
        model = G.model_replies(ctx, case['fmt'], case['content'], [sizes], kind, al, ex)[0]
        what = 'InspectWrapper' if kind == 'wrap' else case['fmt'] + ' inspector'
        print('%s, %d bytes, chunk sizes %s' % (what, len(data), case['sizes_b'][:12]))
        print('  implementation, alone:', alone.split('\t', 2)[-1][-1200:])
        print('  implementation, with a second %s fed %d other bytes %s:' % (what, len(comp[0]), comp[2]), both.split('\t', 2)[-1][-1200:])
        print('  model                :', model.split('\t', 2)[-1][-1200:])
        print('property oracle on the implementation: %s' % ('DIFFERS' if alone != both else 'equal'))
        return 1 if alone != both else 0
    if kind == 'insp' and (case.get('feed') or case.get('ctor')):
        sizes = G.unpack_sizes(case['sizes_b'])
        feed, ctor = case.get('feed', 'bytes'), case.get('ctor') or {}
        c0, v0, _ = G.impl_run(case['fmt'], data, sizes)
        c1, v1, i1 = G.impl_run(case['fmt'], data, sizes, feed=feed, ctor=ctor)
        print('%s, %d bytes, chunk sizes %s' % (case['fmt'], len(data), case['sizes_b'][:12]))
        print('  implementation, chunks as bytes to %s():' % case['fmt'], v0)
        print('  implementation, chunks as %s (buffer reused and overwritten after each call) to %s(%s):' % (feed, case['fmt'], ctor or ''), v1)
        print('  model         :', ctx.driver.ask(G.insp_line(case['fmt'], case['content'], sizes, False)).split('\t')[-1])
        bs = G.bad_slices(i1, data)
        print('property oracle on the implementation: verdict %s; regions that are not stream slices: %s'
              % ('DIFFERS' if c0 != c1 else 'equal', bs or 'none'))
        return 1 if (c0 != c1 or bs) else 0
    ok, res = model_agrees(ctx, case)
    if kind == 'wrap':
        print('InspectWrapper(allowed_formats=%s, expected_format=%s)' % (case.get('allowed'), case.get('expected')))
    cores = []
    for name, (impl, model) in zip(('sizes_a', 'sizes_b'), res):
        print('%s %s, %d bytes, chunk sizes %s' % (kind, case['fmt'], len(data), case[name][:12]))
        print('  implementation:', impl[-2500:])
        print('  model         :', model[-2500:])
        cores.append(wrap_core(impl) if kind == 'wrap' else G.core(impl.split('\t')[-1]))
    bad = []
    if kind == 'insp':
        for name in ('sizes_a', 'sizes_b'):
            if slices_bad_anytime(case['fmt'], data, G.unpack_sizes(case[name])):
                bad.append(name)
    differs = cores[0] != cores[1]
    print('property oracle on the implementation: verdict %s across the two chunkings; regions that are not stream slices: %s'
          % ('DIFFERS' if differs else 'equal', bad or 'none'))
    print('known classes of the input:', {f: G.classes_of(f, data) for f in ('vmdk', 'vhdx')} if kind == 'wrap'
          else G.classes_of(case['fmt'], data), '| model reproduces both runs:', ok)
    return 1 if (differs or bad) else 0


LEVEL_TEXT = ('Machine-checked proof (Lean 4) over a hand-written model of the capture engine, FileInspector.eat_chunk, the '
              'ten format inspectors and InspectWrapper: for every stream and every chunking (empty chunks included) a '
              'region present from the start retains exactly the stream slice at its offsets (plain, min_length and '
              'end-capture regions), and the verdict (format_match, complete, virtual_size, safety_check outcome, error '
              'raised while feeding) of the inspectors is a function of the bytes alone. VHDX and VMDK theorems are '
              '_partial: they exclude the listed known-finding classes KF_D7, KF_N4, KF_F1, KF_F3, where the statement is '
              'false on this tree. The model is tied to the code on every run by a differential correspondence '
              '(per-chunk region tables, exhaustive small-scope run of the capture engine).')
LEVEL_NOTE = ('Trusted: Lean kernel; audited axioms; the hand model and this correspondence; the translator of the region '
              'tables and constants; CPython bytes/struct/str semantics as re-implemented in the model. Known findings are '
              'accepted only inside a listed class and only when the model reproduces the same two verdicts.')
TECHNIQUE = 'Lean 4 theorems by induction over the chunk list + model/implementation correspondence + implementation-only chunking search'
DESIGN_REF = 'DESIGN.md section 5, C01'
