/-
Helper lemmas for C19 about the hand parser of the split_by_commas grammar
(OsloModel/Split.lean, part 4).  Not property obligations.
-/
import OsloModel.Split
import OsloProofs.Lemmas.C19Split
namespace Oslo.Split

/-! ### vocabulary of the statements -/

/-- characters an item may contain for the round trip: anything but TAB (expanded to spaces by
    pyparsing before parsing), LF and CR (not allowed inside a quoted string) -/
def okChar (c : Char) : Bool := c != '\t' && c != '\n' && c != '\r'

def okItem (item : List Char) : Bool := item.all okChar

/-- printable ASCII, the domain named in the property -/
def printable (c : Char) : Bool := 0x20 ≤ c.toNat && c.toNat ≤ 0x7e

/-- `e` is an admissible encoding of `item`: quoted with escapes, or verbatim when the item is a
    non-empty run of word characters -/
def IsEnc (item e : List Char) : Prop :=
  e = quote item ∨ (e = item ∧ item ≠ [] ∧ ∀ c ∈ item, isWordChar c = true)

/-- every item followed by a comma: what precedes a later item in a joined list -/
def prefixStr : List (List Char) → List Char
  | [] => []
  | i :: is => quoteIfNeeded i ++ ',' :: prefixStr is

/-- reading left to right with `\` taking the next character along, no bare `"` occurs -/
def noClosingQuote : List Char → Bool
  | [] => true
  | [c] => c != '"'
  | c :: e :: r =>
    if c = '"' then false
    else if c = '\\' then noClosingQuote r
    else noClosingQuote (e :: r)

/-- next character (if any) cannot continue a bare word -/
def Stops (rest : List Char) : Prop := ∀ c, rest.head? = some c → isWordChar c = false

theorem printable_okChar (c : Char) (h : printable c = true) : okChar c = true := by
  have h1 : c ≠ '\t' := by intro hh; subst hh; revert h; decide
  have h2 : c ≠ '\n' := by intro hh; subst hh; revert h; decide
  have h3 : c ≠ '\r' := by intro hh; subst hh; revert h; decide
  simp [okChar, h1, h2, h3]

theorem isWs_not_word (c : Char) (h : isWs c = true) : isWordChar c = false := by
  simp only [isWs, Bool.or_eq_true, decide_eq_true_eq] at h
  rcases h with ((h | h) | h) | h <;> subst h <;> decide

theorem word_not_ws (c : Char) (h : isWordChar c = true) : isWs c = false := by
  cases hw : isWs c with
  | false => rfl
  | true => rw [isWs_not_word c hw] at h; exact absurd h (by simp)

theorem word_ne_quote (c : Char) (h : isWordChar c = true) : c ≠ '"' := by
  intro hh; subst hh; revert h; decide

theorem word_ne_comma (c : Char) (h : isWordChar c = true) : c ≠ ',' := by
  intro hh; subst hh; revert h; decide

theorem word_okChar (c : Char) (h : isWordChar c = true) : okChar c = true := by
  have h1 : c ≠ '\t' := by intro hh; subst hh; revert h; decide
  have h2 : c ≠ '\n' := by intro hh; subst hh; revert h; decide
  have h3 : c ≠ '\r' := by intro hh; subst hh; revert h; decide
  simp [okChar, h1, h2, h3]

/-! ### expandtabs -/

theorem expandTabs_notab (col : Nat) (s : List Char) (h : '\t' ∉ s) : expandTabs col s = s := by
  induction s generalizing col with
  | nil => simp [expandTabs]
  | cons c r ih =>
    have hc : c ≠ '\t' := fun hh => h (by simp [hh])
    have hr : '\t' ∉ r := fun hh => h (by simp [hh])
    simp only [expandTabs, hc, if_false]
    split <;> simp [ih _ hr]

theorem escape_mem (item : List Char) (c : Char) (h : c ∈ escape item) : c ∈ item ∨ c = '\\' := by
  induction item with
  | nil => simp [escape] at h
  | cons a r ih =>
    simp only [escape] at h
    split at h
    · simp only [List.mem_cons] at h
      rcases h with h | h | h
      · right; exact h
      · left; simp [h]
      · rcases ih h with h | h
        · left; simp [h]
        · right; exact h
    · simp only [List.mem_cons] at h
      rcases h with h | h
      · left; simp [h]
      · rcases ih h with h | h
        · left; simp [h]
        · right; exact h

theorem quote_notab (item : List Char) (h : '\t' ∉ item) : '\t' ∉ quote item := by
  intro hh
  simp only [quote, List.mem_cons, List.mem_append, List.mem_nil_iff, or_false] at hh
  rcases hh with hh | hh | hh
  · revert hh; decide
  · rcases escape_mem _ _ hh with h1 | h1
    · exact h h1
    · revert h1; decide
  · revert hh; decide

theorem okItem_notab (item : List Char) (h : okItem item = true) : '\t' ∉ item := by
  intro hh
  simp only [okItem, List.all_eq_true] at h
  have := h _ hh
  revert this; decide

theorem okItem_char (item : List Char) (h : okItem item = true) (c : Char) (hc : c ∈ item) :
    c ≠ '\n' ∧ c ≠ '\r' := by
  simp only [okItem, List.all_eq_true] at h
  have := h _ hc
  simp only [okChar, Bool.and_eq_true, bne_iff_ne, ne_eq] at this
  exact ⟨this.1.2, this.2⟩

/-! ### whitespace -/

theorem skipWs_of_head (s : List Char) (h : ∀ c, s.head? = some c → isWs c = false) : skipWs s = s := by
  cases s with
  | nil => rfl
  | cons c r => simp [skipWs, h c rfl]

theorem skipWs_append (w s : List Char) (hw : ∀ c ∈ w, isWs c = true)
    (h : ∀ c, s.head? = some c → isWs c = false) : skipWs (w ++ s) = s := by
  induction w with
  | nil => exact skipWs_of_head s h
  | cons a r ih =>
    simp only [List.cons_append, skipWs, hw a (by simp), if_true]
    exact ih (fun c hc => hw c (by simp [hc]))

theorem skipWs_length_le (s : List Char) : (skipWs s).length ≤ s.length := by
  induction s with
  | nil => simp [skipWs]
  | cons c r ih => simp only [skipWs]; split <;> simp <;> omega

/-! ### Word -/

theorem spanWord_eq (s : List Char) : (spanWord s).1 ++ (spanWord s).2 = s := by
  induction s with
  | nil => simp [spanWord]
  | cons c r ih => simp only [spanWord]; split <;> simp [ih]

theorem spanWord_append (w rest : List Char) (hw : ∀ c ∈ w, isWordChar c = true) (hs : Stops rest) :
    spanWord (w ++ rest) = (w, rest) := by
  induction w with
  | nil =>
    cases rest with
    | nil => simp [spanWord]
    | cons c r => simp [spanWord, hs c rfl]
  | cons a r ih =>
    have := ih (fun c hc => hw c (by simp [hc]))
    simp [spanWord, hw a (by simp), this]

theorem scanWord_append (w rest : List Char) (hne : w ≠ []) (hw : ∀ c ∈ w, isWordChar c = true)
    (hs : Stops rest) : scanWord (w ++ rest) = some (w, rest) := by
  unfold scanWord; rw [spanWord_append w rest hw hs]
  cases w with
  | nil => exact absurd rfl hne
  | cons a r => rfl

theorem scanWord_rest_lt (s w rest : List Char) (h : scanWord s = some (w, rest)) :
    rest.length < s.length := by
  unfold scanWord at h
  have he := spanWord_eq s
  cases hsp : spanWord s with
  | mk w' rest' =>
    rw [hsp] at h he
    cases w' with
    | nil => simp at h
    | cons a t =>
      simp only [Option.some.injEq, Prod.mk.injEq] at h
      obtain ⟨h1, h2⟩ := h; subst h1; subst h2
      rw [← he]; simp; omega

theorem scanWord_none_of_not_word (c : Char) (r : List Char) (h : isWordChar c = false) :
    scanWord (c :: r) = none := by
  simp [scanWord, spanWord, h]

/-! ### QuotedString -/

theorem scanQuoted_close (rest : List Char) : scanQuoted ('"' :: rest) = some ([], rest) := by
  cases rest <;> simp [scanQuoted]

/-- one unfolding step on a string of at least two characters -/
theorem scanQuoted_cons2 (c e : Char) (r : List Char) :
    scanQuoted (c :: e :: r) =
      if c = '"' then some ([], e :: r)
      else if c = '\\' then
        if e = '\n' then none else (scanQuoted r).map (fun p => (c :: e :: p.1, p.2))
      else if c = '\n' ∨ c = '\r' then none
      else (scanQuoted (e :: r)).map (fun p => (c :: p.1, p.2)) := by
  simp only [scanQuoted]
  repeat' split
  all_goals simp_all

theorem scanQuoted_esc (e : Char) (r : List Char) (he : e ≠ '\n') :
    scanQuoted ('\\' :: e :: r) = (scanQuoted r).map (fun p => ('\\' :: e :: p.1, p.2)) := by
  rw [scanQuoted_cons2]; simp [he]

theorem scanQuoted_plain (c : Char) (tail : List Char) (hne : tail ≠ [])
    (h1 : c ≠ '"') (h2 : c ≠ '\\') (h3 : c ≠ '\n') (h4 : c ≠ '\r') :
    scanQuoted (c :: tail) = (scanQuoted tail).map (fun p => (c :: p.1, p.2)) := by
  cases tail with
  | nil => exact absurd rfl hne
  | cons e r => rw [scanQuoted_cons2]; simp [h1, h2, h3, h4]

theorem scanQuoted_escape (item rest : List Char) (h : ∀ c ∈ item, c ≠ '\n' ∧ c ≠ '\r') :
    scanQuoted (escape item ++ '"' :: rest) = some (escape item, rest) := by
  induction item with
  | nil => simp [escape, scanQuoted_close]
  | cons a r ih =>
    have ih' := ih (fun c hc => h c (by simp [hc]))
    have ha := h a (by simp)
    simp only [escape]
    split
    · rename_i hq
      have : a ≠ '\n' := ha.1
      simp only [List.cons_append]
      rw [scanQuoted_esc _ _ this, ih']; rfl
    · rename_i hq
      simp only [not_or] at hq
      simp only [List.cons_append]
      rw [scanQuoted_plain a _ (by simp) hq.1 hq.2 ha.1 ha.2, ih']; rfl

theorem scanQuoted_rest_lt_aux (n : Nat) : ∀ (s raw rest : List Char), s.length ≤ n →
    scanQuoted s = some (raw, rest) → rest.length < s.length := by
  induction n with
  | zero =>
    intro s raw rest hn h
    have : s = [] := List.eq_nil_of_length_eq_zero (by omega)
    subst this; simp [scanQuoted] at h
  | succ n ih =>
    intro s raw rest hn h
    match s, hn, h with
    | [], _, h => simp [scanQuoted] at h
    | [c], _, h =>
      simp only [scanQuoted] at h
      split at h
      · simp only [Option.some.injEq, Prod.mk.injEq] at h; rw [← h.2]; simp
      · simp at h
    | c :: e :: r, hn, h =>
      rw [scanQuoted_cons2] at h
      split at h
      · simp only [Option.some.injEq, Prod.mk.injEq] at h; rw [← h.2]; simp
      · split at h
        · split at h
          · simp at h
          · cases hq : scanQuoted r with
            | none => rw [hq] at h; simp at h
            | some p =>
              rw [hq] at h
              simp only [Option.map_some, Option.some.injEq, Prod.mk.injEq] at h
              have := ih r p.1 p.2 (by simp at hn; omega) hq
              rw [← h.2]; simp; omega
        · split at h
          · simp at h
          · cases hq : scanQuoted (e :: r) with
            | none => rw [hq] at h; simp at h
            | some p =>
              rw [hq] at h
              simp only [Option.map_some, Option.some.injEq, Prod.mk.injEq] at h
              have := ih (e :: r) p.1 p.2 (by simp at hn ⊢; omega) hq
              rw [← h.2]; simp at this ⊢; omega

theorem scanQuoted_rest_lt (s raw rest : List Char) (h : scanQuoted s = some (raw, rest)) :
    rest.length < s.length := scanQuoted_rest_lt_aux s.length s raw rest (Nat.le_refl _) h

/-! ### un-quoting -/

theorem unquote_plain (c : Char) (tail : List Char) (h : c ≠ '\\') :
    unquote (c :: tail) = c :: unquote tail := by
  cases tail with
  | nil => simp [unquote]
  | cons e r => simp [unquote, h]

/-- `\"` and `\\` give the escaped character -/
theorem unquote_esc (e : Char) (tail : List Char) (h : e = '"' ∨ e = '\\') :
    unquote ('\\' :: e :: tail) = e :: unquote tail := by
  rcases h with h | h <;> subst h <;> cases tail <;> simp [unquote, isOct]

theorem unquote_escape (item : List Char) : unquote (escape item) = item := by
  induction item with
  | nil => simp [escape, unquote]
  | cons a r ih =>
    simp only [escape]
    split
    · rename_i h; rw [unquote_esc a _ h, ih]
    · rename_i h; simp only [not_or] at h; rw [unquote_plain a _ h.2, ih]

/-! ### one item -/

theorem parseItem_quote (item rest : List Char) (h : ∀ c ∈ item, c ≠ '\n' ∧ c ≠ '\r') :
    parseItem (quote item ++ rest) = some (item, rest) := by
  simp only [quote, List.cons_append, List.append_assoc, parseItem, if_true]
  simp only [List.nil_append]
  rw [scanQuoted_escape item rest h]
  simp [unquote_escape]

theorem parseItem_bare (w rest : List Char) (hne : w ≠ []) (hw : ∀ c ∈ w, isWordChar c = true)
    (hs : Stops rest) : parseItem (w ++ rest) = some (w, rest) := by
  cases w with
  | nil => exact absurd rfl hne
  | cons a t =>
    have : a ≠ '"' := word_ne_quote a (hw a (by simp))
    simp only [List.cons_append, parseItem, this, if_false]
    exact scanWord_append (a :: t) rest hne hw hs

theorem parseItem_enc (item e rest : List Char) (he : IsEnc item e) (hok : okItem item = true)
    (hs : e = item → Stops rest) : parseItem (e ++ rest) = some (item, rest) := by
  rcases he with he | ⟨he, hne, hw⟩
  · subst he; exact parseItem_quote item rest (okItem_char item hok)
  · subst he; exact parseItem_bare e rest hne hw (hs rfl)

theorem parseItem_rest_lt (s item rest : List Char) (h : parseItem s = some (item, rest)) :
    rest.length < s.length := by
  cases s with
  | nil => simp [parseItem] at h
  | cons c r =>
    simp only [parseItem] at h
    split at h
    · cases hq : scanQuoted r with
      | none => rw [hq] at h; simp at h
      | some p =>
        rw [hq] at h
        simp only [Option.some.injEq, Prod.mk.injEq] at h
        have := scanQuoted_rest_lt r p.1 p.2 hq
        rw [← h.2]; simp; omega
    · exact scanWord_rest_lt _ _ _ h

theorem enc_head_not_ws (item e : List Char) (he : IsEnc item e) (tail : List Char) :
    ∀ c, (e ++ tail).head? = some c → isWs c = false := by
  intro c hc
  rcases he with he | ⟨he, hne, hw⟩
  · subst he; simp [quote] at hc; subst hc; decide
  · subst he
    cases e with
    | nil => exact absurd rfl hne
    | cons a t =>
      simp at hc; subst hc; exact word_not_ws a (hw a (by simp))

theorem isEnc_quoteIfNeeded (item : List Char) : IsEnc item (quoteIfNeeded item) := by
  unfold quoteIfNeeded
  split
  · left; rfl
  · rename_i h
    right
    simp only [needsQuote, Bool.or_eq_true, List.isEmpty_iff, List.any_eq_true, not_or, not_exists,
      not_and, Bool.not_eq_true] at h
    refine ⟨rfl, h.1, fun c hc => ?_⟩
    have := h.2 c hc
    cases hw : isWordChar c with
    | true => rfl
    | false => simp [hw] at this

theorem quoteIfNeeded_notab (item : List Char) (h : okItem item = true) : '\t' ∉ quoteIfNeeded item := by
  unfold quoteIfNeeded
  split
  · exact quote_notab item (okItem_notab item h)
  · exact okItem_notab item h

/-! ### the list -/

/-- fuel beyond the length of the input does not matter -/
theorem parseItems_fuel (f1 : Nat) : ∀ (f2 : Nat) (s : List Char), s.length < f1 → s.length < f2 →
    parseItems f1 s = parseItems f2 s := by
  induction f1 with
  | zero => intro f2 s h; omega
  | succ f1 ih =>
    intro f2 s h1 h2
    cases f2 with
    | zero => omega
    | succ f2 =>
      simp only [parseItems]
      cases hp : parseItem (skipWs s) with
      | none => rfl
      | some p =>
        obtain ⟨item, rest⟩ := p
        simp only
        have hl1 := parseItem_rest_lt _ _ _ hp
        have hl2 := skipWs_length_le s
        cases hk : skipWs rest with
        | nil => rfl
        | cons c r =>
          simp only
          have hl3 := skipWs_length_le rest
          rw [hk] at hl3; simp at hl3
          split
          · rw [ih f2 r (by omega) (by omega)]
          · rfl

/-- the fuel given by `parseAll` is never exhausted -/
theorem parseItems_no_outOfFuel (f : Nat) : ∀ (s : List Char), s.length < f →
    parseItems f s ≠ .error .outOfFuel := by
  induction f with
  | zero => intro s h; omega
  | succ f ih =>
    intro s h
    simp only [parseItems]
    cases hp : parseItem (skipWs s) with
    | none => simp
    | some p =>
      obtain ⟨item, rest⟩ := p
      simp only
      have hl1 := parseItem_rest_lt _ _ _ hp
      have hl2 := skipWs_length_le s
      cases hk : skipWs rest with
      | nil => simp
      | cons c r =>
        simp only
        have hl3 := skipWs_length_le rest
        rw [hk] at hl3; simp at hl3
        split
        · have := ih r (by omega)
          cases hr : parseItems f r with
          | ok l => simp
          | error e => rw [hr] at this; simpa using this
        · simp

/-- an encoded item followed by a comma: parse it and go on -/
theorem parseItems_step_ok (f : Nat) (item e tail : List Char) (l : List (List Char))
    (he : IsEnc item e) (hok : okItem item = true) (h : parseItems f tail = .ok l) :
    parseItems (f + 1) (e ++ ',' :: tail) = .ok (item :: l) := by
  have hst : Stops (',' :: tail) := by intro c hc; simp at hc; subst hc; decide
  simp only [parseItems]
  rw [skipWs_of_head _ (enc_head_not_ws item e he _), parseItem_enc item e _ he hok (fun _ => hst)]
  simp only
  rw [skipWs_of_head (',' :: tail) (by intro c hc; simp at hc; subst hc; decide)]
  simp only [if_true, h]

theorem parseItems_step_err (f : Nat) (item e tail : List Char) (err : Err)
    (he : IsEnc item e) (hok : okItem item = true) (h : parseItems f tail = .error err) :
    parseItems (f + 1) (e ++ ',' :: tail) = .error err := by
  have hst : Stops (',' :: tail) := by intro c hc; simp at hc; subst hc; decide
  simp only [parseItems]
  rw [skipWs_of_head _ (enc_head_not_ws item e he _), parseItem_enc item e _ he hok (fun _ => hst)]
  simp only
  rw [skipWs_of_head (',' :: tail) (by intro c hc; simp at hc; subst hc; decide)]
  simp only [if_true, h]

/-- an encoded item followed only by whitespace ends the list -/
theorem parseItems_last (f : Nat) (item e ws : List Char) (he : IsEnc item e) (hok : okItem item = true)
    (hws : ∀ c ∈ ws, isWs c = true) :
    parseItems (f + 1) (e ++ ws) = .ok [item] := by
  have hst : Stops ws := by
    intro c hc
    cases ws with
    | nil => simp at hc
    | cons a t => simp at hc; subst hc; exact isWs_not_word _ (hws _ (by simp))
  simp only [parseItems]
  rw [skipWs_of_head _ (enc_head_not_ws item e he _), parseItem_enc item e _ he hok (fun _ => hst)]
  simp only
  have : skipWs ws = [] := by
    have := skipWs_append ws [] hws (by simp)
    simpa using this
  rw [this]

theorem joinSep_cons_cons (sep : Char) (a b : List Char) (t : List (List Char)) :
    joinSep sep (a :: b :: t) = a ++ sep :: joinSep sep (b :: t) := rfl

/-- the round trip at the level of `parseItems`, for any admissible encoding of each item -/
theorem parseItems_join (items : List (List Char)) (enc : List Char → List Char)
    (henc : ∀ i ∈ items, IsEnc i (enc i)) (hok : ∀ i ∈ items, okItem i = true) (hne : items ≠ []) :
    ∀ f, items.length ≤ f → parseItems f (joinSep ',' (items.map enc)) = .ok items := by
  induction items with
  | nil => exact absurd rfl hne
  | cons a t ih =>
    intro f hf
    cases t with
    | nil =>
      cases f with
      | zero => simp at hf
      | succ f =>
        have := parseItems_last f a (enc a) [] (henc a (by simp)) (hok a (by simp)) (by simp)
        simpa [joinSep] using this
    | cons b t =>
      cases f with
      | zero => simp at hf
      | succ f =>
        simp only [List.map_cons, joinSep_cons_cons]
        have := ih (fun i hi => henc i (by simp [hi])) (fun i hi => hok i (by simp [hi])) (by simp) f
          (by simp at hf ⊢; omega)
        simp only [List.map_cons] at this
        exact parseItems_step_ok f a (enc a) _ _ (henc a (by simp)) (hok a (by simp)) this

/-- a tail that fails to parse still fails after any number of well-formed items -/
theorem parseItems_prefix_error (pre : List (List Char)) (bad : List Char)
    (hok : ∀ i ∈ pre, okItem i = true)
    (hbad : ∀ f, parseItems (f + 1) bad = .error .valueError) :
    ∀ f, parseItems (pre.length + f + 1) (prefixStr pre ++ bad) = .error .valueError := by
  induction pre with
  | nil => intro f; simpa [prefixStr] using hbad f
  | cons a t ih =>
    intro f
    have := ih (fun i hi => hok i (by simp [hi])) f
    simp only [prefixStr, List.append_assoc, List.cons_append, List.length_cons]
    rw [show t.length + 1 + f + 1 = (t.length + f + 1) + 1 by omega]
    exact parseItems_step_err _ a _ _ _ (isEnc_quoteIfNeeded a) (hok a (by simp)) this

theorem prefixStr_notab (pre : List (List Char)) (hok : ∀ i ∈ pre, okItem i = true) :
    '\t' ∉ prefixStr pre := by
  induction pre with
  | nil => simp [prefixStr]
  | cons a t ih =>
    simp only [prefixStr, List.mem_append, List.mem_cons, not_or]
    exact ⟨quoteIfNeeded_notab a (hok a (by simp)), by decide, ih (fun i hi => hok i (by simp [hi]))⟩

theorem prefixStr_length (pre : List (List Char)) : pre.length ≤ (prefixStr pre).length := by
  induction pre with
  | nil => simp
  | cons a t ih => simp [prefixStr]; omega

theorem joinSep_notab (l : List (List Char)) (h : ∀ e ∈ l, '\t' ∉ e) : '\t' ∉ joinSep ',' l := by
  induction l with
  | nil => simp [joinSep]
  | cons a t ih =>
    cases t with
    | nil => simpa [joinSep] using h a (by simp)
    | cons b t =>
      rw [joinSep_cons_cons]
      simp only [List.mem_append, List.mem_cons, not_or]
      exact ⟨h a (by simp), by decide, ih (fun e he => h e (by simp [he]))⟩

theorem joinSep_length (l : List (List Char)) : l.length ≤ (joinSep ',' l).length + 1 := by
  induction l with
  | nil => simp
  | cons a t ih =>
    cases t with
    | nil => simp
    | cons b t => rw [joinSep_cons_cons]; simp at ih ⊢; omega

/-- an opening quote with no closing quote after it -/
theorem scanQuoted_noClosing_aux (n : Nat) : ∀ s : List Char, s.length ≤ n → noClosingQuote s = true →
    scanQuoted s = none := by
  induction n with
  | zero =>
    intro s hn _
    have : s = [] := List.eq_nil_of_length_eq_zero (by omega)
    subst this; simp [scanQuoted]
  | succ n ih =>
    intro s hn h
    match s, hn, h with
    | [], _, _ => simp [scanQuoted]
    | [c], _, h => simp [noClosingQuote] at h; simp [scanQuoted, h]
    | c :: e :: r, hn, h =>
      rw [scanQuoted_cons2]
      simp only [noClosingQuote] at h
      split at h
      · simp at h
      · rename_i hc
        rw [if_neg hc]
        split at h
        · rename_i hb
          rw [if_pos hb]
          split
          · rfl
          · rw [ih r (by simp at hn; omega) h]; rfl
        · rename_i hb
          rw [if_neg hb]
          split
          · rfl
          · rw [ih (e :: r) (by simp at hn ⊢; omega) h]; rfl

theorem scanQuoted_noClosing (s : List Char) (h : noClosingQuote s = true) : scanQuoted s = none :=
  scanQuoted_noClosing_aux s.length s (Nat.le_refl _) h

theorem noClosingQuote_escape (item : List Char) : noClosingQuote (escape item) = true := by
  induction item with
  | nil => simp [escape, noClosingQuote]
  | cons a r ih =>
    simp only [escape]
    split
    · simp [noClosingQuote, ih]
    · rename_i h
      simp only [not_or] at h
      cases hr : escape r with
      | nil => simp [noClosingQuote, h.1]
      | cons b t => rw [hr] at ih; simp [noClosingQuote, h.1, h.2, ih]

/-! ### expandtabs and the malformed patterns -/

/-- column reached after writing `s` from column `col` (as `str.expandtabs` counts) -/
def colAfter : Nat → List Char → Nat
  | col, [] => col
  | col, c :: r =>
    if c = '\t' then colAfter (col + (8 - col % 8)) r
    else if c = '\n' ∨ c = '\r' then colAfter 0 r
    else colAfter (col + 1) r

theorem expandTabs_append (col : Nat) (a b : List Char) :
    expandTabs col (a ++ b) = expandTabs col a ++ expandTabs (colAfter col a) b := by
  induction a generalizing col with
  | nil => simp [expandTabs, colAfter]
  | cons c r ih =>
    simp only [List.cons_append, expandTabs, colAfter]
    split
    · simp [ih]
    · split <;> simp [ih]

theorem expandTabs_ws (col : Nat) (ws : List Char) (h : ∀ c ∈ ws, isWs c = true) :
    ∀ c ∈ expandTabs col ws, isWs c = true := by
  induction ws generalizing col with
  | nil => simp [expandTabs]
  | cons a r ih =>
    have ihr := fun col => ih col (fun c hc => h c (by simp [hc]))
    have ha := h a (by simp)
    simp only [expandTabs]
    split
    · intro c hc
      simp only [List.mem_append, List.mem_replicate] at hc
      rcases hc with hc | hc
      · rw [hc.2]; decide
      · exact ihr _ c hc
    · split
      · intro c hc; simp only [List.mem_cons] at hc
        rcases hc with hc | hc
        · rw [hc]; exact ha
        · exact ihr _ c hc
      · intro c hc; simp only [List.mem_cons] at hc
        rcases hc with hc | hc
        · rw [hc]; exact ha
        · exact ihr _ c hc

theorem expandTabs_eq_nil (col : Nat) (s : List Char) (h : expandTabs col s = []) : s = [] := by
  cases s with
  | nil => rfl
  | cons c r =>
    simp only [expandTabs] at h
    split at h
    · have : 0 < 8 - col % 8 := by omega
      obtain ⟨k, hk⟩ : ∃ k, 8 - col % 8 = k + 1 := ⟨8 - col % 8 - 1, by omega⟩
      rw [hk] at h; simp [List.replicate_succ] at h
    · split at h <;> simp at h

theorem expandTabs_cons_nontab (col : Nat) (c : Char) (r : List Char) (h : c ≠ '\t') :
    ∃ col', expandTabs col (c :: r) = c :: expandTabs col' r := by
  simp only [expandTabs, h, if_false]
  split
  · exact ⟨0, rfl⟩
  · exact ⟨col + 1, rfl⟩

theorem noClosingQuote_spaces (n : Nat) (s : List Char) :
    noClosingQuote (List.replicate n ' ' ++ s) = noClosingQuote s := by
  induction n with
  | zero => simp
  | succ n ih =>
    rw [List.replicate_succ, List.cons_append]
    cases hs : List.replicate n ' ' ++ s with
    | nil =>
      rw [hs] at ih
      simp [noClosingQuote] at ih ⊢
      exact ih
    | cons b t =>
      rw [hs] at ih
      simp only [noClosingQuote]
      rw [if_neg (by decide), if_neg (by decide)]
      exact ih

theorem noClosingQuote_cons_plain (c : Char) (s : List Char) (h1 : c ≠ '"') (h2 : c ≠ '\\') :
    noClosingQuote (c :: s) = noClosingQuote s := by
  cases s with
  | nil => simp [noClosingQuote, h1]
  | cons b t => simp [noClosingQuote, h1, h2]

theorem noClosingQuote_expandTabs_aux (n : Nat) : ∀ (col : Nat) (s : List Char), s.length ≤ n →
    noClosingQuote s = true → noClosingQuote (expandTabs col s) = true := by
  induction n with
  | zero =>
    intro col s hn _
    have : s = [] := List.eq_nil_of_length_eq_zero (by omega)
    subst this; simp [expandTabs, noClosingQuote]
  | succ n ih =>
    intro col s hn h
    match s, hn, h with
    | [], _, _ => simp [expandTabs, noClosingQuote]
    | [c], _, h =>
      simp only [noClosingQuote, bne_iff_ne, ne_eq] at h
      by_cases ht : c = '\t'
      · subst ht
        simp only [expandTabs, if_true, List.append_nil]
        have := noClosingQuote_spaces (8 - col % 8) []
        simpa [noClosingQuote] using this
      · obtain ⟨col', hc⟩ := expandTabs_cons_nontab col c [] ht
        rw [hc]; simp [expandTabs, noClosingQuote, h]
    | c :: e :: r, hn, h =>
      simp only [noClosingQuote] at h
      split at h
      · simp at h
      · rename_i hq
        split at h
        · rename_i hb
          subst hb
          -- backslash pair
          obtain ⟨col1, h1⟩ := expandTabs_cons_nontab col '\\' (e :: r) (by decide)
          rw [h1]
          by_cases ht : e = '\t'
          · subst ht
            simp only [expandTabs, if_true]
            obtain ⟨k, hk⟩ : ∃ k, 8 - col1 % 8 = k + 1 := ⟨8 - col1 % 8 - 1, by omega⟩
            rw [hk, List.replicate_succ, List.cons_append]
            simp only [noClosingQuote]
            rw [if_neg (by decide), if_pos trivial, noClosingQuote_spaces]
            exact ih _ r (by simp at hn; omega) h
          · obtain ⟨col2, h2⟩ := expandTabs_cons_nontab col1 e r ht
            rw [h2]
            simp only [noClosingQuote]
            rw [if_neg (by decide), if_pos trivial]
            exact ih _ r (by simp at hn; omega) h
        · rename_i hb
          have ihr := fun col' => ih col' (e :: r) (by simp at hn ⊢; omega) h
          by_cases ht : c = '\t'
          · subst ht
            simp only [expandTabs, if_true]
            rw [noClosingQuote_spaces]; exact ihr _
          · obtain ⟨col1, h1⟩ := expandTabs_cons_nontab col c (e :: r) ht
            rw [h1, noClosingQuote_cons_plain c _ hq hb]; exact ihr _

theorem noClosingQuote_expandTabs (col : Nat) (s : List Char) (h : noClosingQuote s = true) :
    noClosingQuote (expandTabs col s) = true :=
  noClosingQuote_expandTabs_aux s.length col s (Nat.le_refl _) h

end Oslo.Split
