/-
qcow2: the header-info callback.  `qemu_header_info` is always the function `qinfoR`
of the (single) header region.
-/
import OsloProofs.Lemmas.Engine
namespace Oslo.Insp

/-- what `region_complete` computes from the header region -/
def qinfoR (h : Region) : Option QcowInfo :=
  if h.complete && slice (slice h.data 0 32) 0 4 == qcowMagic then
    some { version := beNat (slice (slice h.data 0 32) 4 8), size := beNat (slice (slice h.data 0 32) 24 32) }
  else none

structure QShape (s : Insp) (h : Region) : Prop where
  fmt : s.fmt = .qcow2
  notFinished : s.finished = false
  regions : s.regions = [("header", h)]
  plain : h.isEnd = false
  noMin : h.minLength = none
  big : 32 ≤ h.length
  info : s.qcowInfo = qinfoR h

theorem lemma_stepRegion_fields (c : Bytes) (pos' : Nat) (r : Region) (hE : r.isEnd = false) :
    (stepRegion c pos' r).isEnd = false ∧ (stepRegion c pos' r).minLength = r.minLength ∧
    (stepRegion c pos' r).length = r.length ∧ (stepRegion c pos' r).offset = r.offset ∧
    (stepRegion c pos' r).endDone = r.endDone := by
  unfold stepRegion Region.capture
  simp only [hE, Bool.false_or, Bool.false_eq_true, if_false]
  split
  · split <;> simp [hE]
  · simp [hE]

theorem lemma_qcow_step (s : Insp) (h : Region) (c : Bytes) (hs : QShape s h) :
    let h' := stepRegion c (s.total + c.length) h
    eatChunk s c = ({ s with total := s.total + c.length, regions := [("header", h')],
                             qcowInfo := qinfoR h' }, none) ∧
    QShape { s with total := s.total + c.length, regions := [("header", h')], qcowInfo := qinfoR h' } h' := by
  obtain ⟨hfmt, hfin, hreg, hplain, hnomin, hbig, hinfo⟩ := hs
  have hst : s.fmt.static = true := by simp [hfmt, Fmt.static]
  obtain ⟨f1, f2, f3, f4, f5⟩ := lemma_stepRegion_fields c (s.total + c.length) h hplain
  have hrid := lemma_stepRegion_rid c (s.total + c.length) h
  refine ⟨?_, ⟨hfmt, hfin, rfl, f1, by rw [f2, hnomin], by rw [f3]; exact hbig, rfl⟩⟩
  rw [lemma_eatChunk_static s c hst hfin]
  simp only [afterCapture, hreg, List.map_cons, List.map_nil, List.filter_cons, List.filter_nil]
  cases hc : h.complete
  · -- not complete before
    simp only [Bool.false_eq_true, if_false, List.map_nil, List.contains_nil, Bool.not_false, Bool.and_true]
    cases hc' : (stepRegion c (s.total + c.length) h).complete
    · simp only [Bool.false_eq_true, if_false, List.map_nil, runCallbacks]
      congr 1
      have : qinfoR (stepRegion c (s.total + c.length) h) = none := by simp [qinfoR, hc']
      rw [this, hinfo]; simp [qinfoR, hc]
    · simp only [if_true, List.map_cons, List.map_nil, runCallbacks, regionComplete, hfmt]
      have hlen : (stepRegion c (s.total + c.length) h).data.length = h.length := by
        have := hc'
        simp only [Region.complete, f1, f2, hnomin, Bool.false_eq_true, if_false, decide_eq_true_eq, f3] at this
        exact this.symm
      simp only [qcowRegionComplete, Insp.region, lookupR, if_true]
      have h32 : (slice (stepRegion c (s.total + c.length) h).data 0 32).length = 32 := by
        simp [slice, hlen]; omega
      simp only [h32, ne_eq, not_true_eq_false, if_false, hc', Bool.true_and, qinfoR]
      cases hm : (slice (slice (stepRegion c (s.total + c.length) h).data 0 32) 0 4 == qcowMagic) <;>
        simp [runCallbacks]
  · -- complete before: skipped, no callback
    have hsame : stepRegion c (s.total + c.length) h = h := by
      simp [stepRegion, hplain, hc]
    simp only [hsame, hc, if_true, List.map_cons, List.map_nil, List.contains_cons, List.contains_nil,
      BEq.rfl, Bool.or_false, Bool.not_true, Bool.and_false, Bool.false_eq_true, if_false, runCallbacks, hinfo]

theorem lemma_qcow_feed (chunks : List Bytes) : ∀ (s : Insp) (h : Region), QShape s h →
    feed s chunks = ({ s with total := s.total + chunks.flatten.length,
                              regions := [("header", h.feed s.total chunks)],
                              qcowInfo := qinfoR (h.feed s.total chunks) }, none) := by
  induction chunks with
  | nil =>
    intro s h hs
    obtain ⟨_, _, hreg, _, _, _, hinfo⟩ := hs
    simp only [feed, Region.feed, List.flatten_nil, List.length_nil, Nat.add_zero, ← hreg, ← hinfo]
  | cons c cs ih =>
    intro s h hs
    obtain ⟨e1, e2⟩ := lemma_qcow_step s h c hs
    simp only [feed, e1]
    rw [ih _ _ e2]
    simp only [lemma_feed_step, List.flatten_cons, List.length_append, Nat.add_assoc]

end Oslo.Insp
