/-
C16 — text coding helpers round-trip, keep their type contract, are idempotent.

Property theorems only; helper lemmas live in OsloProofs/Lemmas/C16Codec.lean and C16Slug.lean.

Everything is stated for an arbitrary codec table `C : Codecs`, locale `env : Env`, front end
`front : Text → Text`; what is assumed about those parameters is a named hypothesis
(`Faithful`, `PolicyFree`, `CaseInsensitive`, `FrontOK`) visible in each statement, and each is
shown to be met by the concrete instances the driver runs (`real`, `asciiFront`).
Results are typed: `safeDecode`/`toSlug` return `Text`, `safeEncode`/`toUtf8` return `Bytes`
(the type contract of the non-raising outcomes is the typing of the model).
-/
import OsloModel.Encode
import OsloModel.Slug
import OsloProofs.Lemmas.C16Codec
import OsloProofs.Lemmas.C16Slug
namespace Oslo.C16
open Oslo.Encode Oslo.Slug

-- the concrete classes of the arguments (exact `str`/`bytes` or any proper subclass): every
-- theorem below holds for all of them
variable (k k' : Cls)

deriving instance DecidableEq for Except

/-- a locale for the examples: no `sys.stdin.encoding`, default encoding utf-8 -/
def env0 : Env := ⟨none, "utf-8".toList⟩

/-! ### what is assumed about a codec table -/

/-- codec `n` represents text faithfully: what strict encoding produces decodes (under any error
    policy) to the text it came from -/
def Faithful (C : Codecs) (n : Name) : Prop :=
  ∀ t b p, C.encode n .strict t = .ok b → C.decode n p b = .ok t

/-- when strict encoding succeeds the error policy makes no difference -/
def PolicyFree (C : Codecs) (n : Name) : Prop :=
  ∀ t b q, C.encode n .strict t = .ok b → C.encode n q t = .ok b

/-- codec lookup ignores letter case (for decoding, where the code passes the name as given) -/
def CaseInsensitive (C : Codecs) : Prop :=
  ∀ n p b, C.decode (lowerName n) p b = C.decode n p b

/-! ### safe_decode -/

/-- `safe_decode` returns a `str` unchanged, whatever the encoding, policy and locale -/
theorem decode_str_id (C : Codecs) (env : Env) (t : Text) (inc : Option Name) (p : Policy) :
    safeDecode C env (.str k t) inc p = .ok t := rfl

/-- an explicit non-empty `incoming` is the codec used; `None`/`''` fall back to
    `sys.stdin.encoding`, then to `sys.getdefaultencoding()` -/
theorem resolve_spec (env : Env) :
    (∀ c cs, resolve env (some (c :: cs)) = c :: cs) ∧
    (∀ inc, (inc = none ∨ inc = some []) →
      (∀ c cs, env.stdinEnc = some (c :: cs) → resolve env inc = c :: cs) ∧
      ((env.stdinEnc = none ∨ env.stdinEnc = some []) → resolve env inc = env.defaultEnc)) := by
  refine ⟨fun _ _ => rfl, fun inc hi => ⟨fun c cs hs => ?_, fun hs => ?_⟩⟩
  · rcases hi with rfl | rfl <;> simp [resolve, hs]
  · rcases hi with rfl | rfl <;> rcases hs with hs | hs <;> simp [resolve, hs]

/-- bytes are decoded with the given codec: whatever it yields is the result … -/
theorem decode_bytes_codec (C : Codecs) (env : Env) (b : Bytes) (inc : Option Name) (p : Policy)
    (t : Text) (h : C.decode (resolve env inc) p b = .ok t) :
    safeDecode C env (.bytes k b) inc p = .ok t := by
  simp [safeDecode, h]

/-- … when it reports a decoding error the bytes are decoded as UTF-8 instead (same policy) … -/
theorem decode_bytes_utf8_fallback (C : Codecs) (env : Env) (b : Bytes) (inc : Option Name)
    (p : Policy) (h : C.decode (resolve env inc) p b = .error .unicodeDecodeError) :
    safeDecode C env (.bytes k b) inc p = C.decode utf8Name p b := by
  simp [safeDecode, h]

/-- … and any other failure (unknown codec) is raised as it is -/
theorem decode_bytes_other_error (C : Codecs) (env : Env) (b : Bytes) (inc : Option Name)
    (p : Policy) (e : Err) (he : e ≠ .unicodeDecodeError)
    (h : C.decode (resolve env inc) p b = .error e) :
    safeDecode C env (.bytes k b) inc p = .error e := by
  cases e <;> simp_all [safeDecode]

/-! ### safe_encode -/

/-- `safe_encode` of a `str` is the codec's encoding under the lower-cased name and given policy -/
theorem encode_str_codec (C : Codecs) (env : Env) (t : Text) (inc : Option Name) (e : Name)
    (p : Policy) : safeEncode C env (.str k t) inc e p = C.encode (lowerName e) p t := rfl

/-- **Round trip.**  `safe_encode(text, encoding=e)` followed by `safe_decode(…, incoming=e)` —
    under any decoding policy and locale, whatever `incoming` the encoding call was given —
    returns `text`, for every text the codec can represent (strict encoding succeeds). -/
theorem encode_decode_roundtrip (C : Codecs) (hci : CaseInsensitive C) (env env' : Env)
    (e : Name) (he : e ≠ []) (hf : Faithful C (lowerName e))
    (t : Text) (inc : Option Name) (b : Bytes) (p : Policy)
    (h : safeEncode C env (.str k t) inc e .strict = .ok b) :
    safeDecode C env' (.bytes k' b) (some e) p = .ok t := by
  cases e with
  | nil => exact absurd rfl he
  | cons c cs =>
    have hd : C.decode (c :: cs) p b = .ok t := by
      rw [← hci (c :: cs) p b]; exact hf t b p h
    simp [safeDecode, resolve, hd]

/-- the same with an error policy on the encoding side, as long as the codec can represent the text -/
theorem encode_decode_roundtrip_any_policy (C : Codecs) (hci : CaseInsensitive C) (env env' : Env)
    (e : Name) (he : e ≠ []) (hf : Faithful C (lowerName e)) (hp : PolicyFree C (lowerName e))
    (t : Text) (inc : Option Name) (b0 b : Bytes) (q p : Policy)
    (hrep : C.encode (lowerName e) .strict t = .ok b0)
    (h : safeEncode C env (.str k t) inc e q = .ok b) :
    safeDecode C env' (.bytes k' b) (some e) p = .ok t := by
  have hb : b = b0 := by
    have h1 : C.encode (lowerName e) q t = .ok b0 := hp t b0 q hrep
    have h2 : C.encode (lowerName e) q t = .ok b := h
    rw [h1] at h2; exact (Except.ok.inj h2).symm
  subst hb
  exact encode_decode_roundtrip k k' C hci env env' e he hf t inc b p hrep

/-- bytes are returned untouched when `encoding` and the (resolved) `incoming` agree up to letter
    case — valid for that codec or not — … -/
theorem encode_bytes_same_codec_id (C : Codecs) (env : Env) (b : Bytes) (inc : Option Name)
    (e : Name) (p : Policy) (h : lowerName e = lowerName (resolve env inc)) :
    safeEncode C env (.bytes k b) inc e p = .ok b := by
  simp [safeEncode, h]

/-- … and when they are empty -/
theorem encode_bytes_empty_id (C : Codecs) (env : Env) (inc : Option Name) (e : Name) (p : Policy) :
    safeEncode C env (.bytes k []) inc e p = .ok [] := by
  simp [safeEncode]

/-- otherwise they are transcoded: decoded by `safe_decode` with the incoming codec, encoded with
    `encoding` -/
theorem encode_bytes_transcode (C : Codecs) (hci : CaseInsensitive C) (env : Env) (b : Bytes)
    (hb : b ≠ []) (inc : Option Name) (e : Name) (p : Policy)
    (hne : lowerName e ≠ lowerName (resolve env inc)) :
    safeEncode C env (.bytes k b) inc e p =
      match safeDecode C env (.bytes k b) inc p with
      | .ok t => C.encode (lowerName e) p t
      | .error err => .error err := by
  have hres : resolve env (some (lowerName (resolve env inc))) = lowerName (resolve env inc) := by
    cases hr : resolve env inc with
    | cons c cs => simp [lowerName, resolve]
    | nil =>
      -- the resolved name is empty only if everything down to the default encoding is empty
      obtain ⟨sin, d⟩ := env
      rcases inc with _ | _ | ⟨c, cs⟩ <;> rcases sin with _ | _ | ⟨c', cs'⟩ <;>
        simp_all [resolve, lowerName]
  have hdec : safeDecode C env (.bytes k b) (some (lowerName (resolve env inc))) p =
      safeDecode C env (.bytes k b) inc p := by
    simp only [safeDecode, hres, hci (resolve env inc) p b]
  simp only [safeEncode, hb, hne, ne_eq, not_false_eq_true, and_self, if_true]
  rw [hdec]
  cases safeDecode C env (.bytes k b) inc p <;> rfl

/-! ### the public signatures: omitted optional parameters -/

/-- an omitted parameter is its pinned default: `incoming=None`, `encoding='utf-8'`,
    `errors='strict'`; a passed one (positionally or by keyword) is itself -/
theorem call_defaults (C : Codecs) (env : Env) (front : Text → Text) (v : Val)
    (inc : Option Name) (e : Name) (p : Policy) :
    callSafeDecode C env v none none = safeDecode C env v none .strict ∧
    callSafeEncode C env v none none none = safeEncode C env v none "utf-8".toList .strict ∧
    callToSlug C env front v none none = toSlug C env front v none .strict ∧
    callSafeDecode C env v (some inc) (some p) = safeDecode C env v inc p ∧
    callSafeEncode C env v (some inc) (some e) (some p) = safeEncode C env v inc e p ∧
    callSafeEncode C env v (some inc) none (some p) = safeEncode C env v inc "utf-8".toList p ∧
    callToSlug C env front v (some inc) (some p) = toSlug C env front v inc p :=
  ⟨rfl, rfl, rfl, rfl, rfl, rfl, rfl⟩

/-- **Default encoding.**  With `encoding` left out, bytes whose incoming codec — given, or taken
    from the locale — is named `utf-8` in any letter case are returned untouched, valid UTF-8 or
    not, under every error policy. -/
theorem encode_bytes_default_encoding_id (C : Codecs) (env : Env) (b : Bytes)
    (inc : Option (Option Name)) (p : Option Policy)
    (h : lowerName (resolve env (argOr inc defaultIncoming)) = "utf-8".toList) :
    callSafeEncode C env (.bytes k b) inc none p = .ok b := by
  have hd : lowerName defaultEncoding = "utf-8".toList := by decide
  unfold callSafeEncode
  exact encode_bytes_same_codec_id k C env b _ _ _ (by rw [argOr, hd, h])

/-- … and a `str` is encoded as UTF-8 (the codec the table files under the name `utf-8`) -/
theorem encode_str_default_encoding (C : Codecs) (env : Env) (t : Text)
    (inc : Option (Option Name)) (p : Policy) :
    callSafeEncode C env (.str k t) inc none (some p) = C.encode utf8Name p t := by
  have hd : lowerName defaultEncoding = utf8Name := by decide
  simp [callSafeEncode, argOr, safeEncode, hd]

/-- non-vacuity: ill-formed UTF-8 handed over as `incoming='UTF-8'` (or with a UTF-8 stdin and no
    `incoming`) and no `encoding` comes back untouched under `replace`; under the alias `utf8` the
    names differ and the bytes are transcoded (here: replaced) -/
example :
    callSafeEncode real env0 (.bytes .exact [0xFF, 0xFE]) (some (some "UTF-8".toList)) none (some .replace)
      = .ok [0xFF, 0xFE] ∧
    callSafeEncode real ⟨some "Utf-8".toList, "ascii".toList⟩ (.bytes .exact [0xFF, 0xFE]) none none none
      = .ok [0xFF, 0xFE] ∧
    callSafeEncode real env0 (.bytes .exact [0xFF]) (some (some "utf8".toList)) none (some .replace)
      = .ok [0xEF, 0xBF, 0xBD] := by
  decide +kernel

/-! ### to_utf8 -/

theorem to_utf8_str (C : Codecs) (t : Text) : toUtf8 C (.str k t) = C.encode utf8Name .strict t := rfl

theorem to_utf8_bytes_id (C : Codecs) (b : Bytes) : toUtf8 C (.bytes k b) = .ok b := rfl

/-- what `to_utf8` makes of a `str` decodes back to it (UTF-8 faithful) -/
theorem to_utf8_roundtrip (C : Codecs) (hf : Faithful C utf8Name) (env : Env) (t : Text) (b : Bytes)
    (p : Policy) (h : toUtf8 C (.str k t) = .ok b) :
    safeDecode C env (.bytes k' b) (some utf8Name) p = .ok t := by
  have := hf t b p h
  simp [safeDecode, resolve, utf8Name] at this ⊢
  simp [this]

/-! ### TypeError for everything that is neither `str` nor `bytes` -/

theorem safe_decode_typeerror (C : Codecs) (env : Env) (inc : Option Name) (p : Policy) :
    safeDecode C env .other inc p = .error .typeError := rfl

theorem safe_encode_typeerror (C : Codecs) (env : Env) (inc : Option Name) (e : Name) (p : Policy) :
    safeEncode C env .other inc e p = .error .typeError := rfl

theorem to_utf8_typeerror (C : Codecs) : toUtf8 C .other = .error .typeError := rfl

theorem to_slug_typeerror (C : Codecs) (env : Env) (front : Text → Text) (inc : Option Name)
    (p : Policy) : toSlug C env front .other inc p = .error .typeError := rfl

/-- the codec machinery itself never raises TypeError (names and policies are strings) -/
def NoTypeError (C : Codecs) : Prop :=
  (∀ n p t, C.encode n p t ≠ .error .typeError) ∧ (∀ n p b, C.decode n p b ≠ .error .typeError)

/-- **TypeError exactly for the other types.**  Every instance of `str` or `bytes` — of the exact
    class or of any subclass — is accepted by all four helpers; TypeError means the argument is
    neither. -/
theorem typeerror_iff_other (C : Codecs) (hc : NoTypeError C) (env : Env) (front : Text → Text)
    (inc : Option Name) (e : Name) (p : Policy) (v : Val) :
    (safeDecode C env v inc p = .error .typeError ↔ v = .other) ∧
    (safeEncode C env v inc e p = .error .typeError ↔ v = .other) ∧
    (toUtf8 C v = .error .typeError ↔ v = .other) ∧
    (toSlug C env front v inc p = .error .typeError ↔ v = .other) := by
  obtain ⟨h1, h2⟩ := hc
  have hd : ∀ c b i, safeDecode C env (.bytes c b) i p ≠ .error .typeError := by
    intro c b i h
    simp only [safeDecode] at h
    cases hx : C.decode (resolve env i) p b with
    | ok t => simp [hx] at h
    | error er =>
      cases er with
      | typeError => exact h2 _ _ _ hx
      | unicodeDecodeError => simp only [hx] at h; exact h2 _ _ _ h
      | unicodeEncodeError => simp [hx] at h
      | lookupError => simp [hx] at h
  cases v with
  | other => simp [safeDecode, safeEncode, toUtf8, toSlug]
  | str c t =>
    refine ⟨by simp [safeDecode], by simpa [safeEncode] using h1 _ _ _,
      by simpa [toUtf8] using h1 _ _ _, by simp [toSlug, safeDecode]⟩
  | bytes c b =>
    refine ⟨by simpa using hd c b inc, ?_, by simp [toUtf8], ?_⟩
    · simp only [reduceCtorEq, iff_false]
      intro h
      unfold safeEncode at h
      simp only at h
      split at h
      · cases hs : safeDecode C env (.bytes c b) (some (lowerName (resolve env inc))) p with
        | ok t => simp only [hs] at h; exact h1 _ _ _ h
        | error er =>
          simp only [hs, Except.error.injEq] at h
          subst h; exact hd _ _ _ hs
      · simp at h
    · simp only [reduceCtorEq, iff_false]
      intro h
      unfold toSlug at h
      cases hs : safeDecode C env (.bytes c b) inc p with
      | ok t => simp [hs] at h
      | error er =>
        simp only [hs, Except.error.injEq] at h
        subst h; exact hd _ _ _ hs

/-- **Class independence.**  An instance of a subclass of `str` / `bytes` is treated exactly like
    the `str` / `bytes` with the same content by every helper. -/
theorem text_class_irrelevant (C : Codecs) (env : Env) (front : Text → Text) (inc : Option Name)
    (e : Name) (p : Policy) (t : Text) (b : Bytes) :
    safeDecode C env (.str k t) inc p = safeDecode C env (.str k' t) inc p ∧
    safeDecode C env (.bytes k b) inc p = safeDecode C env (.bytes k' b) inc p ∧
    safeEncode C env (.str k t) inc e p = safeEncode C env (.str k' t) inc e p ∧
    safeEncode C env (.bytes k b) inc e p = safeEncode C env (.bytes k' b) inc e p ∧
    toUtf8 C (.str k t) = toUtf8 C (.str k' t) ∧ toUtf8 C (.bytes k b) = toUtf8 C (.bytes k' b) ∧
    toSlug C env front (.str k t) inc p = toSlug C env front (.str k' t) inc p ∧
    toSlug C env front (.bytes k b) inc p = toSlug C env front (.bytes k' b) inc p :=
  ⟨rfl, rfl, rfl, rfl, rfl, rfl, rfl, rfl⟩

/-! ### the codecs the driver runs satisfy the laws (non-vacuity of the hypotheses above, and
    the reason the correspondence can run real bytes) -/

theorem real_faithful (n : Name) : Faithful real n := by
  intro t b p h
  cases hk : lookup n with
  | none => simp [real, hk] at h
  | some k =>
    rw [lemma_real_decode_known n k hk]
    cases k with
    | utf8 =>
      simp only [real, hk, Except.ok.injEq] at h
      subst h; exact lemma_utf8_roundtrip p t
    | latin1 =>
      simp only [real, hk] at h
      exact lemma_sb_roundtrip 256 (by omega) p t b h
    | ascii =>
      simp only [real, hk] at h
      exact lemma_sb_roundtrip 128 (by omega) p t b h

theorem real_policyFree (n : Name) : PolicyFree real n := by
  intro t b q h
  cases hk : lookup n with
  | none => simp [real, hk] at h
  | some k =>
    cases k with
    | utf8 => simpa [real, hk] using h
    | latin1 =>
      simp only [real, hk] at h ⊢
      exact lemma_sb_policy 256 q t b h
    | ascii =>
      simp only [real, hk] at h ⊢
      exact lemma_sb_policy 128 q t b h

theorem real_caseInsensitive : CaseInsensitive real := by
  intro n p b
  simp [real, lemma_lookup_lower]

theorem lemma_map_error {α β : Type} (f : α → β) (x : Except Err α) (e : Err)
    (h : Except.map f x = .error e) : x = .error e := by
  cases x <;> simp_all [Except.map]

theorem real_noTypeError : NoTypeError real := by
  have hse : ∀ l q u, sbEncode l q u ≠ .error .typeError := by
    intro l q u
    induction u with
    | nil => simp [sbEncode]
    | cons c cs ih =>
      intro h
      unfold sbEncode at h
      split at h
      · exact ih (lemma_map_error _ _ _ h)
      · cases q with
        | strict => simp at h
        | ignore => exact ih h
        | replace => exact ih (lemma_map_error _ _ _ h)
  have hsd : ∀ l q u, sbDecode l q u ≠ .error .typeError := by
    intro l q u
    induction u with
    | nil => simp [sbDecode]
    | cons c cs ih =>
      intro h
      unfold sbDecode at h
      split at h
      · exact ih (lemma_map_error _ _ _ h)
      · cases q with
        | strict => simp at h
        | ignore => exact ih h
        | replace => exact ih (lemma_map_error _ _ _ h)
  have hco : ∀ q evs, collect q evs ≠ .error .typeError := by
    intro q evs
    induction evs with
    | nil => simp [collect]
    | cons ev rest ih =>
      intro h
      cases ev with
      | ch m =>
        unfold collect at h
        cases hm : mkChar? m <;> cases hh : collect q rest <;> simp_all
      | bad =>
        unfold collect at h
        cases q with
        | strict => simp at h
        | ignore => exact ih h
        | replace => exact ih (lemma_map_error _ _ _ h)
  constructor
  · intro n p t h
    simp only [real] at h
    split at h
    · simp at h
    · simp at h
    · exact hse _ _ _ h
    · exact hse _ _ _ h
  · intro n p b h
    simp only [real] at h
    split at h
    · simp at h
    · split at h
      · simp at h
      · exact hco _ _ h
      · exact hsd _ _ _ h
      · exact hsd _ _ _ h

/-- non-vacuity: a concrete round trip through UTF-8 (2-, 3- and 4-byte forms) in mixed case,
    a transcoding latin-1 → utf-8, the UTF-8 fall-back, an untouched invalid byte string -/
example :
    safeEncode real env0 (.str .sub ['é', '€', Char.ofNat 0x1F600]) none "UTF-8".toList .strict
      = .ok [0xC3, 0xA9, 0xE2, 0x82, 0xAC, 0xF0, 0x9F, 0x98, 0x80] ∧
    safeDecode real env0 (.bytes .exact [0xC3, 0xA9, 0xE2, 0x82, 0xAC, 0xF0, 0x9F, 0x98, 0x80])
      (some "Utf-8".toList) .strict = .ok ['é', '€', Char.ofNat 0x1F600] ∧
    safeEncode real env0 (.bytes .sub [0xE9]) (some "Latin-1".toList) "utf8".toList .strict = .ok [0xC3, 0xA9] ∧
    safeDecode real env0 (.bytes .exact [0xC3, 0xA9]) (some "ascii".toList) .strict = .ok ['é'] ∧
    safeEncode real env0 (.bytes .sub [0xFF]) (some "UTF-8".toList) "utf-8".toList .strict = .ok [0xFF] ∧
    safeEncode real env0 (.str .exact ['é']) none "ascii".toList .strict = .error .unicodeEncodeError := by
  decide +kernel

/-! ### to_slug -/

/-- what is assumed about the NFKD + ASCII-ignore front end -/
structure FrontOK (front : Text → Text) : Prop where
  ascii_out : ∀ s, IsAscii (front s)
  id_on_ascii : ∀ s, IsAscii s → front s = s

/-- non-vacuity: dropping the non-ASCII characters is such a front end -/
theorem asciiFront_ok : FrontOK asciiFront where
  ascii_out s := by
    intro c hc
    simpa using (List.mem_filter.mp hc).2
  id_on_ascii s hs := by
    unfold asciiFront
    rw [List.filter_eq_self]
    intro c hc
    simpa using hs c hc

/-- **Alphabet.**  The slug of any text consists of lowercase ASCII letters, digits, underscores
    and hyphens only, and never has two hyphens in a row.  (A leading or trailing hyphen *is*
    possible — see `slug_edge_hyphens_occur`.) -/
theorem slug_alphabet (front : Text → Text) (hf : FrontOK front) (s : Text) :
    (∀ c ∈ slugText front s, SlugChar c) ∧ ¬ (['-', '-'] <:+: slugText front s) :=
  ⟨lemma_pipe_alphabet _ (hf.ascii_out s), lemma_good_nodouble _ _ (lemma_pipe_good _)⟩

/-- the truth about the ends: `strip()` removes white space only, so hyphens at the ends stay -/
theorem slug_edge_hyphens_occur :
    slugText asciiFront " -Foo  Bar- ".toList = "-foo-bar-".toList ∧
    slugText asciiFront "- -".toList = "-".toList := by decide +kernel

/-- **Idempotence.**  Slugging a slug changes nothing. -/
theorem slug_idempotent (front : Text → Text) (hf : FrontOK front) (s : Text) :
    slugText front (slugText front s) = slugText front s := by
  have ha := lemma_pipe_alphabet _ (hf.ascii_out s)
  have hascii : IsAscii (slugText front s) := fun c hc => lemma_slugChar_ascii c (ha c hc)
  have e := hf.id_on_ascii _ hascii
  unfold slugText at e ⊢
  rw [e]
  exact lemma_pipe_fix _ ha (lemma_pipe_good _)

/-- the same for the function as called: whatever `to_slug` returned (from `str` or from bytes
    in any encoding) is returned again by `to_slug`, with any `incoming`/`errors`/locale -/
theorem to_slug_idempotent (C : Codecs) (env env' : Env) (front : Text → Text) (hf : FrontOK front)
    (v : Val) (inc inc' : Option Name) (p p' : Policy) (o : Text)
    (h : toSlug C env front v inc p = .ok o) :
    toSlug C env' front (.str k o) inc' p' = .ok o := by
  unfold toSlug at h
  cases hd : safeDecode C env v inc p with
  | error e => simp [hd] at h
  | ok t =>
    simp only [hd, Except.ok.injEq] at h
    subst h
    simp [toSlug, safeDecode, slug_idempotent front hf t]

/-- the alphabet claim for the function as called -/
theorem to_slug_alphabet (C : Codecs) (env : Env) (front : Text → Text) (hf : FrontOK front)
    (v : Val) (inc : Option Name) (p : Policy) (o : Text)
    (h : toSlug C env front v inc p = .ok o) :
    (∀ c ∈ o, SlugChar c) ∧ ¬ (['-', '-'] <:+: o) := by
  unfold toSlug at h
  cases hd : safeDecode C env v inc p with
  | error e => simp [hd] at h
  | ok t =>
    simp only [hd, Except.ok.injEq] at h
    subst h
    exact slug_alphabet front hf t

/-- non-vacuity: slugs of bytes and text through the concrete table -/
example :
    toSlug real env0 asciiFront (.bytes .sub [0x41, 0x20, 0x20, 0x62, 0x21]) (some "ASCII".toList)
      .strict = .ok "a-b".toList ∧
    toSlug real env0 asciiFront (.str .sub "a-b".toList) none .strict = .ok "a-b".toList := by
  decide +kernel

end Oslo.C16
